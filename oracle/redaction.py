"""Redaction algorithm per room version (1..11), transcribed from the Matrix specification
(room version pages, "Redactions"); see /verif/DESIGN.md Appendix A.1.  Independent of ruma and
of the Rust transcription in mc/engine/src/spec/redaction.rs.
"""

ALWAYS_KEPT_TOP = frozenset(
    [
        "event_id", "type", "room_id", "sender", "state_key", "content", "hashes", "signatures",
        "depth", "prev_events", "auth_events", "origin_server_ts",
    ]
)
KEPT_TOP_UNTIL_V10 = frozenset(["origin", "membership", "prev_state"])

POWER_LEVELS_KEPT = frozenset(
    ["ban", "events", "events_default", "kick", "redact", "state_default", "users", "users_default"]
)


class RedactError(Exception):
    """the event cannot be redacted (type missing / not a string, content not an object)"""


class Unspecified(Exception):
    """the specification does not define the result (DESIGN 1.3)"""


def top_kept(v, key):
    return key in ALWAYS_KEPT_TOP or (v <= 10 and key in KEPT_TOP_UNTIL_V10)


def redact_content(v, ty, content):
    out = {}
    for k, val in content.items():
        if ty == "m.room.member":
            if k == "membership":
                out[k] = val
            elif k == "join_authorised_via_users_server" and v >= 9:
                out[k] = val
            elif k == "third_party_invite" and v >= 11:
                if not isinstance(val, dict) or "signed" not in val:
                    raise Unspecified("third_party_invite without signed")
                out[k] = {"signed": val["signed"]}
        elif ty == "m.room.create":
            if v >= 11 or k == "creator":
                out[k] = val
        elif ty == "m.room.join_rules":
            if k == "join_rule" or (k == "allow" and v >= 8):
                out[k] = val
        elif ty == "m.room.power_levels":
            if k in POWER_LEVELS_KEPT or (k == "invite" and v >= 11):
                out[k] = val
        elif ty == "m.room.history_visibility":
            if k == "history_visibility":
                out[k] = val
        elif ty == "m.room.aliases":
            if k == "aliases" and v <= 5:
                out[k] = val
        elif ty == "m.room.redaction":
            if k == "redacts" and v >= 11:
                out[k] = val
    return out


def redact(v, event):
    ty = event.get("type")
    if not isinstance(ty, str):
        raise RedactError("type")
    out = {}
    for k, val in event.items():
        if not top_kept(v, k):
            continue
        if k == "content":
            if not isinstance(val, dict):
                raise RedactError("content")
            out[k] = redact_content(v, ty, val)
        else:
            out[k] = val
    return out

"""Matrix canonical JSON, written from the specification text (appendices, "Canonical JSON").

Independent of ruma: python3 stdlib only.  Two encoders are kept on purpose:
  * encode()      - a hand-written recursive encoder (sorted keys by code point, no
                    insignificant whitespace, minimal escapes, integers only, UTF-8);
  * dumps_check() - json.dumps(sort_keys=True, separators=(',',':'), ensure_ascii=False)
and the validator insists that both agree on every value (a disagreement is a defect of the
oracle, reported as a machinery error, never as a verdict on ruma).
"""
import json

MAX_INT = 2 ** 53 - 1


class NotCanonical(Exception):
    """the value cannot be represented in canonical JSON"""


_SHORT = {0x08: "\\b", 0x09: "\\t", 0x0A: "\\n", 0x0C: "\\f", 0x0D: "\\r", 0x22: '\\"', 0x5C: "\\\\"}


def _enc_str(s, out):
    out.append('"')
    for ch in s:
        c = ord(ch)
        if c in _SHORT:
            out.append(_SHORT[c])
        elif c < 0x20:
            out.append("\\u%04x" % c)
        elif 0xD800 <= c <= 0xDFFF:
            raise NotCanonical("lone surrogate U+%04X" % c)
        else:
            out.append(ch)
    out.append('"')


def _enc(v, out):
    if v is None:
        out.append("null")
    elif v is True:
        out.append("true")
    elif v is False:
        out.append("false")
    elif isinstance(v, int):
        if not -MAX_INT <= v <= MAX_INT:
            raise NotCanonical("integer out of range: %d" % v)
        out.append(str(v))
    elif isinstance(v, str):
        _enc_str(v, out)
    elif isinstance(v, list):
        out.append("[")
        first = True
        for x in v:
            if not first:
                out.append(",")
            first = False
            _enc(x, out)
        out.append("]")
    elif isinstance(v, dict):
        out.append("{")
        first = True
        # Python compares str by code point, which is the order the spec prescribes
        for k in sorted(v.keys()):
            if not first:
                out.append(",")
            first = False
            _enc_str(k, out)
            out.append(":")
            _enc(v[k], out)
        out.append("}")
    else:
        raise NotCanonical("not a canonical JSON value: %r" % type(v))


def encode(v):
    """canonical JSON bytes of a Python value (dict/list/str/int/bool/None)"""
    out = []
    _enc(v, out)
    return "".join(out).encode("utf-8")


def dumps_check(v):
    return json.dumps(v, sort_keys=True, separators=(",", ":"), ensure_ascii=False, allow_nan=False).encode("utf-8")


class OracleBug(Exception):
    pass


def canonical(v):
    """encode() cross-checked against json.dumps"""
    a = encode(v)
    b = dumps_check(v)
    if a != b:
        raise OracleBug("python encoders disagree: %r vs %r" % (a, b))
    return a


class _NonRep:
    """marker put in place of a number that canonical JSON cannot represent"""

    def __init__(self, lit):
        self.lit = lit


_flag = [False]


def _parse_int(lit):
    # "-0" is negative zero (not representable); everything else is an exact integer
    if lit.startswith("-") and lit.lstrip("-0") == "":
        _flag[0] = True
        return _NonRep(lit)
    n = int(lit)
    if not -MAX_INT <= n <= MAX_INT:
        _flag[0] = True
        return _NonRep(lit)
    return n


def _parse_float(lit):
    _flag[0] = True
    return _NonRep(lit)


def _parse_const(lit):
    raise ValueError("not JSON: " + lit)


def _has_nonrep(v):
    if isinstance(v, _NonRep):
        return True
    if isinstance(v, list):
        return any(_has_nonrep(x) for x in v)
    if isinstance(v, dict):
        return any(_has_nonrep(x) for x in v.values())
    return False


def _has_surrogate(v):
    if isinstance(v, str):
        return any(0xD800 <= ord(c) <= 0xDFFF for c in v)
    if isinstance(v, list):
        return any(_has_surrogate(x) for x in v)
    if isinstance(v, dict):
        return any(_has_surrogate(k) or _has_surrogate(x) for k, x in v.items())
    return False


_DECODER = json.JSONDecoder(parse_int=_parse_int, parse_float=_parse_float, parse_constant=_parse_const)


def loads_strict(text):
    """Parse a JSON text (str). Returns (value, representable: bool).

    Duplicate keys: the last one wins (python dict semantics = the value model of DESIGN C01).
    representable is False when the resulting value holds a fraction / exponent / negative
    zero / out-of-range integer / lone surrogate.
    """
    _flag[0] = False
    v = _DECODER.decode(text)
    # the tree walks are only needed when a suspicious token was seen at all
    if _flag[0] and _has_nonrep(v):
        return v, False
    if "\\u" in text or "\\U" in text:
        if ("\\ud" in text.lower()) and _has_surrogate(v):
            return v, False
    return v, True

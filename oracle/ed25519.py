"""Pure-Python Ed25519 (RFC 8032 section 6 reference algorithm; hashlib.sha512 only).

verify() is the oracle; secret_to_public()/sign() exist for the self test and to re-derive the
public key of the enumerated seeds independently of ed25519-dalek.
"""
import hashlib

p = 2 ** 255 - 19
L = 2 ** 252 + 27742317777372353535851937790883648493
d = -121665 * pow(121666, p - 2, p) % p
SQRT_M1 = pow(2, (p - 1) // 4, p)


def _sha512(b):
    return hashlib.sha512(b).digest()


def _inv(x):
    return pow(x, p - 2, p)


def point_add(P, Q):
    A = (P[1] - P[0]) * (Q[1] - Q[0]) % p
    B = (P[1] + P[0]) * (Q[1] + Q[0]) % p
    C = 2 * P[3] * Q[3] * d % p
    D = 2 * P[2] * Q[2] % p
    E, F, G, H = B - A, D - C, D + C, B + A
    return (E * F % p, G * H % p, F * G % p, E * H % p)


def point_mul(s, P):
    Q = (0, 1, 1, 0)
    while s > 0:
        if s & 1:
            Q = point_add(Q, P)
        P = point_add(P, P)
        s >>= 1
    return Q


def point_equal(P, Q):
    if (P[0] * Q[2] - Q[0] * P[2]) % p != 0:
        return False
    if (P[1] * Q[2] - Q[1] * P[2]) % p != 0:
        return False
    return True


def recover_x(y, sign):
    if y >= p:
        return None
    x2 = (y * y - 1) * _inv(d * y * y + 1) % p
    if x2 == 0:
        return None if sign else 0
    x = pow(x2, (p + 3) // 8, p)
    if (x * x - x2) % p != 0:
        x = x * SQRT_M1 % p
    if (x * x - x2) % p != 0:
        return None
    if (x & 1) != sign:
        x = p - x
    return x


_gy = 4 * _inv(5) % p
_gx = recover_x(_gy, 0)
G = (_gx, _gy, 1, _gx * _gy % p)


def point_compress(P):
    zinv = _inv(P[2])
    x = P[0] * zinv % p
    y = P[1] * zinv % p
    return int.to_bytes(y | ((x & 1) << 255), 32, "little")


def point_decompress(s):
    if len(s) != 32:
        return None
    y = int.from_bytes(s, "little")
    sign = y >> 255
    y &= (1 << 255) - 1
    x = recover_x(y, sign)
    if x is None:
        return None
    return (x, y, 1, x * y % p)


def secret_expand(secret):
    if len(secret) != 32:
        raise ValueError("bad seed length")
    h = _sha512(secret)
    a = int.from_bytes(h[:32], "little")
    a &= (1 << 254) - 8
    a |= 1 << 254
    return a, h[32:]


def secret_to_public(secret):
    a, _ = secret_expand(secret)
    return point_compress(point_mul(a, G))


def _sha512_modq(b):
    return int.from_bytes(_sha512(b), "little") % L


def sign(secret, msg):
    a, prefix = secret_expand(secret)
    A = point_compress(point_mul(a, G))
    r = _sha512_modq(prefix + msg)
    Rs = point_compress(point_mul(r, G))
    h = _sha512_modq(Rs + A + msg)
    s = (r + h * a) % L
    return Rs + int.to_bytes(s, 32, "little")


def verify(public, msg, signature):
    """RFC 8032 5.1.7; False for any malformed input"""
    if len(public) != 32 or len(signature) != 64:
        return False
    A = point_decompress(public)
    if A is None:
        return False
    Rs = signature[:32]
    R = point_decompress(Rs)
    if R is None:
        return False
    s = int.from_bytes(signature[32:], "little")
    if s >= L:
        return False
    h = _sha512_modq(Rs + public + msg)
    return point_equal(point_mul(s, G), point_add(R, point_mul(h, A)))


def self_test():
    """RFC 8032 7.1 TEST 1 and TEST 2, plus a negative case"""
    vecs = [
        (
            "9d61b19deffd5a60ba844af492ec2cc44449c5697b326919703bac031cae7f60",
            "d75a980182b10ab7d54bfed3c964073a0ee172f3daa62325af021a68f707511a",
            "",
            "e5564300c360ac729086e2cc806e828a84877f1eb8e5d974d873e06522490155"
            "5fb8821590a33bacc61e39701cf9b46bd25bf5f0595bbe24655141438e7a100b",
        ),
        (
            "4ccd089b28ff96da9db6c346ec114e0f5b8a319f35aba624da8cf6ed4fb8a6fb",
            "3d4017c3e843895a92b70aa74d1b7ebc9c982ccf2ec4968cc0cd55f12af4660c",
            "72",
            "92a009a9f0d4cab8720e820b5f642540a2b27b5416503f8fb3762223ebdb69da"
            "085ac1e43e15996e458f3613d0f11d8c387b2eaeb4302aeeb00d291612bb0c00",
        ),
    ]
    for sk, pk, msg, sig in vecs:
        sk, pk, msg, sig = map(bytes.fromhex, (sk, pk, msg, sig))
        if secret_to_public(sk) != pk:
            return "public key derivation"
        if sign(sk, msg) != sig:
            return "signature"
        if not verify(pk, msg, sig):
            return "verify rejects a valid signature"
        bad = bytearray(sig)
        bad[7] ^= 4
        if verify(pk, msg, bytes(bad)) or verify(pk, msg + b"x", sig):
            return "verify accepts a forged signature"
    return None


if __name__ == "__main__":
    r = self_test()
    print("ed25519 self test:", "ok" if r is None else "FAILED: " + r)
    raise SystemExit(0 if r is None else 1)

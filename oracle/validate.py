#!/usr/bin/env python3
"""Cross-language trace validator (python3 stdlib only): the independent oracle of DESIGN 1.3.

usage: validate.py <ID> <trace.jsonl>        ID in C01 C02 C05

The Rust check of property <ID> writes every explored case together with ruma's answer as one
JSON line.  This program recomputes the answer from the specification (canonical JSON bytes,
SHA-256, base64, redaction table, RFC 8032 Ed25519) for every line and prints one JSON line per
mismatch:   {"line": <0-based index>, "sig": "<class>", "detail": "<text>"}
and finally {"summary": {"validated": n, "unspecified": u, "mismatches": m, ...}}.
Exit status 0 = the validator ran to completion (mismatches are data); anything else (or a
missing summary line) is a machinery failure for the caller, never a verdict.
"""
import base64
import hashlib
import json
import os
import re
import sys
import traceback

sys.path.insert(0, os.path.dirname(os.path.abspath(__file__)))
import canonjson  # noqa: E402
import ed25519  # noqa: E402
import redaction  # noqa: E402

MAX_PDU = 65535


def b64_std_nopad(b):
    return base64.b64encode(b).decode("ascii").rstrip("=")


def b64_url_nopad(b):
    return base64.urlsafe_b64encode(b).decode("ascii").rstrip("=")


def short(b, n=160):
    if isinstance(b, bytes):
        b = b.decode("utf-8", "backslashreplace")
    b = b.encode("ascii", "backslashreplace").decode("ascii")
    return b if len(b) <= n else b[:n] + "..."


# ------------------------------------------------------------------------------------------
# C01: {"c": class, "o": hex(canonical bytes from ruma) | null, "t": [hex(JSON text), ...]}


def check_c01(rec, out):
    cls = rec.get("c", "?")
    got = None if rec["o"] is None else bytes.fromhex(rec["o"])
    n = 0
    for th in rec["t"]:
        n += 1
        text = bytes.fromhex(th).decode("utf-8")  # the Rust side only writes valid UTF-8
        try:
            v, representable = canonjson.loads_strict(text)
        except ValueError as e:
            # not JSON for python either (e.g. 1e400 is fine for python, so this is rare)
            v, representable = None, False
            why = "python rejects the text: %s" % e
        else:
            why = "value holds a number / string canonical JSON cannot represent"
        if not representable:
            if got is not None:
                out("py-canonical/accepted-nonrepresentable/" + cls,
                    "text %s: %s, but ruma produced %s" % (short(text), why, short(got)))
            continue
        exp = canonjson.canonical(v)
        if got is None:
            out("py-canonical/rejected-representable/" + cls,
                "text %s: python canonical form %s, ruma returned an error" % (short(text), short(exp)))
        elif got != exp:
            out("py-canonical/bytes-differ/" + cls,
                "text %s: python %s ruma %s" % (short(text), short(exp), short(got)))
        else:
            # parse-back: the canonical bytes are themselves JSON for the same value
            back, ok = canonjson.loads_strict(got.decode("utf-8"))
            if not ok or back != v:
                out("py-canonical/parse-back/" + cls, "canonical %s does not parse back to the value" % short(got))
    return n, 0


# ------------------------------------------------------------------------------------------
# C02: {"c": class, "obj": hex(JSON text of the signed object), "entity", "key_id", "sig": str,
#       "pub": hex, "seed": hex|null, "canon": hex(ruma canonical_json(obj)), "expect": bool}

_PUB = {}
_SIG_RE = re.compile(r"^[A-Za-z0-9+/]{86}$")


def pub_of_seed(seed_hex):
    if seed_hex not in _PUB:
        _PUB[seed_hex] = ed25519.secret_to_public(bytes.fromhex(seed_hex))
    return _PUB[seed_hex]


def check_c02(rec, out):
    cls = rec.get("c", "?")
    obj = json.loads(bytes.fromhex(rec["obj"]).decode("utf-8"))
    if not isinstance(obj, dict):
        raise canonjson.OracleBug("C02 trace object is not an object")
    signed = {k: v for k, v in obj.items() if k not in ("signatures", "unsigned")}
    msg = canonjson.canonical(signed)
    if rec.get("canon") is not None:
        got = bytes.fromhex(rec["canon"])
        if got != msg:
            out("py-sign/canonical-json-differs/" + cls, "python %s ruma %s" % (short(msg), short(got)))
    pub = bytes.fromhex(rec["pub"])
    if rec.get("seed"):
        if pub_of_seed(rec["seed"]) != pub:
            out("py-sign/public-key-of-seed/" + cls,
                "seed %s: RFC 8032 public key %s, ruma %s" % (rec["seed"], pub_of_seed(rec["seed"]).hex(), pub.hex()))
    sig_s = rec["sig"]
    expect = rec.get("expect", True)
    if expect:
        # position and spelling of the signature
        at = obj.get("signatures", {})
        at = at.get(rec["entity"], {}) if isinstance(at, dict) else {}
        at = at.get(rec["key_id"]) if isinstance(at, dict) else None
        if at != sig_s:
            out("py-sign/not-at-signatures-entity-keyid/" + cls,
                "signatures[%r][%r] is %r, expected %r" % (rec["entity"], rec["key_id"], at, sig_s))
        if not rec["key_id"].startswith("ed25519:"):
            out("py-sign/key-id-algorithm/" + cls, "key id %r" % rec["key_id"])
        if not _SIG_RE.match(sig_s):
            out("py-sign/not-unpadded-standard-base64/" + cls, "signature string %r" % sig_s)
            return 1, 0
    try:
        sig = base64.b64decode(sig_s + "=" * (-len(sig_s) % 4), validate=True)
    except Exception:
        sig = b""
    ok = ed25519.verify(pub, msg, sig)
    if ok != expect:
        out("py-sign/rfc8032-verify-%s/%s" % ("rejects" if expect else "accepts", cls),
            "entity %r key %r pub %s sig %r over %s: python verify=%s ruma=%s"
            % (rec["entity"], rec["key_id"], pub.hex(), sig_s, short(msg), ok, expect))
    return 1, 0


# ------------------------------------------------------------------------------------------
# C05: {"c": class, "v": 1..11, "ev": {...}, "ch": res, "rh": res, "hs": str|absent}
#      res = "ok:<base64>" | "err:PduSize" | "err:<other>"


def _expect_hash(stripped, full_len, encode):
    """three-valued: ("ok", text) | ("pdusize",) | ("unspecified", text)"""
    h = encode(hashlib.sha256(stripped).digest())
    if len(stripped) > MAX_PDU:
        return ("pdusize", None)
    if full_len <= MAX_PDU:
        return ("ok", h)
    return ("unspecified", h)


def _compare(kind, cls, got, exp, out, extra=""):
    """returns 1 when the case was Unspecified (not compared)"""
    tag, h = exp
    if tag == "pdusize":
        if got != "err:PduSize":
            out("py-hash/%s/expected-pdusize/%s" % (kind, cls), "stripped canonical form > 65535 bytes but ruma returned %s%s" % (short(got), extra))
        return 0
    if got.startswith("ok:"):
        if got[3:] != h:
            sub = "value-differs"
            alt = got[3:].replace("-", "+").replace("_", "/")
            if alt == h.replace("-", "+").replace("_", "/"):
                sub = "alphabet"
            elif got[3:].rstrip("=") == h:
                sub = "padding"
            out("py-hash/%s/%s/%s" % (kind, sub, cls), "python %s ruma %s%s" % (h, got[3:], extra))
        return 1 if tag == "unspecified" else 0
    if tag == "unspecified":
        return 1
    out("py-hash/%s/unexpected-error/%s" % (kind, cls), "python %s ruma %s%s" % (h, short(got), extra))
    return 0


def check_c05(rec, out):
    cls = rec.get("c", "?")
    v = rec["v"]
    ev = rec["ev"]
    unspec = 0
    full = canonjson.canonical(ev)
    # content hash
    c_strip = canonjson.canonical({k: x for k, x in ev.items() if k not in ("unsigned", "signatures", "hashes")})
    exp = _expect_hash(c_strip, len(full), b64_std_nopad)
    if "ch" in rec:
        unspec += _compare("content_hash", cls, rec["ch"], exp, out, " (stripped %d bytes, full %d)" % (len(c_strip), len(full)))
    if "hs" in rec and exp[0] == "ok" and rec["hs"] != exp[1]:
        out("py-hash/hashes.sha256/value-differs/" + cls, "python %s hash_and_sign_event wrote %r" % (exp[1], rec["hs"]))
    # reference hash
    if "rh" in rec:
        enc = b64_std_nopad if v <= 3 else b64_url_nopad
        try:
            red = redaction.redact(v, ev)
        except redaction.RedactError as e:
            if rec["rh"].startswith("ok:"):
                out("py-hash/reference_hash/expected-error/" + cls, "event cannot be redacted (%s) but ruma returned %s" % (e, rec["rh"]))
            return 1, unspec
        except redaction.Unspecified:
            return 1, unspec + 1
        r_strip = canonjson.canonical({k: x for k, x in red.items() if k not in ("signatures", "unsigned")})
        exp = _expect_hash(r_strip, len(full), enc)
        unspec += _compare("reference_hash/v%d" % v, cls, rec["rh"], exp, out, " (redacted+stripped %d bytes, full %d)" % (len(r_strip), len(full)))
    return 1, unspec


CHECKS = {"C01": check_c01, "C02": check_c02, "C05": check_c05}


def worker(args):
    ident, path, k, n = args
    fn = CHECKS[ident]
    mism = []
    validated = unspec = lines = 0
    with open(path, "rb") as f:
        for i, line in enumerate(f):
            if i % n != k:
                continue
            lines += 1
            rec = json.loads(line)

            def out(sig, detail, i=i):
                mism.append({"line": i, "sig": sig, "detail": detail})

            a, b = fn(rec, out)
            validated += a
            unspec += b
    return mism, validated, unspec, lines


def main():
    if len(sys.argv) < 3 or sys.argv[1] not in CHECKS:
        print("usage: validate.py C01|C02|C05 <trace.jsonl>", file=sys.stderr)
        return 2
    ident, path = sys.argv[1], sys.argv[2]
    st = ed25519.self_test()
    if st is not None:
        print("oracle self test failed: " + st, file=sys.stderr)
        return 3
    size = os.path.getsize(path)
    n = int(os.environ.get("VERIF_THREADS") or min(16, os.cpu_count() or 1))
    if size < 200_000 and not (ident == "C02" and size > 20_000):
        n = 1
    if n == 1:
        results = [worker((ident, path, 0, 1))]
    else:
        import multiprocessing

        with multiprocessing.Pool(n) as pool:
            results = pool.map(worker, [(ident, path, k, n) for k in range(n)])
    mism = sorted((m for r in results for m in r[0]), key=lambda m: (m["line"], m["sig"]))
    for m in mism:
        print(json.dumps(m, ensure_ascii=True))
    print(json.dumps({"summary": {
        "validated": sum(r[1] for r in results),
        "unspecified": sum(r[2] for r in results),
        "lines": sum(r[3] for r in results),
        "mismatches": len(mism),
        "processes": n,
    }}))
    return 0


if __name__ == "__main__":
    try:
        sys.exit(main())
    except SystemExit:
        raise
    except BaseException:
        traceback.print_exc()
        sys.exit(4)

#!/bin/bash
# tools/seed_replay.sh <seed> <ID> [<ID>...] : apply a stored seed (seeded/<seed>/patch.diff) to a fresh scratch
# worktree of /repo's HEAD and run the given checks there. Prints one line per check.
S=$1; shift
WT=/tmp/wt_replay_$S
git -C /repo worktree remove --force $WT >/dev/null 2>&1
git -C /repo worktree add -q --detach $WT HEAD || exit 2
if ! git -C $WT apply /verif/seeded/$S/patch.diff 2>/dev/null; then
  if ! git -C $WT apply --3way /verif/seeded/$S/patch.diff >/dev/null 2>&1; then echo "replay=$S patch does not apply to HEAD"; git -C /repo worktree remove --force $WT; exit 3; fi
fi
for ID in "$@"; do
  out=$(/verif/tools/check_tree.sh $WT "$ID" --tier ${TIER:-quick} 2>&1); rc=$?
  echo "replay=$S check=$ID rc=$rc viol=$(echo "$out" | grep -c '^VIOLATION') :: $(echo "$out" | grep -m1 '^  sig=' | cut -c1-160)"
done
git -C /repo worktree remove --force $WT

#!/bin/bash
# tools/seed_split.sh <IDtag> : after a three-change agent finished (/tmp/seed_out/<IDtag>/{A,B,C}/), make one scratch
# worktree per change (/tmp/seed/<IDtag>X with the patch applied and the demo in place) and one output dir
# /tmp/seed_out/<IDtag>X, so that the usual seed_auto.sh / seed_confirm.sh / seed_store.sh work per change.
S=$1
git -C /repo worktree remove --force /tmp/seed/$S >/dev/null 2>&1; rm -rf /tmp/seed/$S
for X in A B C; do
  SRC=/tmp/seed_out/$S/$X
  [ -f $SRC/patch.diff ] || { echo "$S$X: no patch"; continue; }
  WT=/tmp/seed/$S$X
  git -C /repo worktree remove --force $WT >/dev/null 2>&1
  git -C /repo worktree add -q --detach $WT HEAD || exit 2
  if ! git -C $WT apply $SRC/patch.diff; then echo "$S$X: patch does not apply"; git -C /repo worktree remove --force $WT; continue; fi
  rm -rf /tmp/seed_out/$S$X; cp -r $SRC /tmp/seed_out/$S$X
  echo "$S$X ready"
done

#!/bin/bash
# tools/seed_wave.sh <IDtag> <primary ID> [other IDs...] : split a three-change delivery and evaluate / confirm / store each change
S=$1; shift
/verif/tools/seed_split.sh $S
for X in A B C; do
  [ -d /tmp/seed/$S$X ] || continue
  /verif/tools/seed_auto.sh $S$X "$@"
done

#!/bin/bash
# tools/seed_regress.sh [seed...] : replay stored seeds (default: all) against the current checks, reusing ONE scratch
# worktree and its build output so that only the touched crates rebuild. Prints "seed check rc viol" lines and a summary.
# The primary check of a seed is the one named by its first three characters.
WT=/tmp/wt_regress
if [ ! -d $WT ]; then git -C /repo worktree add -q --detach $WT HEAD || exit 2; fi
git -C $WT checkout -q --detach $(git -C /repo rev-parse HEAD) 2>/dev/null
SEEDS="$@"; [ -n "$SEEDS" ] || SEEDS=$(ls /verif/seeded)
ok=0; miss=0; skip=0
for S in $SEEDS; do
  ID=${S:0:3}
  git -C $WT reset -q --hard; git -C $WT clean -fdq crates 2>/dev/null   # private scratch worktree: reset is safe here
  if ! git -C $WT apply /verif/seeded/$S/patch.diff 2>/dev/null && ! git -C $WT apply --3way /verif/seeded/$S/patch.diff >/dev/null 2>&1; then
    echo "regress $S $ID patch-does-not-apply"; skip=$((skip+1)); git -C $WT reset -q --hard; continue
  fi
  out=$(/verif/tools/check_tree.sh $WT "$ID" --tier ${TIER:-quick} 2>&1); rc=$?
  nv=$(echo "$out" | grep -c '^VIOLATION')
  echo "regress $S $ID rc=$rc viol=$nv"
  if [ $rc -eq 1 ]; then ok=$((ok+1)); else miss=$((miss+1)); echo "$out" | tail -3; fi
done
git -C $WT reset -q --hard
echo "SUMMARY reported=$ok not-reported=$miss patch-does-not-apply=$skip"

#!/bin/bash
# tools/mutant.sh <name> <file-relative-to-repo> <python-replace-old> <python-replace-new> <ID> [<ID>...]
# Applies a textual one-site mutation in a scratch worktree and runs the given checks there.
set -u
NAME=$1; FILE=$2; OLD=$3; NEW=$4; shift 4
WT=/tmp/wt_$NAME
git -C /repo worktree remove --force "$WT" >/dev/null 2>&1
git -C /repo worktree add -q --detach "$WT" HEAD || exit 2
python3 - "$WT/$FILE" "$OLD" "$NEW" <<'PY' || { git -C /repo worktree remove --force "$WT"; exit 2; }
import sys
p,old,new=sys.argv[1:4]
s=open(p).read()
if s.count(old)!=1:
    print("mutation site not unique/found:",s.count(old)); sys.exit(1)
open(p,'w').write(s.replace(old,new))
PY
for ID in "$@"; do
  out=$(/verif/tools/check_tree.sh "$WT" "$ID" --tier ${TIER:-quick} 2>&1); rc=$?
  echo "mutant=$NAME check=$ID rc=$rc $(echo "$out" | grep -c '^VIOLATION') violations; $(echo "$out" | grep -m1 'sig=' | cut -c1-160)"
  [ $rc -eq 2 ] && echo "$out" | tail -5
done
git -C /repo worktree remove --force "$WT"

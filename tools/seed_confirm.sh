#!/bin/bash
# tools/seed_confirm.sh <seed>: re-confirm a seeded change in its scratch worktree /tmp/seed/<seed>:
# (1) crate tests of the touched crates pass with the change, (2) the demonstration fails with the
# change and (3) passes without it. Then store it as /verif/seeded/<seed>/.
S=$1; WT=/tmp/seed/$S; OUT=/tmp/seed_out/$S
export RUSTUP_TOOLCHAIN=1.88.0 CARGO_NET_OFFLINE=true
cd "$WT" || exit 2
[ -f "$OUT/patch.diff" ] || { echo "no patch"; exit 2; }
crates=$(grep '^+++ b/crates/' "$OUT/patch.diff" | sed 's:^+++ b/crates/\([^/]*\)/.*:\1:' | sort -u)
cmd=$(grep -m1 -oE 'cargo (nextest run|test) [^`]*--test [A-Za-z0-9_]+[^`]*' "$OUT/demo.txt" | sed 's/`.*//; s/[[:space:]]*(.*$//; s/)[[:space:]]*$//')
[ -n "$cmd" ] || { echo "no demo command found in demo.txt"; exit 2; }
case "$cmd" in *--offline*) ;; *) cmd="$cmd --offline";; esac
demo_files=$(git status --porcelain | grep '^??' | awk '{print $2}' | grep -E '^crates/.*\.rs$')
if [ -z "$demo_files" ]; then
  dc=$(echo "$cmd" | grep -oE '\-p [a-z-]+' | head -1 | awk '{print $2}'); dn=$(echo "$cmd" | grep -oE '\-\-test [A-Za-z0-9_]+' | awk '{print $2}')
  mkdir -p "crates/$dc/tests"; cp "$OUT/demo.rs" "crates/$dc/tests/$dn.rs"; demo_files="crates/$dc/tests/$dn.rs"
fi
echo "seed=$S crates=[$crates] demo_cmd=[$cmd] demo_files=[$demo_files]"
git apply -R --check "$OUT/patch.diff" 2>/dev/null || { echo "patch not applied in worktree; applying"; git apply "$OUT/patch.diff" || exit 2; }
# (2) demo with the change: must fail
eval "$cmd" > "$OUT/confirm_demo_with.log" 2>&1; with_rc=$?
# (1) crate tests with the change (demo moved aside)
mkdir -p "$OUT/aside"; for f in $demo_files; do mv "$f" "$OUT/aside/$(echo $f | tr / _)"; done
suite_rc=0
for c in $crates; do
  feats=""; [ "$c" = ruma-common ] && feats="--all-features"
  cargo test -p $c $feats --offline > "$OUT/confirm_suite_$c.log" 2>&1 || suite_rc=1
done
for f in $demo_files; do mv "$OUT/aside/$(echo $f | tr / _)" "$f"; done
# (3) demo without the change: must pass
git apply -R "$OUT/patch.diff" || exit 2
eval "$cmd" > "$OUT/confirm_demo_without.log" 2>&1; without_rc=$?
git apply "$OUT/patch.diff"
echo "seed=$S demo_with_change_rc=$with_rc (want !=0) demo_without_rc=$without_rc (want 0) crate_suites_rc=$suite_rc (want 0; ruma-common ui trybuild test fails at baseline too)"
grep -hE "^test result|FAILED" "$OUT"/confirm_suite_*.log | sort | uniq -c | head

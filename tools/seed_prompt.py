#!/usr/bin/env python3
"""Print the prompt for an independent mutation-seeding sub-agent for property <ID> variant <tag>."""
import json, sys
pid, tag = sys.argv[1], sys.argv[2]
hint = sys.argv[3] if len(sys.argv) > 3 else ""
p = next(json.loads(l) for l in open('/verif/properties.jsonl') if json.loads(l)['id'] == pid)
wt = f"/tmp/seed/{pid}{tag}"
out = f"/tmp/seed_out/{pid}{tag}"
print(f"""You are given a scratch git worktree of the Rust repository ruma/ruma (Matrix protocol types, signatures, state resolution, push rules, HTML sanitizing...) at {wt}. The sandbox has no network; use `export RUSTUP_TOOLCHAIN=1.88.0` and `--offline` for every cargo command; work ONLY inside {wt} and {out} (do not read or write /verif or /repo, do not look for other people's test harnesses).

Here is a semantic property the library is supposed to satisfy:

TITLE: {p['title']}
STATEMENT: {p['statement']}
QUANTIFIED OVER: {p['quantifier']['text']}
CODE AREAS: {', '.join(p['anchors']['files'])}

Your task: produce ONE realistic change to the library source in {wt} (a plausible bug a maintainer could introduce in a refactoring or feature commit: an off-by-one, a wrong operator or connective, a dropped or reordered step, a wrong field/constant/version flag, a cache or shortcut that is wrong in a corner, two cooperating sites that each look fine alone) that BREAKS the property above, while
  (a) the whole workspace still compiles, and
  (b) the existing test suite still passes: `cd {wt} && cargo nextest run --workspace --no-fail-fast --offline` (or `cargo test --workspace --offline` if nextest is unavailable) must report no failing test that passed before your change — run the tests of the crate(s) you touch before AND after your change and compare, and
  (c) the breakage needs something specific to manifest — a particular room version / configuration, an unusual but valid input, a multi-step sequence of operations, a particular ordering, or a boundary value — rather than being exposed by ordinary use at once. {hint}
Do not change tests, do not add features/cfgs, do not touch Cargo.toml/Cargo.lock; keep the change small (a few lines, at most ~25) and in the library code of the CODE AREAS (or code they directly call).

Then write a demonstration: a small standalone test file (a Rust integration test you place under the touched crate's tests/ directory, or a `#[test]` you append in a NEW file) that FAILS with your change and PASSES without it (verify both: save `git diff -- crates > /tmp/seed_out/<id>/patch.diff`, un-apply it with `git apply -R`, run the demonstration, re-apply with `git apply`; NEVER use `git stash`, `git reset` or `git checkout` of other paths — the stash is shared with other worktrees of this repository). The demonstration is for illustration only and is not part of the change.

Deliver, in {out}/ (create it):
  - patch.diff : `git -C {wt} diff` of the library change ONLY (not the demonstration), applicable with `git apply` on a clean checkout of the same commit;
  - demo.rs (the demonstration test source) and demo.txt (where to place it, the exact command to run it, its output with and without the change);
  - meta.json : {{"property": "{pid}", "summary": "<one line: what the change does>", "needs": "<what specific input/config/sequence is needed for the breakage to manifest>", "files": [..], "tests_run": "<commands you ran and their pass/fail counts before and after>"}}.
Leave the worktree with the library change applied (demonstration file may stay). Your final message: the summary, what it needs to manifest, and the test results before/after.""")

#!/bin/bash
# tools/seed_store.sh <seed> <caught-by text> : store a confirmed seed under /verif/seeded/<seed>/ and drop its worktree
S=$1; CAUGHT=$2; OUT=/tmp/seed_out/$S; DST=/verif/seeded/$S
mkdir -p $DST
cp $OUT/patch.diff $OUT/demo.rs $OUT/demo.txt $DST/ 2>/dev/null
python3 - "$OUT/meta.json" "$DST/meta.json" "$CAUGHT" "$S" <<'PY'
import json,sys
src,dst,caught,s=sys.argv[1:5]
try: m=json.load(open(src))
except Exception as e: m={"property":s[:3],"summary":"(meta.json of the seeding agent unreadable: %s)"%e}
m["seed"]=s
m["confirmed_by_me"]="tools/seed_confirm.sh %s: demonstration fails with the change and passes without it; `cargo test -p <touched crates>` passes with the change (scratch worktree)"%s
m["checks_run"]=caught
json.dump(m,open(dst,'w'),indent=1,ensure_ascii=False)
PY
git -C /repo worktree remove --force /tmp/seed/$S 2>/dev/null; rm -rf /tmp/seed/$S /tmp/seed/$S.prompt.txt
echo stored $DST

#!/bin/bash
# Run the repository's pinned baseline suite (guard OFF) in the given tree (default /repo)
# and compare with /root/.vp/BASELINE.json stable_pass. Exit 0 iff every stable test passes.
TREE=${1:-/repo}
export RUSTUP_TOOLCHAIN=1.88.0 CARGO_NET_OFFLINE=true
cd "$TREE" || exit 2
unset RUSTFLAGS
rm -f target/nextest/pb/junit.xml
cargo nextest run --workspace --no-fail-fast --tool-config-file pb:/w/lib/nextest.toml --profile pb --test-threads 8 --offline > /tmp/baseline.$$.log 2>&1
rc=$?
J=target/nextest/pb/junit.xml
[ -f "$J" ] || { echo "no junit (rc=$rc)"; tail -30 /tmp/baseline.$$.log; exit 2; }
python3 - "$J" <<'PY'
import sys, json, xml.etree.ElementTree as ET
base=set(json.load(open('/root/.vp/BASELINE.json'))['stable_pass'])
t=ET.parse(sys.argv[1]).getroot()
passed=set()
failed=set()
for ts in t.iter('testsuite'):
    for tc in ts.iter('testcase'):
        name=ts.get('name')+'::'+tc.get('name')
        cn=tc.get('classname') or ts.get('name')
        names={name, cn+'::'+tc.get('name')}
        bad = any(c.tag in ('failure','error') for c in tc)
        for n in names:
            (failed if bad else passed).add(n)
missing=[b for b in base if b not in passed]
print(f"baseline stable={len(base)} passed_now={len(base)-len(missing)} missing_or_failed={len(missing)}")
for m in sorted(missing)[:40]: print("  NOT PASSING:", m)
sys.exit(1 if missing else 0)
PY
r=$?
rm -f /tmp/baseline.$$.log
exit $r

#!/bin/bash
# tools/check_tree.sh <tree> <ID> [--tier ..]  — run a check against another checkout of ruma
# (e.g. a scratch git worktree with a candidate mutation) without touching /repo.
# Uses cargo's `paths` override; build output in <tree>/.verif_target, evidence/replays in
# <tree>/.verif_out. Not a registered command: registered checks always build /repo itself.
set -u
TREE=$(realpath "$1"); ID=$2; shift 2
export RUSTUP_TOOLCHAIN=1.88.0 CARGO_NET_OFFLINE=true
unset RUSTFLAGS CARGO_BUILD_RUSTFLAGS CARGO_ENCODED_RUSTFLAGS
id=$(echo "$ID" | tr 'A-Z' 'a-z')
crate=$(grep -E "^\s+[C0-9|]*\b$ID\b[C0-9|]*\) crate=" /verif/check | sed 's/.*crate=\([a-z-]*\).*/\1/')
[ -n "$crate" ] || { echo "unknown $ID"; exit 2; }
P=$(ls -d "$TREE"/crates/*/ | sed 's:/$::' | awk '{printf "\"%s\",", $0}' | sed 's/,$//')
export CARGO_TARGET_DIR="$TREE/.verif_target" VERIF_OUT="$TREE/.verif_out"
mkdir -p "$VERIF_OUT"
( cd /verif/mc && cargo build --release --offline --config "paths=[$P]" -p "$crate" --bin "$id" ) > "$VERIF_OUT/build.log" 2>&1 \
  || { echo "MACHINERY-ERROR: build failed"; grep -E "^error" -A12 "$VERIF_OUT/build.log" | head -60; exit 2; }
exec "$CARGO_TARGET_DIR/release/$id" "$@"

#!/usr/bin/env python3
"""Regenerate the seeded-changes table of DESIGN.md (§7.4) from /verif/seeded/*/meta.json."""
import json, glob, os, re
rows=[]
for d in sorted(glob.glob('/verif/seeded/*/')):
    s=os.path.basename(d.rstrip('/'))
    try: m=json.load(open(d+'meta.json'))
    except Exception as e: continue
    summ=str(m.get('summary','')).replace('|','\\|').replace('\n',' ')
    res=str(m.get('checks_run','')).replace('|','\\|').replace('\n',' ')
    missed='MISSED' in res
    if len(summ)>230: summ=summ[:227]+'…'
    if len(res)>420: res=res[:417]+'…'
    rows.append((s,m.get('property',s[:3]),summ,res,missed))
n=len(rows); miss=sum(1 for r in rows if r[4])
out=[]
out.append(f"{n} seeded changes are stored under `/verif/seeded/<seed>/` (patch.diff, demo.rs, demo.txt, meta.json). "
           f"{n-miss} were reported by the quick tier of their property's check as first run; {miss} were missed at first, "
           f"each miss led to a stated strengthening of the check (never of the property), after which the seed is reported. "
           f"`tools/seed_replay.sh <seed> <ID>` re-applies a stored patch to a scratch worktree of HEAD and re-runs a check.\n")
out.append("| seed | change (author's summary) | checks (quick tier) |")
out.append("|---|---|---|")
for s,p,summ,res,missed in rows:
    out.append(f"| {s} | {summ} | {res} |")
text="\n".join(out)+"\n"
p='/verif/DESIGN.md'
d=open(p).read()
b='<!-- SEED-TABLE-BEGIN -->'; e='<!-- SEED-TABLE-END -->'
if b not in d:
    marker='---------------------------------------------------------------------------------------\n\n## Appendix A'
    d=d.replace(marker, "### 7.4 Seeded changes and which checks report them\n\n"+b+"\n"+e+"\n\n"+marker,1)
d=d[:d.index(b)+len(b)]+"\n"+text+d[d.index(e):]
open(p,'w').write(d)
print(n,"seeds,",miss,"missed at first")

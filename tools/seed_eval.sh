#!/bin/bash
# tools/seed_eval.sh <seed> <ID> [<ID>...] : run checks against the seed's worktree /tmp/seed/<seed> (library change applied)
S=$1; shift
for ID in "$@"; do
  out=$(/verif/tools/check_tree.sh /tmp/seed/$S "$ID" --tier ${TIER:-quick} 2>&1); rc=$?
  echo "seed=$S check=$ID rc=$rc viol=$(echo "$out" | grep -c '^VIOLATION') :: $(echo "$out" | grep -v '^KNOWN-FINDING' | grep -m1 'sig=' | cut -c1-220)"
  [ $rc -eq 2 ] && echo "$out" | tail -8
done

#!/usr/bin/env python3
"""Prompt for an independent mutation-seeding sub-agent that delivers THREE changes (A, B, C) for property <ID>,
wave tag <tag>. Usage: seed_prompt3.py ID tag [avoid-text]"""
import json, sys
pid, tag = sys.argv[1], sys.argv[2]
avoid = sys.argv[3] if len(sys.argv) > 3 else ""
p = next(json.loads(l) for l in open('/verif/properties.jsonl') if json.loads(l)['id'] == pid)
wt = f"/tmp/seed/{pid}{tag}"
out = f"/tmp/seed_out/{pid}{tag}"
print(f"""You are given a scratch git worktree of the Rust repository ruma/ruma (Matrix protocol types, signatures, state resolution, push rules, HTML sanitizing...) at {wt}. The sandbox has no network; use `export RUSTUP_TOOLCHAIN=1.88.0` and `--offline` for every cargo command; work ONLY inside {wt} and {out} (do not read or write /verif or /repo, do not look for other people's test harnesses).

Here is a semantic property the library is supposed to satisfy:

TITLE: {p['title']}
STATEMENT: {p['statement']}
QUANTIFIED OVER: {p['quantifier']['text']}
CODE AREAS: {', '.join(p['anchors']['files'])}

Your task: produce THREE independent, realistic changes (call them A, B and C) to the library source, each a plausible bug a maintainer could introduce in a refactoring or feature commit, each of which on its own BREAKS the property above. The three must differ in where they are and in what kind of slip they are; use three of these kinds: an off-by-one or boundary slip; a wrong operator or connective; a dropped, duplicated or reordered step; a wrong field / constant / version flag; a cache, shortcut or early return that is wrong in a corner; a mishandled absent / empty / default / duplicate value; two cooperating sites that each look fine alone. {avoid}
For EACH change separately (start each from the clean checkout: un-apply the previous one with `git apply -R` first):
  (a) the workspace still compiles, and
  (b) the existing test suite still passes: `cd {wt} && cargo nextest run --workspace --no-fail-fast --offline` must report no failing test that passed before the change (run it once on the clean checkout first to know the baseline; a trybuild test `ruma-common::it identifiers::id_macros::ui` fails in this sandbox regardless and does not count; exclude your own demonstration files from that run or move them aside), and
  (c) the breakage needs something specific to manifest — a particular room version / configuration, an unusual but valid input, a multi-step sequence, a particular ordering, a boundary value — rather than being exposed by ordinary use at once.
Do not change tests, do not add features/cfgs, do not touch Cargo.toml/Cargo.lock; keep each change small (a few lines, at most ~25) and in the library code of the CODE AREAS (or code they directly call).

For each change write a demonstration: a small standalone Rust integration test file placed under the touched crate's tests/ directory (a NEW file) that FAILS with the change and PASSES without it (verify both; NEVER use `git stash`, `git reset` or `git checkout` of paths — the repository is shared with other worktrees; un-apply with `git apply -R <patch>`).

Deliver, for X in A, B, C, a directory {out}/X/ containing:
  - patch.diff : `git -C {wt} diff -- crates` of library change X ONLY (not the demonstration, not the other changes), applicable with `git apply` on a clean checkout of the same commit;
  - demo.rs (the demonstration test source) and demo.txt (where to place it — e.g. crates/<crate>/tests/<name>.rs — and the exact command to run it in the form `cargo test -p <crate> [--features ...] --offline --test <name>`, and its output with and without the change);
  - meta.json : {{"property": "{pid}", "summary": "<one line: what the change does>", "needs": "<what specific input/config/sequence is needed for the breakage to manifest>", "files": [..], "tests_run": "<commands you ran and their pass/fail counts before and after>"}}.
At the end leave the worktree WITHOUT any library change applied (demonstration files may stay). If you cannot find three, deliver as many as you can. Your final message: for each change, the summary, what it needs to manifest, and the test results before/after.""")

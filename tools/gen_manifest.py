#!/usr/bin/env python3
"""Regenerate /verif/MANIFEST.json from the table below (keeps it valid at all times).

Properties without an entry in CHECKS are listed under not_applicable with the reason in NA."""
import json, subprocess, sys

PROPS = [json.loads(l) for l in open('/verif/properties.jsonl')]

# id -> dict(level, text, note, technique, design_ref, engine)
import glob, os
CHECKS = {}
for f in sorted(glob.glob('/verif/tools/checks.d/C*.json')):
    CHECKS[os.path.basename(f)[:-5]] = json.load(open(f))

NA = {}
DEFAULT_NA = "check not built yet (work in progress, see DESIGN.md)"


def main():
    hook_commits = []
    try:
        out = subprocess.run(["git", "-C", "/repo", "log", "--format=%h %s"], capture_output=True, text=True).stdout
        for line in out.splitlines():
            h, _, s = line.partition(' ')
            if s.startswith("verif-hook:"):
                hook_commits.append(h)
    except Exception:
        pass
    checks = []
    for p in PROPS:
        i = p["id"]
        if i not in CHECKS:
            continue
        c = CHECKS[i]
        checks.append({
            "property_id": i,
            "quick_cmd": f"./check {i} --tier quick",
            "thorough_cmd": f"./check {i} --tier thorough",
            "evidence_file": f"/verif/evidence/{i}.json",
            "replay_cmd_template": f"./check {i} --replay {{path}}",
            "engine": c["engine"],
            "level_claimed": {"category": c["level"], "text": c["text"], "design_ref": c["design_ref"]},
            "level_note": c["note"],
            "technique": c["technique"],
        })
    engines = {}
    for i, c in CHECKS.items():
        engines.setdefault(c["engine"], []).append(i)
    m = {
        "version": 1,
        "setup_cmd": "./setup.sh",
        "hooks": {
            "guard": "ruma_ruma_verif",
            "enable": "--cfg ruma_ruma_verif via /verif/mc/.cargo/config.toml [build] rustflags; harness crates depend on /repo/crates/* by path, so every check rebuilds /repo's working tree with the guard on",
            "baseline_off_cmd": "/verif/tools/baseline.sh /repo",
            "source_commits": hook_commits,
            "add_only": True,
        },
        "engines": [
            {"name": n, "path": f"/verif/mc/{n}", "serves_properties": sorted(ids),
             "kind_free_text": "Rust harness crate: bounded exhaustive explorers (product / sequence / deviation-bounded) driving the real ruma code, built on mc/engine"}
            for n, ids in sorted(engines.items())
        ],
        "checks": checks,
        "notes": "All checks: ./check <ID> --tier quick|thorough [--replay file]; exit 0 held, 1 violation, 2 machinery failure. "
                 "Known findings / fixed defects: /verif/known_findings.jsonl. See DESIGN.md.",
        "not_applicable": [
            {"property_id": p["id"], "reason": NA.get(p["id"], DEFAULT_NA)}
            for p in PROPS if p["id"] not in CHECKS
        ],
    }
    json.dump(m, open('/verif/MANIFEST.json', 'w'), indent=1)
    try:
        import jsonschema
        jsonschema.validate(m, json.load(open('/root/.vp/MANIFEST.schema.json')))
        print("MANIFEST.json valid;", len(checks), "checks,", len(m["not_applicable"]), "not_applicable")
    except ImportError:
        print("MANIFEST.json written (jsonschema not available)")


if __name__ == '__main__':
    main()

#!/bin/bash
# tools/seed_auto.sh <seed> <primary ID> [other IDs...] : evaluate, confirm and (if the primary check reports it) store a seed.
S=$1; shift; PRIMARY=$1
summary=""; caught=0
for ID in "$@"; do
  out=$(/verif/tools/check_tree.sh /tmp/seed/$S "$ID" --tier ${TIER:-quick} 2>&1); rc=$?
  nv=$(echo "$out" | grep -c '^VIOLATION'); first=$(echo "$out" | grep -v '^KNOWN-FINDING' | grep -m1 'sig=' | sed 's/^ *sig=\([^ ]*\).*/\1/' | cut -c1-150)
  summary="$summary$ID rc=$rc ($nv sigs${first:+, e.g. $first}); "
  [ "$ID" = "$PRIMARY" ] && [ $rc -eq 1 ] && caught=1
  [ $rc -eq 2 ] && echo "$out" | tail -5
done
conf=$(/verif/tools/seed_confirm.sh $S 2>&1 | grep "^seed=$S demo_with")
echo "== $S :: $summary"
echo "   $conf"
ok=$(echo "$conf" | grep -c "demo_without_rc=0")
bad=$(echo "$conf" | grep -c "demo_with_change_rc=0 ")
if [ $caught -eq 1 ] && [ $ok -eq 1 ] && [ $bad -eq 0 ]; then
  /verif/tools/seed_store.sh $S "quick: $summary" >/dev/null && echo "   stored"
else
  echo "   NOT stored (caught=$caught confirm_ok=$ok): handle manually"
fi

#!/bin/bash
# Build every harness binary offline from files on disk (hooks on), into /verif/target.
set -u
cd /verif || exit 2
export RUSTUP_TOOLCHAIN=1.88.0 CARGO_NET_OFFLINE=true
unset RUSTFLAGS CARGO_TARGET_DIR CARGO_BUILD_RUSTFLAGS CARGO_ENCODED_RUSTFLAGS
[ -f mc/Cargo.lock ] || cp /repo/Cargo.lock mc/Cargo.lock
mkdir -p /verif/target /verif/evidence /verif/replays
cd mc && cargo build --release --offline --workspace --bins 2>&1 | tail -5
exit ${PIPESTATUS[0]}

//! Reference models for C12 (push evaluation) and C13 (push ruleset edits), written from the
//! specification text transcribed in DESIGN.md Appendix A.6 / §3 C12 / §3 C13. Deliberately
//! naive (DP tables, linear scans, `Vec`s); nothing here is imported from ruma.

use std::collections::BTreeMap;

use serde_json::Value;

// ---------------------------------------------------------------------------------------
// three-valued answers

/// What the reference says about a boolean observation.
#[derive(Clone, Copy, Debug, PartialEq, Eq)]
pub enum Tri {
    Must(bool),
    /// the specification (and the property) is silent: executed, not compared
    Unspecified,
}

// ---------------------------------------------------------------------------------------
// glob / word matching

/// word character / underscore / two non-word ASCII / newline / multi-byte / both wildcards
pub const GLOB_ALPHABET: [&str; 9] = ["a", "B", "_", "-", " ", "\n", "é", "*", "?"];

/// Case folding of the reference: ASCII letters plus the one non-ASCII letter of the alphabet.
pub fn fold(s: &str) -> Vec<char> {
    s.chars()
        .map(|c| match c {
            'A'..='Z' => c.to_ascii_lowercase(),
            'É' => 'é',
            c => c,
        })
        .collect()
}

/// `*` = any run of characters (including none, including newline), `?` = exactly one character.
/// Classic O(n·m) table: `m[i][j]` = pattern[i..] matches text[j..].
pub fn glob(p: &[char], t: &[char]) -> bool {
    let (n, k) = (p.len(), t.len());
    let w = k + 1;
    // the table lives on the stack for the short strings of the enumeration
    let mut small = [false; 128];
    let mut big;
    let m: &mut [bool] = if (n + 1) * w <= small.len() {
        &mut small[..(n + 1) * w]
    } else {
        big = vec![false; (n + 1) * w];
        &mut big
    };
    let at = |i: usize, j: usize| i * w + j;
    m[at(n, k)] = true;
    for i in (0..n).rev() {
        for j in (0..=k).rev() {
            m[at(i, j)] = match p[i] {
                '*' => m[at(i + 1, j)] || (j < k && m[at(i, j + 1)]),
                '?' => j < k && m[at(i + 1, j + 1)],
                c => j < k && t[j] == c && m[at(i + 1, j + 1)],
            };
        }
    }
    m[0]
}

pub fn is_word_char(c: char) -> bool {
    c.is_ascii_alphanumeric() || c == '_'
}

/// A boundary is a string end or a position that is not between two `[A-Za-z0-9_]`.
pub fn boundary(t: &[char], i: usize) -> bool {
    i == 0 || i == t.len() || !(is_word_char(t[i - 1]) && is_word_char(t[i]))
}

/// ∃ i ≤ j: boundary(i) ∧ boundary(j) ∧ glob(pattern, text[i..j])
pub fn word_glob(p: &[char], t: &[char]) -> bool {
    for i in 0..=t.len() {
        if !boundary(t, i) {
            continue;
        }
        for j in i..=t.len() {
            if boundary(t, j) && glob(p, &t[i..j]) {
                return true;
            }
        }
    }
    false
}

/// whole-value, case-insensitive glob; empty pattern is outside the compared domain
pub fn ref_match_whole(pattern: &str, text: &str) -> Tri {
    if pattern.is_empty() {
        return Tri::Unspecified;
    }
    Tri::Must(glob(&fold(pattern), &fold(text)))
}

/// word-boundary, case-insensitive glob (content.body); empty pattern is outside the domain
pub fn ref_match_word(pattern: &str, text: &str) -> Tri {
    if pattern.is_empty() {
        return Tri::Unspecified;
    }
    Tri::Must(word_glob(&fold(pattern), &fold(text)))
}

pub fn has_wildcard(p: &str) -> bool {
    p.contains(['*', '?'])
}

/// class of a pattern for violation signatures
pub fn pattern_class(p: &str) -> &'static str {
    let c: Vec<char> = p.chars().collect();
    if !has_wildcard(p) {
        "literal"
    } else if c.windows(2).any(|w| matches!(w[0], '*' | '?') && matches!(w[1], '*' | '?')) {
        "adjacent-wildcards"
    } else {
        "wildcard"
    }
}

/// class of a text for violation signatures
pub fn text_class(t: &str) -> &'static str {
    if t.contains('\n') {
        "newline"
    } else if !t.is_ascii() {
        "multibyte"
    } else {
        "ascii"
    }
}

// ---------------------------------------------------------------------------------------
// flattening

/// `\` → `\\`, `.` → `\.`, character by character.
pub fn ref_escape_key(key: &str) -> String {
    let mut out = String::new();
    for c in key.chars() {
        match c {
            '\\' => out.push_str("\\\\"),
            '.' => out.push_str("\\."),
            c => out.push(c),
        }
    }
    out
}

/// Is every backslash of `path` part of `\\` or `\.`? Other escape sequences are outside the
/// compared domain.
pub fn path_is_canonical(path: &str) -> bool {
    let c: Vec<char> = path.chars().collect();
    let mut i = 0;
    while i < c.len() {
        if c[i] == '\\' {
            if i + 1 < c.len() && (c[i + 1] == '\\' || c[i + 1] == '.') {
                i += 2;
                continue;
            }
            return false;
        }
        i += 1;
    }
    true
}

#[derive(Clone, Debug, PartialEq)]
pub enum RefScalar {
    Null,
    Bool(bool),
    Int(i64),
    Str(String),
}

#[derive(Clone, Debug, PartialEq)]
pub enum RefLeaf {
    Scalar(RefScalar),
    /// the scalar members, in order (non-scalar members cannot equal a scalar and are left out)
    Array(Vec<RefScalar>),
    /// `{}`: never equal to anything a condition can ask for
    EmptyObject,
    /// a number that is not an integer Matrix allows (float, beyond ±2^53): not compared
    OutOfDomain,
}

pub const MAX_SAFE_INT: i64 = 9_007_199_254_740_991;

pub fn ref_scalar(v: &Value) -> Option<Result<RefScalar, ()>> {
    Some(match v {
        Value::Null => Ok(RefScalar::Null),
        Value::Bool(b) => Ok(RefScalar::Bool(*b)),
        Value::String(s) => Ok(RefScalar::Str(s.clone())),
        Value::Number(n) => match n.as_i64() {
            Some(i) if (-MAX_SAFE_INT..=MAX_SAFE_INT).contains(&i) => Ok(RefScalar::Int(i)),
            _ => Err(()),
        },
        _ => return None,
    })
}

/// path (escaped keys joined by `.`) → leaf
pub fn ref_flatten(v: &Value) -> BTreeMap<String, RefLeaf> {
    fn rec(v: &Value, path: &str, out: &mut BTreeMap<String, RefLeaf>) {
        match v {
            Value::Object(m) if m.is_empty() => {
                out.insert(path.to_owned(), RefLeaf::EmptyObject);
            }
            Value::Object(m) => {
                for (k, child) in m {
                    let k = ref_escape_key(k);
                    let p = if path.is_empty() { k } else { format!("{path}.{k}") };
                    rec(child, &p, out);
                }
            }
            Value::Array(a) => {
                let mut members = vec![];
                let mut out_of_domain = false;
                for m in a {
                    match ref_scalar(m) {
                        Some(Ok(s)) => members.push(s),
                        Some(Err(())) => out_of_domain = true,
                        None => {}
                    }
                }
                out.insert(
                    path.to_owned(),
                    if out_of_domain { RefLeaf::OutOfDomain } else { RefLeaf::Array(members) },
                );
            }
            scalar => {
                let leaf = match ref_scalar(scalar) {
                    Some(Ok(s)) => RefLeaf::Scalar(s),
                    _ => RefLeaf::OutOfDomain,
                };
                out.insert(path.to_owned(), leaf);
            }
        }
    }
    let mut out = BTreeMap::new();
    rec(v, "", &mut out);
    out
}

// ---------------------------------------------------------------------------------------
// conditions and rule selection

#[derive(Clone, Copy, Debug, PartialEq, Eq)]
pub enum CmpOp {
    Eq,
    Lt,
    Gt,
    Ge,
    Le,
}

pub const CMP_OPS: [CmpOp; 5] = [CmpOp::Eq, CmpOp::Lt, CmpOp::Gt, CmpOp::Ge, CmpOp::Le];

impl CmpOp {
    pub fn prefix(self) -> &'static str {
        match self {
            CmpOp::Eq => "==",
            CmpOp::Lt => "<",
            CmpOp::Gt => ">",
            CmpOp::Ge => ">=",
            CmpOp::Le => "<=",
        }
    }
    pub fn holds(self, count: u64, threshold: u64) -> bool {
        match self {
            CmpOp::Eq => count == threshold,
            CmpOp::Lt => count < threshold,
            CmpOp::Gt => count > threshold,
            CmpOp::Ge => count >= threshold,
            CmpOp::Le => count <= threshold,
        }
    }
}

#[derive(Clone, Debug)]
pub struct RefPower {
    pub users: BTreeMap<String, i64>,
    pub users_default: i64,
    /// `notifications.room`
    pub room: i64,
}

#[derive(Clone, Debug)]
pub struct RefCtx {
    pub room_id: String,
    pub member_count: u64,
    pub user_id: String,
    pub display_name: String,
    pub power: Option<RefPower>,
}

#[derive(Clone, Debug)]
pub enum RefCond {
    EventMatch { key: String, pattern: String },
    ContainsDisplayName,
    MemberCount { op: CmpOp, n: u64 },
    SenderNotificationPermission { key: String },
    PropertyIs { key: String, value: RefScalar },
    PropertyContains { key: String, value: RefScalar },
}

pub fn and(a: Tri, b: Tri) -> Tri {
    match (a, b) {
        (Tri::Must(false), _) | (_, Tri::Must(false)) => Tri::Must(false),
        (Tri::Must(true), Tri::Must(true)) => Tri::Must(true),
        _ => Tri::Unspecified,
    }
}

pub fn ref_cond(c: &RefCond, flat: &BTreeMap<String, RefLeaf>, ctx: &RefCtx) -> Tri {
    let get_str = |k: &str| match flat.get(k) {
        Some(RefLeaf::Scalar(RefScalar::Str(s))) => Some(s.as_str()),
        _ => None,
    };
    match c {
        RefCond::EventMatch { key, pattern } => {
            if !path_is_canonical(key) {
                return Tri::Unspecified;
            }
            // room_id: the room the event is in (the menu keeps event.room_id == ctx.room_id)
            let value = if key == "room_id" { Some(ctx.room_id.as_str()) } else { get_str(key) };
            match value {
                None => Tri::Must(false),
                Some(v) if key == "content.body" => ref_match_word(pattern, v),
                Some(v) => ref_match_whole(pattern, v),
            }
        }
        RefCond::ContainsDisplayName => match get_str("content.body") {
            None => Tri::Must(false),
            // the display name is a plain string; whether `*`/`?` in it act as wildcards is
            // not specified
            Some(_) if has_wildcard(&ctx.display_name) => Tri::Unspecified,
            Some(v) => ref_match_word(&ctx.display_name, v),
        },
        RefCond::MemberCount { op, n } => Tri::Must(op.holds(ctx.member_count, *n)),
        RefCond::SenderNotificationPermission { key } => {
            let Some(power) = &ctx.power else { return Tri::Unspecified };
            if key != "room" {
                return Tri::Unspecified;
            }
            let Some(sender) = get_str("sender") else { return Tri::Unspecified };
            let level = power.users.get(sender).copied().unwrap_or(power.users_default);
            Tri::Must(level >= power.room)
        }
        RefCond::PropertyIs { key, value } => match flat.get(key.as_str()) {
            _ if !path_is_canonical(key) => Tri::Unspecified,
            Some(RefLeaf::OutOfDomain) => Tri::Unspecified,
            Some(RefLeaf::Scalar(s)) => Tri::Must(s == value),
            _ => Tri::Must(false),
        },
        RefCond::PropertyContains { key, value } => match flat.get(key.as_str()) {
            _ if !path_is_canonical(key) => Tri::Unspecified,
            Some(RefLeaf::OutOfDomain) => Tri::Unspecified,
            Some(RefLeaf::Array(a)) => Tri::Must(a.contains(value)),
            _ => Tri::Must(false),
        },
    }
}

pub const KINDS: [&str; 5] = ["override", "content", "room", "sender", "underride"];

#[derive(Clone, Debug)]
pub struct RefRule {
    pub kind: usize, // index into KINDS
    pub id: String,
    pub enabled: bool,
    pub conds: Vec<RefCond>,
}

/// first enabled rule, kinds in the order override, content, room, sender, underride, list
/// order within a kind, all of whose conditions hold; own events match nothing.
/// `rules` must already be in (kind, list) order. Returns the index of the rule.
pub fn ref_select(
    rules: &[RefRule],
    event: &Value,
    flat: &BTreeMap<String, RefLeaf>,
    ctx: &RefCtx,
) -> Result<Option<usize>, ()> {
    if event.get("sender").and_then(Value::as_str) == Some(ctx.user_id.as_str()) {
        return Ok(None);
    }
    for kind in 0..KINDS.len() {
        for (i, r) in rules.iter().enumerate() {
            if r.kind != kind || !r.enabled {
                continue;
            }
            let mut all = Tri::Must(true);
            for c in &r.conds {
                all = and(all, ref_cond(c, flat, ctx));
            }
            match all {
                Tri::Must(true) => return Ok(Some(i)),
                Tri::Must(false) => {}
                Tri::Unspecified => return Err(()),
            }
        }
    }
    Ok(None)
}

// ---------------------------------------------------------------------------------------
// C13: list model of a ruleset with the documented placement semantics

pub const MASTER: &str = ".m.rule.master";

#[derive(Clone, Debug, PartialEq, Eq, Hash)]
pub struct RuleM {
    pub id: String,
    pub enabled: bool,
    pub default: bool,
    /// the JSON text of `actions`
    pub actions: String,
    /// the JSON text of `conditions` (override/underride), `pattern` (content), `""` (room/sender)
    pub body: String,
}

/// five lists in the order of `KINDS`
#[derive(Clone, Debug, PartialEq, Eq, Hash, Default)]
pub struct RulesetM {
    pub kinds: [Vec<RuleM>; 5],
}

#[derive(Clone, Debug, PartialEq, Eq)]
pub enum OpM {
    Insert { kind: usize, id: String, actions: String, body: String, after: Option<String>, before: Option<String> },
    Remove { kind: usize, id: String },
    SetEnabled { kind: usize, id: String, enabled: bool },
    SetActions { kind: usize, id: String, actions: String },
}

#[derive(Clone, Debug, PartialEq, Eq)]
pub enum RefEdit {
    /// the operation succeeds and the ruleset becomes this
    Ok(RulesetM),
    /// the operation fails; the ruleset stays as it was
    Err(&'static str),
    /// a rule positioned relative to itself: must not panic, ids stay unique, `Err` leaves the
    /// ruleset unchanged, `Ok` contains the rule once and keeps every other rule's relative
    /// order; the place itself is not specified
    SelfAnchored,
}

pub fn ref_edit(pre: &RulesetM, op: &OpM) -> RefEdit {
    let mut post = pre.clone();
    match op {
        OpM::Insert { kind, id, actions, body, after, before } => {
            // validate first, against the pre-state
            if id.starts_with('.') {
                return RefEdit::Err("server-default-rule-id");
            }
            if id.contains('/') || id.contains('\\') {
                return RefEdit::Err("invalid-rule-id");
            }
            for anchor in [after, before].into_iter().flatten() {
                if anchor.starts_with('.') {
                    return RefEdit::Err("relative-to-server-default");
                }
            }
            if after.as_deref() == Some(id.as_str()) || before.as_deref() == Some(id.as_str()) {
                return RefEdit::SelfAnchored;
            }
            let list = &pre.kinds[*kind];
            let pos = |x: &str| list.iter().position(|r| r.id == x);
            let after_idx = match after {
                Some(a) => match pos(a) {
                    Some(i) => Some(i),
                    None => return RefEdit::Err("unknown-rule-id"),
                },
                None => None,
            };
            let before_idx = match before {
                Some(b) => match pos(b) {
                    Some(i) => Some(i),
                    None => return RefEdit::Err("unknown-rule-id"),
                },
                None => None,
            };
            if let (Some(a), Some(b)) = (after_idx, before_idx) {
                // `after` must be strictly more important than `before`
                if !(a < b) {
                    return RefEdit::Err("before-higher-than-after");
                }
            }
            let existing = pos(id);
            let rule = RuleM {
                id: id.clone(),
                // an existing rule keeps its enabled flag; a new rule is enabled
                enabled: existing.map(|i| list[i].enabled).unwrap_or(true),
                default: false,
                actions: actions.clone(),
                body: body.clone(),
            };
            let list = &mut post.kinds[*kind];
            match (existing, after, before) {
                // unpositioned existing rule: replaced in place
                (Some(i), None, None) => list[i] = rule,
                _ => {
                    // positions are computed after taking the moved rule out
                    if let Some(i) = existing {
                        list.remove(i);
                    }
                    let pos = |x: &str| list.iter().position(|r| r.id == x).expect("validated");
                    let at = if let Some(b) = before {
                        // immediately in front of `before` (alone or together with `after`)
                        pos(b)
                    } else if let Some(a) = after {
                        // immediately behind `after`
                        pos(a) + 1
                    } else if *kind == 0 && list.first().is_some_and(|r| r.id == MASTER) {
                        // overrides go directly behind the master rule when it heads the list
                        1
                    } else {
                        0
                    };
                    list.insert(at, rule);
                }
            }
            RefEdit::Ok(post)
        }
        OpM::Remove { kind, id } => {
            let list = &mut post.kinds[*kind];
            match list.iter().position(|r| r.id == *id) {
                None => RefEdit::Err("not-found"),
                Some(i) if list[i].default => RefEdit::Err("server-default"),
                Some(i) => {
                    list.remove(i);
                    RefEdit::Ok(post)
                }
            }
        }
        OpM::SetEnabled { kind, id, enabled } => {
            match post.kinds[*kind].iter_mut().find(|r| r.id == *id) {
                None => RefEdit::Err("not-found"),
                Some(r) => {
                    r.enabled = *enabled;
                    RefEdit::Ok(post)
                }
            }
        }
        OpM::SetActions { kind, id, actions } => {
            match post.kinds[*kind].iter_mut().find(|r| r.id == *id) {
                None => RefEdit::Err("not-found"),
                Some(r) => {
                    r.actions = actions.clone();
                    RefEdit::Ok(post)
                }
            }
        }
    }
}

/// invariants that hold in every state of the model: ids unique per kind
pub fn ids_unique(m: &RulesetM) -> bool {
    m.kinds.iter().all(|l| {
        let mut ids: Vec<&str> = l.iter().map(|r| r.id.as_str()).collect();
        ids.sort();
        ids.windows(2).all(|w| w[0] != w[1])
    })
}

#[cfg(test)]
mod tests {
    use super::*;

    fn g(p: &str, t: &str) -> bool {
        glob(&fold(p), &fold(t))
    }
    fn w(p: &str, t: &str) -> bool {
        word_glob(&fold(p), &fold(t))
    }

    #[test]
    fn glob_examples_from_the_spec() {
        assert!(g("lunc?*", "Lunch plans"));
        assert!(g("lunc?*", "LUNCH"));
        assert!(!g("lunc?*", " lunch"));
        assert!(!g("lunc?*", "lunc"));
        assert!(g("a**", "ab"));
        assert!(g("a*b", "a\nb"));
        assert!(g("?", "é"));
        assert!(!g("??", "é"));
    }

    #[test]
    fn word_examples_from_the_spec() {
        assert!(w("ex*ple", "An example event."));
        assert!(w("ex*ple", "exple"));
        assert!(w("ex*ple", "An exciting triple-whammy"));
        assert!(w("foo", "foo bar"));
        assert!(!w("foo", "foobar"));
        assert!(w("foo", "foobar foo"));
        assert!(w("bar", "foo baré"));
    }

    #[test]
    fn escape() {
        assert_eq!(ref_escape_key("a.b"), "a\\.b");
        assert_eq!(ref_escape_key("a\\.b"), "a\\\\\\.b");
        assert!(path_is_canonical("a\\.b.c\\\\"));
        assert!(!path_is_canonical("a\\b"));
        assert!(!path_is_canonical("\\"));
    }
}

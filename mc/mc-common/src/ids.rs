//! Shared pieces of the identifier checks (C10, C11): the three-valued reference recognizer
//! written from the Matrix spec appendices ("Identifier grammar", "Server name"), and the
//! string families (alphabet, grammar products, mutants) both checks draw from.
//!
//! Nothing here calls ruma: the recognizer must stay independent of the code under test.

/// Three-valued reference answer.
#[derive(Clone, Copy, Debug, PartialEq, Eq)]
pub enum Ref {
    /// the property demands acceptance (spec's recommended grammar)
    Accept,
    /// the property demands rejection; the reason names the broken requirement
    Reject(&'static str),
    /// the property is silent: executed, not compared
    Unspec(&'static str),
}

/// The identifier types that have a reference.
#[derive(Clone, Copy, Debug, PartialEq, Eq)]
pub enum Kind {
    User,
    Room,
    Alias,
    RoomOrAlias,
    Event,
    Server,
    /// key id whose key name is unconstrained (device id, one-time key name, any)
    KeyAny,
    /// key id whose key name is a server signing key version `[A-Za-z0-9_]+`
    KeyVersion,
    /// key id whose key name is an unpadded/padded base64 public key
    KeyBase64,
    /// mxc:// URI, answer is about `MxcUri::validate()`
    Mxc,
    RoomVersion,
    /// `[0-9a-zA-Z.=_-]{1,255}` (client secret, session id)
    Secret,
    Base64Key,
    KeyVersionName,
}

// ---------------------------------------------------------------------------------------
// server name = hostname [ ":" port ]; port = 1*5DIGIT;
// hostname = IPv4address / "[" IPv6address "]" / dns-name; dns-name = 1*255(ALPHA / DIGIT / "-" / ".")

fn is_dns_byte(b: u8) -> bool {
    b.is_ascii_alphanumeric() || b == b'-' || b == b'.'
}

fn hex_group(g: &str) -> bool {
    (1..=4).contains(&g.len()) && g.bytes().all(|b| b.is_ascii_hexdigit())
}

/// dotted quad, decimal octets 0..=255 without leading zeros
pub fn strict_ipv4(s: &str) -> bool {
    let parts: Vec<&str> = s.split('.').collect();
    parts.len() == 4
        && parts.iter().all(|p| {
            !p.is_empty()
                && p.len() <= 3
                && p.bytes().all(|b| b.is_ascii_digit())
                && (p.len() == 1 || !p.starts_with('0'))
                && p.parse::<u32>().map(|n| n <= 255).unwrap_or(false)
        })
}

/// RFC 4291 §2.2 text form: 8 groups of 1-4 hex digits, one optional `::`, optional trailing
/// dotted quad standing for two groups.
pub fn strict_ipv6(s: &str) -> bool {
    fn count(part: &str, last_may_be_v4: bool) -> Option<usize> {
        if part.is_empty() {
            return Some(0);
        }
        let gs: Vec<&str> = part.split(':').collect();
        let mut n = 0;
        for (i, g) in gs.iter().enumerate() {
            if hex_group(g) {
                n += 1;
            } else if last_may_be_v4 && i + 1 == gs.len() && strict_ipv4(g) {
                n += 2;
            } else {
                return None;
            }
        }
        Some(n)
    }
    match s.find("::") {
        Some(i) => {
            let (head, tail) = (&s[..i], &s[i + 2..]);
            if tail.contains("::") {
                return false;
            }
            match (count(head, false), count(tail, true)) {
                (Some(a), Some(b)) => a + b <= 7,
                _ => false,
            }
        }
        None => count(s, true) == Some(8),
    }
}

/// the spec's loose production: IPv6address = 2*45IPv6char
fn loose_ipv6(s: &str) -> bool {
    (2..=45).contains(&s.len()) && s.bytes().all(|b| b.is_ascii_hexdigit() || b == b':' || b == b'.')
}

/// Split a server name the way the grammar does: (host, rest-after-host).
fn split_host(s: &str) -> Option<(&str, &str)> {
    if s.starts_with('[') {
        let i = s.find(']')?;
        Some((&s[..=i], &s[i + 1..]))
    } else {
        let e = s.find(':').unwrap_or(s.len());
        Some((&s[..e], &s[e..]))
    }
}

pub fn ref_server_name(s: &str) -> Ref {
    if s.is_empty() {
        return Ref::Reject("server-empty");
    }
    let Some((host, rest)) = split_host(s) else { return Ref::Reject("ipv6-unterminated") };
    let host_ref = if host.starts_with('[') {
        let inner = &host[1..host.len() - 1];
        if strict_ipv6(inner) {
            Ref::Accept
        } else if loose_ipv6(inner) {
            Ref::Unspec("ipv6-loose-grammar")
        } else {
            return Ref::Reject("ipv6-invalid");
        }
    } else if host.is_empty() {
        return Ref::Reject("host-empty");
    } else if !host.bytes().all(is_dns_byte) {
        return Ref::Reject("host-char");
    } else if host.len() > 255 {
        Ref::Unspec("dns-name-over-255")
    } else {
        Ref::Accept
    };
    if rest.is_empty() {
        return host_ref;
    }
    let Some(digits) = rest.strip_prefix(':') else { return Ref::Reject("after-host") };
    if digits.is_empty() {
        return Ref::Reject("port-empty");
    }
    if !digits.bytes().all(|b| b.is_ascii_digit()) {
        return Ref::Reject(if digits.starts_with('+') || digits.starts_with('-') {
            "port-sign"
        } else {
            "port-nondigit"
        });
    }
    if digits.len() > 5 {
        return Ref::Reject("port-too-long");
    }
    host_ref
}

/// For a grammar-valid server name: the port digits as a number.
pub fn ref_port(s: &str) -> Option<u32> {
    let (_, rest) = split_host(s)?;
    rest.strip_prefix(':')?.parse().ok()
}

pub fn ref_host(s: &str) -> Option<&str> {
    split_host(s).map(|(h, _)| h)
}

/// Some(answer) where the reference defines `is_ip_literal`.
pub fn ref_is_ip_literal(s: &str) -> Option<bool> {
    let host = ref_host(s)?;
    if host.starts_with('[') || strict_ipv4(host) {
        Some(true)
    } else if host.bytes().any(|b| b.is_ascii_alphabetic() || b == b'-') {
        Some(false)
    } else {
        None
    }
}

// ---------------------------------------------------------------------------------------
// sigil identifiers

pub const ID_MAX: usize = 255;

fn strict_user_localpart(l: &str) -> bool {
    !l.is_empty()
        && l.bytes().all(|b| matches!(b, b'a'..=b'z' | b'0'..=b'9' | b'.' | b'_' | b'=' | b'-' | b'/' | b'+'))
}

#[derive(Clone, Copy, PartialEq, Eq)]
enum Local {
    /// strict lower-case user grammar demanded for "must accept"
    UserStrict,
    /// any non-empty string without `:` / NUL
    NonEmpty,
}

fn ref_delimited(s: &str, sigil: char, local: Local) -> Ref {
    if !s.starts_with(sigil) {
        return Ref::Reject("sigil");
    }
    if s.len() > ID_MAX {
        return Ref::Reject("over-255");
    }
    let Some(colon) = s.find(':') else { return Ref::Reject("no-colon") };
    let lp = &s[1..colon];
    if lp.contains('\0') {
        return Ref::Reject("localpart-nul");
    }
    match ref_server_name(&s[colon + 1..]) {
        Ref::Reject(r) => Ref::Reject(r),
        Ref::Unspec(r) => Ref::Unspec(r),
        Ref::Accept => {
            let ok = match local {
                Local::UserStrict => strict_user_localpart(lp),
                Local::NonEmpty => !lp.is_empty(),
            };
            if ok {
                Ref::Accept
            } else if lp.is_empty() {
                Ref::Unspec("localpart-empty")
            } else {
                Ref::Unspec("localpart-historical")
            }
        }
    }
}

fn ref_room_id(s: &str) -> Ref {
    if !s.starts_with('!') {
        return Ref::Reject("sigil");
    }
    if s.len() > ID_MAX {
        return Ref::Reject("over-255");
    }
    if s.contains('\0') {
        return Ref::Reject("nul");
    }
    // `!opaque:domain` is the grammar every room version before 12 generates
    if let Some(colon) = s.find(':') {
        if colon > 1 && ref_server_name(&s[colon + 1..]) == Ref::Accept {
            return Ref::Accept;
        }
    }
    Ref::Unspec("roomid-beyond-sigil-length-nul")
}

fn ref_event_id(s: &str) -> Ref {
    if !s.starts_with('$') {
        return Ref::Reject("sigil");
    }
    if s.len() > ID_MAX {
        return Ref::Reject("over-255");
    }
    if s.contains(':') {
        return ref_delimited(s, '$', Local::NonEmpty);
    }
    let lp = &s[1..];
    if lp.contains('\0') {
        return Ref::Reject("localpart-nul");
    }
    if !lp.is_empty() && lp.bytes().all(|b| b.is_ascii_alphanumeric() || matches!(b, b'+' | b'/' | b'-' | b'_')) {
        Ref::Accept
    } else {
        Ref::Unspec("eventid-opaque")
    }
}

fn ref_key_id(s: &str, kind: Kind) -> Ref {
    let Some(colon) = s.find(':') else { return Ref::Reject("no-colon") };
    let (alg, name) = (&s[..colon], &s[colon + 1..]);
    let name_ref = match kind {
        Kind::KeyVersion => ref_charset(name, |b| b.is_ascii_alphanumeric() || b == b'_', usize::MAX),
        Kind::KeyBase64 => ref_charset(name, |b| b.is_ascii_alphanumeric() || matches!(b, b'+' | b'/' | b'='), usize::MAX),
        _ => Ref::Accept,
    };
    match name_ref {
        Ref::Reject("empty") => return Ref::Reject("keyname-empty"),
        Ref::Reject(_) => return Ref::Reject("keyname-char"),
        Ref::Unspec(r) => return Ref::Unspec(r),
        Ref::Accept => {}
    }
    if alg.is_empty() {
        return Ref::Unspec("algorithm-empty");
    }
    if alg.bytes().all(|b| b.is_ascii_alphanumeric() || b == b'_') {
        Ref::Accept
    } else {
        Ref::Unspec("algorithm-charset")
    }
}

/// non-empty, at most `max` bytes, ASCII bytes all in `ok`; non-ASCII is Unspecified (ruma uses
/// Unicode `is_alphanumeric` in several of these, the property does not speak about it)
fn ref_charset(s: &str, ok: impl Fn(u8) -> bool, max: usize) -> Ref {
    if s.is_empty() {
        return Ref::Reject("empty");
    }
    if s.len() > max {
        return Ref::Reject("over-255");
    }
    if s.bytes().any(|b| b.is_ascii() && !ok(b)) {
        return Ref::Reject("char");
    }
    if !s.is_ascii() {
        return Ref::Unspec("non-ascii");
    }
    Ref::Accept
}

fn ref_mxc(s: &str) -> Ref {
    let Some(rest) = s.strip_prefix("mxc://") else { return Ref::Reject("scheme") };
    let Some(slash) = rest.find('/') else { return Ref::Reject("no-slash") };
    let (server, media) = (&rest[..slash], &rest[slash + 1..]);
    if !media.bytes().all(|b| b.is_ascii_alphanumeric() || b == b'-' || b == b'_') {
        return Ref::Reject("media-char");
    }
    match ref_server_name(server) {
        Ref::Accept if media.is_empty() => Ref::Unspec("media-empty"),
        r => r,
    }
}

fn ref_room_version(s: &str) -> Ref {
    if s.is_empty() {
        return Ref::Reject("empty");
    }
    if s.chars().count() > 32 {
        return Ref::Reject("over-32-codepoints");
    }
    if s.bytes().all(|b| b.is_ascii_lowercase() || b.is_ascii_digit() || b == b'.' || b == b'-') {
        Ref::Accept
    } else {
        Ref::Unspec("version-charset")
    }
}

pub fn reference(kind: Kind, s: &str) -> Ref {
    match kind {
        Kind::User => ref_delimited(s, '@', Local::UserStrict),
        Kind::Alias => ref_delimited(s, '#', Local::NonEmpty),
        Kind::Room => ref_room_id(s),
        Kind::RoomOrAlias => match s.as_bytes().first() {
            Some(b'#') => ref_delimited(s, '#', Local::NonEmpty),
            Some(b'!') => ref_room_id(s),
            _ => Ref::Reject("sigil"),
        },
        Kind::Event => ref_event_id(s),
        Kind::Server => ref_server_name(s),
        Kind::KeyAny | Kind::KeyVersion | Kind::KeyBase64 => ref_key_id(s, kind),
        Kind::Mxc => ref_mxc(s),
        Kind::RoomVersion => ref_room_version(s),
        Kind::Secret => {
            ref_charset(s, |b| b.is_ascii_alphanumeric() || matches!(b, b'.' | b'=' | b'_' | b'-'), 255)
        }
        Kind::Base64Key => {
            ref_charset(s, |b| b.is_ascii_alphanumeric() || matches!(b, b'+' | b'/' | b'='), usize::MAX)
        }
        Kind::KeyVersionName => ref_charset(s, |b| b.is_ascii_alphanumeric() || b == b'_', usize::MAX),
    }
}

/// Class of a grammar-valid string, used in the signature when the parser rejects it.
pub fn valid_class(kind: Kind, s: &str) -> &'static str {
    let server = match kind {
        Kind::Server => Some(s),
        Kind::User | Kind::Alias | Kind::Room | Kind::RoomOrAlias | Kind::Event => {
            s.find(':').map(|i| &s[i + 1..])
        }
        Kind::Mxc => s.strip_prefix("mxc://").and_then(|r| r.find('/').map(|i| &r[..i])),
        _ => None,
    };
    if let Some(p) = server.and_then(ref_port) {
        if p > 65535 {
            return "port-above-u16";
        }
    }
    if matches!(kind, Kind::KeyAny | Kind::KeyVersion | Kind::KeyBase64) {
        if s.find(':').is_some_and(|i| i >= 256) {
            return "colon-index-ge-256";
        }
    }
    if s.len() > 255 {
        return "len-over-255";
    }
    "short"
}

// ---------------------------------------------------------------------------------------
// string families

/// DESIGN §3 C10 (i): 16 symbols
pub const ALPHABET: [&str; 16] =
    ["a", "1", ":", ".", "@", "!", "#", "$", "[", "]", "-", "+", "/", "\0", "é", " "];

/// 40 valid identifiers, the seeds of the single-edit mutants (DESIGN §3 C10 (iii))
pub const VALID_IDS: [&str; 40] = [
    "@carl:example.com",
    "@a:x",
    "@a.b_c=d-e/f+g:example.com:8448",
    "@carl:127.0.0.1",
    "@carl:[::1]",
    "@carl:[1234:5678::abcd]:5678",
    "@0:a-b.c:0",
    "#ruma:example.com",
    "#a:x",
    "#é b:example.com:443",
    "#ruma:[::1]:80",
    "!n8f893n9:example.com",
    "!a:x",
    "!room:1.2.3.4:65535",
    "!opaque:[2001:db8::1]",
    "$h29iv0s8:example.com",
    "$a:x:1",
    "$acR1l0raoZnm60CBwAVgqbZqoO/mYU81xysh1u7XcJk",
    "$Rqnc-F-dvnEYJTyHq_iKxU2bZ1CI92-kuZq3a5lr5Zg",
    "$e:[::ffff:1.2.3.4]:8448",
    "example.com",
    "x",
    "example.com:8448",
    "a-b.c.:0",
    "127.0.0.1",
    "1.1.1.1:12000",
    "[::1]",
    "[1234:5678::abcd]:5678",
    "[::ffff:1.2.3.4]",
    "ed25519:1",
    "ed25519:MYDEVICE",
    "curve25519:AAAAHg",
    "signed_curve25519:AAAAHQ",
    "ed25519:base64+master+public/key=",
    "ed25519:a_1",
    "mxc://example.com/asd32asdfasdsd",
    "mxc://127.0.0.1:80/a-b_C",
    "mxc://[::1]:8448/1234id",
    "10",
    "org.example.v-1",
];

/// all single-edit mutants of `s` over `alphabet`: delete, duplicate, substitute, insert
pub fn single_edit_mutants(s: &str, alphabet: &[&str], out: &mut dyn FnMut(String)) {
    let chars: Vec<char> = s.chars().collect();
    let build = |f: &dyn Fn(usize, &mut String, char)| -> Vec<String> {
        (0..chars.len())
            .map(|i| {
                let mut o = String::with_capacity(s.len() + 4);
                for (j, c) in chars.iter().enumerate() {
                    if i == j {
                        f(i, &mut o, *c);
                    } else {
                        o.push(*c);
                    }
                }
                o
            })
            .collect()
    };
    for m in build(&|_, _, _| {}) {
        out(m); // delete
    }
    for m in build(&|_, o, c| {
        o.push(c);
        o.push(c);
    }) {
        out(m); // duplicate
    }
    for sym in alphabet {
        for m in build(&|_, o, _| o.push_str(sym)) {
            out(m); // substitute
        }
        for m in build(&|_, o, c| {
            o.push_str(sym);
            o.push(c);
        }) {
            out(m); // insert before
        }
        out(format!("{s}{sym}")); // append
    }
}

pub const BOUNDARY_LENGTHS: [usize; 12] = [0, 1, 2, 253, 254, 255, 256, 257, 258, 511, 512, 513];

pub const LOCALPARTS: [&str; 10] =
    ["", "a", "a/+=_.-1", "Abc", "é", "a\0b", "a:b", " a", "\u{ff18}", "a%2F"];
pub const HOSTS: [&str; 12] = [
    "x", "a-b.c", "", "1.2.3.4", "[::1]", "[::1", "[x]", "x.", "[1:2:3:4:5:6:7:8]", "é.x", "a b", "[::ffff:1.2.3.4]",
];
pub const PORTS: [&str; 14] = [
    "", ":", ":0", ":8448", ":65535", ":65536", ":99999", ":000080", ":+80", ":-1", ":\u{ff18}", ":123456", ":80:80", ":8a",
];

/// Grammar products (DESIGN §3 C10 (ii)): prefix × localpart × host × port, then padded to every
/// boundary length once through the localpart and once through the host.
pub fn grammar_products(out: &mut dyn FnMut(String)) {
    let prefixes = ["@", "#", "!", "$", "", "mxc://", "ed25519:"];
    for pre in prefixes {
        for lp in LOCALPARTS {
            // server names / mxc have no localpart
            if (pre.is_empty() || pre == "mxc://") && !lp.is_empty() {
                continue;
            }
            // sigil + localpart only (no colon at all), padded to the boundary lengths
            if matches!(pre, "@" | "#" | "!" | "$") {
                out(format!("{pre}{lp}"));
                for target in BOUNDARY_LENGTHS {
                    if target > pre.len() + lp.len() {
                        out(format!("{pre}{lp}{}", "a".repeat(target - pre.len() - lp.len())));
                    }
                }
            }
            for host in HOSTS {
                for port in PORTS {
                    let compose = |lp_pad: usize, host_pad: usize| -> String {
                        let mut s = String::new();
                        s.push_str(pre);
                        if pre == "ed25519:" {
                            // key id: the "host" part is the key name
                            s.push_str(lp);
                            s.extend(std::iter::repeat('a').take(lp_pad));
                            s.extend(std::iter::repeat('b').take(host_pad));
                            s.push_str(host);
                            s.push_str(port);
                            return s;
                        }
                        if !(pre.is_empty() || pre == "mxc://") {
                            s.push_str(lp);
                            s.extend(std::iter::repeat('a').take(lp_pad));
                            s.push(':');
                        }
                        s.extend(std::iter::repeat('b').take(host_pad));
                        s.push_str(host);
                        s.push_str(port);
                        if pre == "mxc://" {
                            s.push_str("/m");
                        }
                        s
                    };
                    let base = compose(0, 0);
                    let base_len = base.len();
                    out(base);
                    for target in BOUNDARY_LENGTHS {
                        if target > base_len {
                            let pad = target - base_len;
                            if !(pre.is_empty() || pre == "mxc://") {
                                out(compose(pad, 0));
                            }
                            out(compose(0, pad));
                        }
                    }
                }
            }
        }
    }
}

/// Index-wrap ladders (DESIGN §3 C10 (ii), second half): mxc server lengths making `index + 6`
/// hit 254..258 / 510..514, key ids with the colon at 0, 1, 254..258, 512 and multi-byte
/// characters around offset 2.
pub fn wrap_ladders(out: &mut dyn FnMut(String)) {
    for n in [1usize, 2, 247, 248, 249, 250, 251, 252, 253, 254, 255, 256, 503, 504, 505, 506, 507, 508, 509] {
        for media in ["m", "", "bad!", "é"] {
            for port in ["", ":80"] {
                if n > port.len() {
                    out(format!("mxc://{}{}/{}", "s".repeat(n - port.len()), port, media));
                }
            }
            out(format!("mxc://{}/{}", "é".repeat(n / 2), media));
        }
    }
    for colon in [0usize, 1, 2, 3, 254, 255, 256, 257, 258, 259, 260, 511, 512, 513] {
        for name in ["", "a", "é", "bad!", "a:b", "éé:é"] {
            out(format!("{}:{}", "a".repeat(colon), name));
            // multi-byte characters at byte offsets 0..4 of the algorithm
            for off in 0..4usize {
                if colon >= off + 2 {
                    out(format!("{}é{}:{}", "a".repeat(off), "a".repeat(colon - off - 2), name));
                }
            }
            if colon >= 2 {
                out(format!("{}:{}", "é".repeat(colon / 2), name));
            }
        }
    }
}

#[cfg(test)]
mod tests {
    use super::*;

    #[test]
    fn reference_smoke() {
        assert_eq!(ref_server_name("example.com:8448"), Ref::Accept);
        assert_eq!(ref_server_name("x:99999"), Ref::Accept);
        assert_eq!(ref_server_name("x:+80"), Ref::Reject("port-sign"));
        assert_eq!(ref_server_name("x:000080"), Ref::Reject("port-too-long"));
        assert_eq!(ref_server_name("[::1]:80"), Ref::Accept);
        assert_eq!(ref_server_name("[x]"), Ref::Reject("ipv6-invalid"));
        assert!(strict_ipv6("1:2:3:4:5:6:7:8") && strict_ipv6("::") && strict_ipv6("::ffff:1.2.3.4"));
        assert!(!strict_ipv6("1:2:3:4:5:6:7") && !strict_ipv6("1::2::3") && !strict_ipv6(":::"));
        assert_eq!(reference(Kind::User, "@a:x"), Ref::Accept);
        assert_eq!(reference(Kind::User, "@A:x"), Ref::Unspec("localpart-historical"));
        assert_eq!(reference(Kind::Event, &format!("${}", "a".repeat(300))), Ref::Reject("over-255"));
    }
}


pub mod push_model;
pub mod ids;


pub mod push_model;

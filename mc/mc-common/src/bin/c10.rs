//! C10 — identifier parsing is total, lossless and accepts only the spec's grammar.
//!
//! P-explorer (DESIGN §3 C10): (i) every string of length <= N over a 16-symbol alphabet,
//! (ii) grammar products padded to the boundary lengths through localpart and host plus the
//! index-wrap ladders, (iii) single-edit mutants of 40 valid identifiers, (iv) constructors.
//! Every string goes through every identifier type and every form (borrowed, owned, Box, Rc,
//! Arc, FromStr, TryFrom<String>, serde), is compared with the three-valued reference of
//! `mc_common::ids`, and every accessor of an accepted identifier is called and recomposed.

use std::{collections::BTreeSet, rc::Rc, sync::Arc};

use engine::{catch, par_shards, parse_args, replay_and_exit, Panicked, Report, Tally};
use mc_common::ids::{self, Kind, Ref};
use ruma_common::{
    AnyKeyName, Base64PublicKey, Base64PublicKeyOrDeviceId, ClientSecret, CrossSigningKeyId,
    CrossSigningOrDeviceSigningKeyId, DeviceId, DeviceKeyAlgorithm, DeviceKeyId, DeviceSigningKeyId,
    EventId, KeyId, KeyName, MxcUri, OneTimeKeyAlgorithm, OneTimeKeyId, OneTimeKeyName,
    OwnedBase64PublicKey, OwnedBase64PublicKeyOrDeviceId, OwnedClientSecret, OwnedCrossSigningKeyId,
    OwnedCrossSigningOrDeviceSigningKeyId, OwnedDeviceId, OwnedDeviceKeyId, OwnedDeviceSigningKeyId,
    OwnedEventId, OwnedMxcUri, OwnedOneTimeKeyId, OwnedOneTimeKeyName, OwnedRoomAliasId, OwnedRoomId,
    OwnedRoomOrAliasId, OwnedServerName, OwnedServerSigningKeyId, OwnedServerSigningKeyVersion,
    OwnedSessionId, OwnedSigningKeyId, OwnedTransactionId, OwnedUserId, OwnedVoipId, RoomAliasId, RoomId,
    RoomOrAliasId, RoomVersionId, ServerName, ServerSigningKeyId, ServerSigningKeyVersion, SessionId,
    SigningKeyAlgorithm, SigningKeyId, TransactionId, UserId, VoipId, VoipVersionId,
};
use serde_json::{json, Value};

type Viol = Vec<(String, String)>;

/// observation of one form: rejected / accepted with the input bytes / accepted with other bytes
#[derive(Clone, Copy, Debug, PartialEq, Eq)]
enum F {
    Rej,
    Same,
    Diff,
}

fn show(s: &str) -> String {
    engine::truncate(&format!("{s:?}"), 120)
}

macro_rules! form {
    ($t:expr, $s:expr, $e:expr) => {{
        $t.transitions += 1;
        catch(|| match $e {
            Ok(x) => {
                if AsRef::<str>::as_ref(&*x) == $s {
                    F::Same
                } else {
                    F::Diff
                }
            }
            Err(_) => F::Rej,
        })
    }};
}

/// Compare the forms with each other and the borrowed form with the reference.
fn judge(
    ty: &'static str,
    family: &'static str,
    kind: Option<Kind>,
    s: &str,
    forms: &[(&'static str, Result<F, Panicked>)],
    t: &mut Tally,
    out: &mut Viol,
) -> Option<Ref> {
    let mut first: Option<F> = None;
    for (name, r) in forms {
        match r {
            Err(p) => out.push((format!("panic/{}/{ty}.{name}", p.file()), format!("{ty} {name} {}: {}", show(s), p.text))),
            Ok(f) => {
                if *f == F::Diff {
                    out.push((format!("stored-differs/{ty}/{name}"), format!("{ty} {name} {}", show(s))));
                }
                match first {
                    None => first = Some(*f),
                    Some(f0) => {
                        if (f0 == F::Rej) != (*f == F::Rej) {
                            out.push((
                                format!("forms-disagree/{ty}/{name}"),
                                format!("{ty} {}: {} says {:?}, {name} says {:?}", show(s), forms[0].0, f0, f),
                            ));
                        }
                    }
                }
            }
        }
    }
    let accepted = first? != F::Rej;
    t.outcome(family, if accepted { "accept" } else { "reject" });
    let r = ids::reference(kind?, s);
    match r {
        Ref::Unspec(_) => t.unspecified += 1,
        Ref::Accept => {
            t.nontrivial += 1;
            if !accepted {
                let k = kind.unwrap();
                out.push((
                    format!("rejected-valid/{ty}/{}", ids::valid_class(k, s)),
                    format!("{ty} rejects the grammar-valid {} (len {})", show(s), s.len()),
                ));
            }
        }
        Ref::Reject(why) => {
            t.nontrivial += 1;
            if accepted {
                out.push((
                    format!("accepted-invalid/{ty}/{why}"),
                    format!("{ty} accepts {} (len {}): {why}", show(s), s.len()),
                ));
            }
        }
    }
    Some(r)
}

fn guard(ty: &'static str, s: &str, out: &mut Viol, f: impl FnOnce(&mut Viol)) {
    let mut local = vec![];
    match catch(|| f(&mut local)) {
        Ok(()) => out.extend(local),
        Err(p) => out.push((
            format!("panic/{}/{ty}.accessors", p.file()),
            format!("{ty} accessors on {} (len {}): {}", show(s), s.len(), p.text),
        )),
    }
}

fn need(out: &mut Viol, ok: bool, sig: &str, detail: impl FnOnce() -> String) {
    if !ok {
        out.push((sig.to_owned(), detail()));
    }
}

// ---------------------------------------------------------------------------------------
// accessors

/// host / port / is_ip_literal of a server name obtained from `owner`
fn acc_server(owner: &'static str, sn: &ServerName, semantic: bool, t: &mut Tally, out: &mut Viol) {
    t.transitions += 3;
    let s = sn.as_str();
    let (host, port, lit) = (sn.host(), sn.port(), sn.is_ip_literal());
    if !semantic {
        return;
    }
    let rest = s.strip_prefix(host);
    let ok = match (rest, port) {
        (Some(""), None) => true,
        (Some(rest), Some(p)) => rest
            .strip_prefix(':')
            .is_some_and(|d| !d.is_empty() && d.bytes().all(|b| b.is_ascii_digit()) && d.parse::<u32>() == Ok(p.into())),
        _ => false,
    };
    need(out, ok, &format!("recompose/{owner}/host-port"), || {
        format!("{} host={host:?} port={port:?}", show(s))
    });
    need(out, ids::ref_host(s) == Some(host), &format!("accessor/{owner}/host"), || {
        format!("{} host()={host:?} expected {:?}", show(s), ids::ref_host(s))
    });
    if let Some(b) = ids::ref_is_ip_literal(s) {
        need(out, b == lit, &format!("accessor/{owner}/is_ip_literal"), || format!("{} -> {lit}", show(s)));
    }
}

fn acc_user(id: &UserId, s: &str, sem: bool, t: &mut Tally, out: &mut Viol) {
    t.transitions += 5;
    let (lp, sn) = (id.localpart(), id.server_name());
    let _ = (id.validate_strict(), id.validate_historical(), id.is_historical());
    need(out, format!("@{lp}:{sn}") == s, "recompose/UserId/localpart-server", || {
        format!("{} localpart={lp:?} server={:?}", show(s), sn.as_str())
    });
    acc_server("UserId.server_name", sn, sem, t, out);
}

fn acc_alias(id: &RoomAliasId, s: &str, sem: bool, t: &mut Tally, out: &mut Viol) {
    t.transitions += 2;
    let (lp, sn) = (id.alias(), id.server_name());
    need(out, format!("#{lp}:{sn}") == s, "recompose/RoomAliasId/alias-server", || {
        format!("{} alias={lp:?} server={:?}", show(s), sn.as_str())
    });
    acc_server("RoomAliasId.server_name", sn, sem, t, out);
}

fn room_server(owner: &'static str, got: Option<&ServerName>, s: &str, r: Ref, t: &mut Tally, out: &mut Viol) {
    match got {
        Some(sn) => {
            let tail = s.find(':').map(|i| &s[i + 1..]);
            need(out, tail == Some(sn.as_str()), &format!("recompose/{owner}/server_name"), || {
                format!("{} server_name()={:?}", show(s), sn.as_str())
            });
            acc_server(owner, sn, !matches!(r, Ref::Reject(_)), t, out);
        }
        None => need(out, r != Ref::Accept, &format!("accessor/{owner}/server_name-none/{}", ids::valid_class(Kind::Room, s)), || {
            format!("{} has a grammar-valid server part but server_name() is None", show(s))
        }),
    }
}

fn acc_room(id: &RoomId, s: &str, r: Ref, t: &mut Tally, out: &mut Viol) {
    t.transitions += 1;
    room_server("RoomId", id.server_name(), s, r, t, out);
}

fn acc_room_or_alias(id: &RoomOrAliasId, s: &str, r: Ref, t: &mut Tally, out: &mut Viol) {
    t.transitions += 7;
    let (is_room, is_alias) = (id.is_room_id(), id.is_room_alias_id());
    need(out, is_room == s.starts_with('!') && is_alias == s.starts_with('#'), "accessor/RoomOrAliasId/variant", || {
        format!("{} is_room_id={is_room} is_room_alias_id={is_alias}", show(s))
    });
    room_server("RoomOrAliasId", id.server_name(), s, r, t, out);
    let as_room = <&RoomId>::try_from(id);
    let as_alias = <&RoomAliasId>::try_from(id);
    let owned: OwnedRoomOrAliasId = id.to_owned();
    let o_room = OwnedRoomId::try_from(owned.clone());
    let o_alias = OwnedRoomAliasId::try_from(owned);
    let same = match (&as_room, &as_alias, &o_room, &o_alias) {
        (Ok(a), Err(b), Ok(c), Err(d)) => is_room && a.as_str() == s && b.as_str() == s && c.as_str() == s && d.as_str() == s,
        (Err(a), Ok(b), Err(c), Ok(d)) => is_alias && a.as_str() == s && b.as_str() == s && c.as_str() == s && d.as_str() == s,
        _ => false,
    };
    need(out, same, "convert/RoomOrAliasId/split", || format!("{} conversions disagree", show(s)));
    // the specific parser agrees with the union parser
    let specific = if is_room { <&RoomId>::try_from(s).is_ok() } else { <&RoomAliasId>::try_from(s).is_ok() };
    need(out, specific, "agree/RoomOrAliasId/specific-parser", || {
        format!("{} accepted as RoomOrAliasId, rejected by the specific type", show(s))
    });
}

fn acc_event(id: &EventId, s: &str, sem: bool, t: &mut Tally, out: &mut Viol) {
    t.transitions += 2;
    let (lp, sn) = (id.localpart(), id.server_name());
    let re = match sn {
        Some(sn) => format!("${lp}:{sn}"),
        None => format!("${lp}"),
    };
    need(out, re == s, "recompose/EventId/localpart-server", || {
        format!("{} localpart={lp:?} server={:?}", show(s), sn.map(|x| x.as_str()))
    });
    if let Some(sn) = sn {
        acc_server("EventId.server_name", sn, sem, t, out);
    }
}

fn acc_key<A, K>(ty: &'static str, id: &KeyId<A, K>, s: &str, t: &mut Tally, out: &mut Viol)
where
    A: ruma_common::KeyAlgorithm,
    K: KeyName + ?Sized,
    for<'a> &'a K: TryFrom<&'a str>,
{
    t.transitions += 2;
    let alg = id.algorithm();
    let name = id.key_name();
    let re = format!("{}:{}", alg.as_ref(), name.as_ref());
    need(out, re == s, &format!("recompose/{ty}/algorithm-key_name"), || {
        format!("{} algorithm={:?} key_name={:?}", show(s), alg.as_ref(), name.as_ref())
    });
}

fn acc_mxc(m: &MxcUri, s: &str, t: &mut Tally, out: &mut Viol) {
    t.transitions += 5;
    let v = m.validate();
    let valid = m.is_valid();
    let parts = m.parts();
    let media = m.media_id();
    let server = m.server_name();
    t.outcome("MxcUri.validate", if v.is_ok() { "ok" } else { "err" });
    need(
        out,
        v.is_ok() == valid && v.is_ok() == parts.is_ok() && v.is_ok() == media.is_ok() && v.is_ok() == server.is_ok(),
        "accessor/MxcUri/validate-parts-agree",
        || format!("{} validate={v:?} is_valid={valid} parts={parts:?}", show(s)),
    );
    let r = ids::reference(Kind::Mxc, s);
    match r {
        Ref::Unspec(_) => t.unspecified += 1,
        Ref::Accept => {
            t.nontrivial += 1;
            need(out, v.is_ok(), &format!("rejected-valid/MxcUri.validate/{}", ids::valid_class(Kind::Mxc, s)), || {
                format!("{} (len {}) -> {v:?}", show(s), s.len())
            });
        }
        Ref::Reject(why) => {
            t.nontrivial += 1;
            need(out, v.is_err(), &format!("accepted-invalid/MxcUri.validate/{why}"), || {
                format!("{} (len {}) validates: {why}", show(s), s.len())
            });
        }
    }
    if let (Ok((sn, med)), Ok(m2), Ok(s2)) = (parts, media, server) {
        need(out, format!("mxc://{sn}/{med}") == s && m2 == med && s2 == sn, "recompose/MxcUri/parts", || {
            format!("{} parts=({:?},{med:?})", show(s), sn.as_str())
        });
        acc_server("MxcUri.server_name", sn, !matches!(r, Ref::Reject(_)), t, out);
    }
}

// ---------------------------------------------------------------------------------------
// per-type drivers

macro_rules! checked {
    ($name:literal, $T:ty, $Owned:ty, $kind:expr, $s:ident, $json:ident, $t:ident, $out:ident, |$id:ident, $r:ident| $acc:expr) => {{
        let forms = [
            ("borrowed", form!($t, $s, <&$T>::try_from($s))),
            ("parse", form!($t, $s, <$T>::parse($s))),
            ("parse_box", form!($t, $s, <$T>::parse_box($s))),
            ("parse_rc", form!($t, $s, <$T>::parse_rc($s))),
            ("parse_arc", form!($t, $s, <$T>::parse_arc($s))),
            ("from_str", form!($t, $s, $s.parse::<$Owned>())),
            ("from_str_box", form!($t, $s, $s.parse::<Box<$T>>())),
            ("try_from_string", form!($t, $s, <$Owned>::try_from($s.to_owned()))),
            ("serde", form!($t, $s, serde_json::from_str::<$Owned>($json))),
            ("serde_box", form!($t, $s, serde_json::from_str::<Box<$T>>($json))),
        ];
        let r = judge($name, concat!("parse/", $name), Some($kind), $s, &forms, $t, $out);
        // (a panic of the parser was already reported through the forms above)
        if let (Some($r), Some($id)) = (r, catch(|| <&$T>::try_from($s).ok()).ok().flatten()) {
            guard($name, $s, $out, |$out| {
                same_value!($name, $T, $Owned, $id, $s, $json, $t, $out);
                $acc
            });
        }
    }};
}

/// owned / Box / Rc / Arc copies compare equal to the borrowed form, Display and Serialize give
/// the input back
macro_rules! same_value {
    ($name:literal, $T:ty, $Owned:ty, $id:ident, $s:ident, $json:ident, $t:ident, $out:ident) => {{
        $t.transitions += 6;
        let owned: $Owned = $id.to_owned();
        let boxed: Box<$T> = $id.into();
        let rc: Rc<$T> = $id.into();
        let arc: Arc<$T> = $id.into();
        let eq = owned == $id
            && boxed == $id
            && *rc == *$id
            && *arc == *$id
            && owned == boxed
            && owned.as_str() == $s
            && boxed.as_str() == $s
            && rc.as_str() == $s
            && arc.as_str() == $s
            && owned.clone() == owned
            && String::from(owned) == $s;
        need($out, eq, concat!("forms-compare/", $name), || format!("{} forms do not compare equal", show($s)));
        let ser = serde_json::to_string($id).ok();
        need($out, ser.as_deref() == Some($json) && $id.to_string() == $s, concat!("serialize/", $name), || {
            format!("{} serializes to {ser:?}, displays as {:?}", show($s), $id.to_string())
        });
    }};
}

macro_rules! unchecked {
    ($name:literal, $T:ty, $Owned:ty, $s:ident, $json:ident, $t:ident, $out:ident) => {{
        let forms = [
            ("borrowed", form!($t, $s, Ok::<_, ()>(<&$T>::from($s)))),
            ("owned", form!($t, $s, Ok::<_, ()>(<$Owned>::from($s)))),
            ("owned_string", form!($t, $s, Ok::<_, ()>(<$Owned>::from($s.to_owned())))),
            ("boxed", form!($t, $s, Ok::<_, ()>(Box::<$T>::from($s)))),
            ("serde", form!($t, $s, serde_json::from_str::<$Owned>($json))),
            ("serde_box", form!($t, $s, serde_json::from_str::<Box<$T>>($json))),
        ];
        judge($name, concat!("parse/", $name), None, $s, &forms, $t, $out);
        let id = <&$T>::from($s);
        guard($name, $s, $out, |$out| {
            same_value!($name, $T, $Owned, id, $s, $json, $t, $out);
        });
    }};
}

fn sem(r: Ref) -> bool {
    !matches!(r, Ref::Reject(_))
}

fn eval_enums(s: &str, json: &str, t: &mut Tally, out: &mut Viol) {
    // RoomVersionId
    let forms: Vec<(&'static str, Result<Option<RoomVersionId>, Panicked>)> = vec![
        ("try_from_str", catch(|| RoomVersionId::try_from(s).ok())),
        ("try_from_string", catch(|| RoomVersionId::try_from(s.to_owned()).ok())),
        ("from_str", catch(|| s.parse::<RoomVersionId>().ok())),
        ("serde", catch(|| serde_json::from_str::<RoomVersionId>(json).ok())),
    ];
    t.transitions += 4;
    let fs: Vec<(&'static str, Result<F, Panicked>)> = forms
        .iter()
        .map(|(n, r)| {
            (*n, r.clone().map(|o| match o {
                None => F::Rej,
                Some(v) if v.as_str() == s => F::Same,
                Some(_) => F::Diff,
            }))
        })
        .collect();
    judge("RoomVersionId", "parse/RoomVersionId", Some(Kind::RoomVersion), s, &fs, t, out);
    if let Ok(Some(v)) = &forms[0].1 {
        guard("RoomVersionId", s, out, |out| {
            t.transitions += 4;
            let known = matches!(s, "1" | "2" | "3" | "4" | "5" | "6" | "7" | "8" | "9" | "10" | "11");
            let ok = v.to_string() == s
                && String::from(v.clone()) == s
                && serde_json::to_string(v).ok().as_deref() == Some(json)
                && v.rules().is_some() == known
                && forms.iter().all(|(_, f)| matches!(f, Ok(Some(w)) if w == v));
            need(out, ok, "forms-compare/RoomVersionId", || format!("{} -> {v:?}", show(s)));
        });
    }
    // VoipVersionId: infallible from strings
    t.transitions += 3;
    guard("VoipVersionId", s, out, |out| {
        let a = VoipVersionId::from(s);
        let b = VoipVersionId::from(s.to_owned());
        let c = serde_json::from_str::<VoipVersionId>(json).ok();
        let ok = a.as_str() == s && a == b && c.as_ref() == Some(&a) && String::from(a.clone()) == s && a.to_string() == s;
        need(out, ok, "forms-compare/VoipVersionId", || format!("{} -> {a:?} {b:?} {c:?}", show(s)));
    });
}

/// Run one string through every identifier type.
fn eval_string(s: &str, t: &mut Tally) -> Viol {
    let mut out_v: Viol = vec![];
    let out = &mut out_v;
    let json_owned = serde_json::to_string(s).expect("json string");
    let json = json_owned.as_str();

    checked!("UserId", UserId, OwnedUserId, Kind::User, s, json, t, out, |id, r| acc_user(id, s, sem(r), t, out));
    checked!("RoomAliasId", RoomAliasId, OwnedRoomAliasId, Kind::Alias, s, json, t, out, |id, r| {
        acc_alias(id, s, sem(r), t, out);
        let u: &RoomOrAliasId = id.into();
        need(out, u.as_str() == s && RoomOrAliasId::parse(s).is_ok(), "constructor/RoomOrAliasId::from(&RoomAliasId)", || {
            format!("{} converts to a RoomOrAliasId its parser rejects", show(s))
        });
    });
    checked!("RoomId", RoomId, OwnedRoomId, Kind::Room, s, json, t, out, |id, r| {
        acc_room(id, s, r, t, out);
        let u: &RoomOrAliasId = id.into();
        need(out, u.as_str() == s && RoomOrAliasId::parse(s).is_ok(), "constructor/RoomOrAliasId::from(&RoomId)", || {
            format!("{} converts to a RoomOrAliasId its parser rejects", show(s))
        });
    });
    checked!("RoomOrAliasId", RoomOrAliasId, OwnedRoomOrAliasId, Kind::RoomOrAlias, s, json, t, out, |id, r| {
        acc_room_or_alias(id, s, r, t, out)
    });
    checked!("EventId", EventId, OwnedEventId, Kind::Event, s, json, t, out, |id, r| acc_event(id, s, sem(r), t, out));
    checked!("ServerName", ServerName, OwnedServerName, Kind::Server, s, json, t, out, |id, r| {
        acc_server("ServerName", id, sem(r), t, out)
    });
    checked!("DeviceKeyId", DeviceKeyId, OwnedDeviceKeyId, Kind::KeyAny, s, json, t, out, |id, _r| {
        acc_key("DeviceKeyId", id, s, t, out)
    });
    checked!("ServerSigningKeyId", ServerSigningKeyId, OwnedServerSigningKeyId, Kind::KeyVersion, s, json, t, out, |id, _r| {
        acc_key("ServerSigningKeyId", id, s, t, out)
    });
    checked!("CrossSigningKeyId", CrossSigningKeyId, OwnedCrossSigningKeyId, Kind::KeyBase64, s, json, t, out, |id, _r| {
        acc_key("CrossSigningKeyId", id, s, t, out)
    });
    checked!("SigningKeyId<AnyKeyName>", SigningKeyId<AnyKeyName>, OwnedSigningKeyId<AnyKeyName>, Kind::KeyAny, s, json, t, out, |id, _r| {
        acc_key("SigningKeyId<AnyKeyName>", id, s, t, out)
    });
    checked!("OneTimeKeyId", OneTimeKeyId, OwnedOneTimeKeyId, Kind::KeyAny, s, json, t, out, |id, _r| {
        acc_key("OneTimeKeyId", id, s, t, out)
    });
    checked!("DeviceSigningKeyId", DeviceSigningKeyId, OwnedDeviceSigningKeyId, Kind::KeyAny, s, json, t, out, |id, _r| {
        acc_key("DeviceSigningKeyId", id, s, t, out)
    });
    checked!(
        "CrossSigningOrDeviceSigningKeyId",
        CrossSigningOrDeviceSigningKeyId,
        OwnedCrossSigningOrDeviceSigningKeyId,
        Kind::KeyAny,
        s,
        json,
        t,
        out,
        |id, _r| acc_key("CrossSigningOrDeviceSigningKeyId", id, s, t, out)
    );
    checked!("ClientSecret", ClientSecret, OwnedClientSecret, Kind::Secret, s, json, t, out, |_id, _r| ());
    checked!("SessionId", SessionId, OwnedSessionId, Kind::Secret, s, json, t, out, |_id, _r| ());
    checked!("Base64PublicKey", Base64PublicKey, OwnedBase64PublicKey, Kind::Base64Key, s, json, t, out, |id, _r| {
        let u: &Base64PublicKeyOrDeviceId = id.into();
        need(out, u.as_str() == s, "convert/Base64PublicKeyOrDeviceId", || show(s));
    });
    checked!(
        "ServerSigningKeyVersion",
        ServerSigningKeyVersion,
        OwnedServerSigningKeyVersion,
        Kind::KeyVersionName,
        s,
        json,
        t,
        out,
        |_id, _r| ()
    );

    unchecked!("DeviceId", DeviceId, OwnedDeviceId, s, json, t, out);
    unchecked!("TransactionId", TransactionId, OwnedTransactionId, s, json, t, out);
    unchecked!("VoipId", VoipId, OwnedVoipId, s, json, t, out);
    unchecked!("OneTimeKeyName", OneTimeKeyName, OwnedOneTimeKeyName, s, json, t, out);
    unchecked!("Base64PublicKeyOrDeviceId", Base64PublicKeyOrDeviceId, OwnedBase64PublicKeyOrDeviceId, s, json, t, out);
    unchecked!("MxcUri", MxcUri, OwnedMxcUri, s, json, t, out);
    guard("MxcUri", s, out, |out| acc_mxc(<&MxcUri>::from(s), s, t, out));
    eval_enums(s, json, t, out);
    out_v
}

fn eval_mxc_only(s: &str, t: &mut Tally) -> Viol {
    let mut out_v: Viol = vec![];
    let out = &mut out_v;
    let json_owned = serde_json::to_string(s).expect("json string");
    let json = json_owned.as_str();
    unchecked!("MxcUri", MxcUri, OwnedMxcUri, s, json, t, out);
    guard("MxcUri", s, out, |out| acc_mxc(<&MxcUri>::from(s), s, t, out));
    out_v
}

// ---------------------------------------------------------------------------------------
// constructors (DESIGN §3 C10 (iv))

/// constructor output must be accepted by the parser of its own type
fn accepted_by_parser(ctor: &str, kind: Kind, produced: &str, parser_ok: bool, out: &mut Viol) {
    if !parser_ok {
        let why = match ids::reference(kind, produced) {
            Ref::Reject(w) => w,
            _ => "rejected-by-parser",
        };
        out.push((
            format!("constructor/{ctor}/{why}"),
            format!("{ctor} built {} (len {}) which its parser rejects", show(produced), produced.len()),
        ));
    }
}

fn ctor_parse_with_server_name(id: &str, server: &str, t: &mut Tally) -> Viol {
    let mut out = vec![];
    let Ok(sn) = <&ServerName>::try_from(server) else { return out };
    t.transitions += 3;
    let a = catch(|| UserId::parse_with_server_name(id, sn).map(|u| u.as_str().to_owned()).map_err(|e| e.to_string()));
    let b = catch(|| UserId::parse_with_server_name_rc(id, sn).map(|u| u.as_str().to_owned()).map_err(|e| e.to_string()));
    let c = catch(|| UserId::parse_with_server_name_arc(id, sn).map(|u| u.as_str().to_owned()).map_err(|e| e.to_string()));
    let (a, b, c) = match (a, b, c) {
        (Ok(a), Ok(b), Ok(c)) => (a, b, c),
        (Err(p), _, _) | (_, Err(p), _) | (_, _, Err(p)) => {
            out.push((format!("panic/{}/UserId::parse_with_server_name", p.file()), p.text));
            return out;
        }
    };
    t.outcome("ctor/parse_with_server_name", if a.is_ok() { "ok" } else { "err" });
    need(&mut out, a == b && a == c, "constructor/UserId::parse_with_server_name/variants-disagree", || {
        format!("id {} server {}: {a:?} {b:?} {c:?}", show(id), show(server))
    });
    let composed = if id.starts_with('@') { id.to_owned() } else { format!("@{id}:{server}") };
    match &a {
        Ok(u) => {
            t.nontrivial += 1;
            need(&mut out, *u == composed, "constructor/UserId::parse_with_server_name/value", || {
                format!("id {} server {} -> {}", show(id), show(server), show(u))
            });
            accepted_by_parser("UserId::parse_with_server_name", Kind::User, u, UserId::parse(u).is_ok(), &mut out);
            // a bare localpart is completed with the given server name: the result must be made of
            // exactly these two components (a `:` or NUL in the localpart cannot be accepted)
            if !id.starts_with('@') {
                need(
                    &mut out,
                    !id.contains(':') && !id.contains('\0'),
                    "constructor/UserId::parse_with_server_name/accepted-invalid-localpart",
                    || format!("localpart {} server {} -> {}", show(id), show(server), show(u)),
                );
                if let Ok(parsed) = UserId::parse(u) {
                    need(
                        &mut out,
                        parsed.localpart() == id && parsed.server_name().as_str() == server,
                        "constructor/UserId::parse_with_server_name/components",
                        || format!("localpart {} server {} -> localpart {} server {}", show(id), show(server), show(parsed.localpart()), show(parsed.server_name().as_str())),
                    );
                }
            }
        }
        Err(e) => match ids::reference(Kind::User, &composed) {
            // (only when the localpart itself is one: `a:x` completed with `8448` composes to a valid
            // user ID string of a different user)
            Ref::Accept if id.starts_with('@') || !(id.contains(':') || id.contains('\0')) => {
                t.nontrivial += 1;
                out.push((
                    "constructor/UserId::parse_with_server_name/rejected-valid".into(),
                    format!("id {} server {}: {e}", show(id), show(server)),
                ));
            }
            _ => t.unspecified += 1,
        },
    }
    out
}

fn ctor_from_parts(ty: &str, alg: &str, name: &str, t: &mut Tally) -> Viol {
    let mut out = vec![];
    let expect = format!("{alg}:{name}");
    t.transitions += 2;
    // an algorithm that is not a token (empty / contains the delimiter) is outside what the
    // property speaks about: from_parts and the parser still run, the accessors do not
    let token = !(alg.is_empty() || alg.contains(':'));
    macro_rules! obs {
        ($k:expr, $P:ty) => {{
            let k = $k;
            let parses = <$P>::parse(k.as_str()).is_ok();
            let re = if token && parses { format!("{}:{}", k.algorithm(), k.key_name()) } else { String::new() };
            (k.as_str().to_owned(), parses, re)
        }};
    }
    let r = catch(|| match ty {
        "DeviceKeyId" => obs!(DeviceKeyId::from_parts(DeviceKeyAlgorithm::from(alg), name.into()), DeviceKeyId),
        "OneTimeKeyId" => obs!(OneTimeKeyId::from_parts(OneTimeKeyAlgorithm::from(alg), name.into()), OneTimeKeyId),
        _ => {
            let v = <&ServerSigningKeyVersion>::try_from(name).expect("valid version in the menu");
            obs!(ServerSigningKeyId::from_parts(SigningKeyAlgorithm::from(alg), v), ServerSigningKeyId)
        }
    });
    match r {
        Err(p) => out.push((format!("panic/{}/{ty}::from_parts", p.file()), format!("alg {} name {}: {}", show(alg), show(name), p.text))),
        Ok((got, parses, recomposed)) => {
            t.outcome("ctor/from_parts", if parses { "parses" } else { "rejected" });
            if !token {
                t.unspecified += 1;
                return out;
            }
            t.nontrivial += 1;
            need(&mut out, got == expect, &format!("constructor/{ty}::from_parts/value"), || format!("{} vs {}", show(&got), show(&expect)));
            let kind = if ty == "ServerSigningKeyId" { Kind::KeyVersion } else { Kind::KeyAny };
            if !parses {
                let class = ids::valid_class(kind, &got);
                out.push((
                    format!("constructor/{ty}::from_parts/{class}"),
                    format!("built {} (len {}) which its parser rejects", show(&got), got.len()),
                ));
            } else {
                need(&mut out, recomposed == expect, &format!("constructor/{ty}::from_parts/recompose"), || show(&recomposed));
            }
        }
    }
    out
}

/// random-localpart constructors: only lengths and acceptance are observed (the localpart is
/// drawn by ruma from the OS RNG and is never part of a verdict)
fn ctor_new(ty: &str, server: &str, t: &mut Tally) -> Viol {
    let mut out = vec![];
    let Ok(sn) = <&ServerName>::try_from(server) else { return out };
    t.transitions += 2;
    let r = catch(|| match ty {
        "UserId" => {
            let u = UserId::new(sn);
            (u.as_str().len(), UserId::parse(u.as_str()).is_ok() && u.validate_strict().is_ok(), u.as_str().ends_with(&format!(":{server}")))
        }
        "RoomId" => {
            let u = RoomId::new(sn);
            (u.as_str().len(), RoomId::parse(u.as_str()).is_ok(), u.as_str().ends_with(&format!(":{server}")))
        }
        _ => {
            let u = EventId::new(sn);
            (u.as_str().len(), EventId::parse(u.as_str()).is_ok(), u.as_str().ends_with(&format!(":{server}")))
        }
    });
    match r {
        Err(p) => out.push((format!("panic/{}/{ty}::new", p.file()), format!("server len {}: {}", server.len(), p.text))),
        Ok((len, parses, suffix)) => {
            t.outcome("ctor/new", if parses { "parses" } else { "rejected" });
            t.nontrivial += 1;
            need(&mut out, suffix, &format!("constructor/{ty}::new/value"), || format!("server {}", show(server)));
            if !parses {
                let why = if len > 255 { "over-255" } else { "rejected-by-parser" };
                out.push((
                    format!("constructor/{ty}::new/{why}"),
                    format!("{ty}::new(server of {} bytes) built a {len}-byte id which {ty}::parse rejects", server.len()),
                ));
            }
        }
    }
    out
}

fn ctor_misc(which: &str, n: usize, t: &mut Tally) -> Viol {
    let mut out = vec![];
    t.transitions += 2;
    let r = catch(|| match which {
        "Base64PublicKey::with_bytes" => {
            let k = OwnedBase64PublicKey::with_bytes(vec![0xfbu8; n]);
            Base64PublicKey::parse(k.as_str()).is_ok()
        }
        "ClientSecret::new" => ClientSecret::parse(ClientSecret::new().as_str()).is_ok(),
        "TransactionId::new" => !TransactionId::new().as_str().is_empty(),
        "DeviceId::new" => DeviceId::new().as_str().len() == 10,
        _ => !VoipId::new().as_str().is_empty(),
    });
    match r {
        Err(p) => out.push((format!("panic/{}/{which}", p.file()), format!("{which}({n}): {}", p.text))),
        Ok(ok) => {
            t.outcome("ctor/misc", if ok { "parses" } else { "rejected" });
            t.nontrivial += 1;
            need(&mut out, ok, &format!("constructor/{which}/rejected-by-parser"), || format!("{which}({n})"));
        }
    }
    out
}

fn ctor_cases() -> Vec<Value> {
    let mut v = vec![];
    let servers: Vec<String> = vec![
        "x".into(),
        "example.com:8448".into(),
        "[::1]".into(),
        "b".repeat(230),
        "b".repeat(250),
        format!("{}:8448", "b".repeat(250)),
        "b".repeat(255),
        // all-digit host names: a localpart ending in `:host` completed with them composes to
        // `@lp:host:digits`, a valid ID of somebody else
        "8448".into(),
        "1".into(),
    ];
    let mut idparts: Vec<String> = ids::LOCALPARTS.iter().map(|s| s.to_string()).collect();
    idparts.extend(["@a:x", "@bad", "@a:", "@:x", "a@b", "é@", "a:x", "a:example.org", "a:[::1]", "a:1.2.3.4", ":x", "a:"].map(String::from));
    for l in (0..=4).chain(236..=262).chain(509..=513) {
        idparts.push("a".repeat(l));
        idparts.push(format!("@{}:x", "a".repeat(l)));
        if l >= 2 {
            idparts.push("é".repeat(l / 2));
        }
    }
    for id in &idparts {
        for s in &servers {
            v.push(json!({"ctor": "parse_with_server_name", "id": id, "server": s}));
        }
    }
    let mut algs: Vec<String> = ["ed25519", "curve25519", "signed_curve25519", "x_y", "", "a:b"].map(String::from).to_vec();
    let mut names: Vec<String> = ["", "a", "a:b", "é", "AAAAHg", "a_1"].map(String::from).to_vec();
    for l in [247usize, 248, 249, 250, 254, 255, 256, 257, 258, 512] {
        algs.push("a".repeat(l));
        names.push("n".repeat(l));
    }
    for ty in ["DeviceKeyId", "OneTimeKeyId", "ServerSigningKeyId"] {
        for a in &algs {
            for n in &names {
                if ty == "ServerSigningKeyId" && (n.is_empty() || !n.bytes().all(|b| b.is_ascii_alphanumeric() || b == b'_')) {
                    continue;
                }
                v.push(json!({"ctor": "from_parts", "ty": ty, "alg": a, "name": n}));
            }
        }
    }
    for ty in ["UserId", "RoomId", "EventId"] {
        for l in [1usize, 100, 230, 233, 234, 235, 236, 237, 238, 239, 240, 241, 242, 243, 250, 255] {
            v.push(json!({"ctor": "new", "ty": ty, "server": "s".repeat(l)}));
            if l > 5 {
                v.push(json!({"ctor": "new", "ty": ty, "server": format!("{}:8448", "s".repeat(l - 5))}));
            }
        }
    }
    for n in [0usize, 1, 2, 3, 4, 31, 32, 33] {
        v.push(json!({"ctor": "misc", "which": "Base64PublicKey::with_bytes", "n": n}));
    }
    for w in ["ClientSecret::new", "TransactionId::new", "DeviceId::new", "VoipId::new"] {
        v.push(json!({"ctor": "misc", "which": w, "n": 0}));
    }
    v
}

fn eval_case(case: &Value, t: &mut Tally) -> Viol {
    let g = |k: &str| case.get(k).and_then(Value::as_str).unwrap_or("");
    match case.get("ctor").and_then(Value::as_str) {
        Some("parse_with_server_name") => ctor_parse_with_server_name(g("id"), g("server"), t),
        Some("from_parts") => ctor_from_parts(g("ty"), g("alg"), g("name"), t),
        Some("new") => ctor_new(g("ty"), g("server"), t),
        Some("misc") => ctor_misc(g("which"), case.get("n").and_then(Value::as_u64).unwrap_or(0) as usize, t),
        Some(other) => engine::machinery_error(&format!("unknown ctor {other}")),
        None => {
            if case.get("only").and_then(Value::as_str) == Some("mxc") {
                eval_mxc_only(g("s"), t)
            } else {
                eval_string(g("s"), t)
            }
        }
    }
}

const CHECKED_TYPES: [&str; 18] = [
    "UserId",
    "RoomAliasId",
    "RoomId",
    "RoomOrAliasId",
    "EventId",
    "ServerName",
    "DeviceKeyId",
    "ServerSigningKeyId",
    "CrossSigningKeyId",
    "SigningKeyId<AnyKeyName>",
    "OneTimeKeyId",
    "DeviceSigningKeyId",
    "CrossSigningOrDeviceSigningKeyId",
    "ClientSecret",
    "SessionId",
    "Base64PublicKey",
    "ServerSigningKeyVersion",
    "RoomVersionId",
];

fn main() {
    let args = parse_args();
    if let Some(p) = &args.replay {
        replay_and_exit("C10", p, |v| eval_case(v, &mut Tally::new()));
    }
    let report = Report::new("C10", "model_checking", &args);
    let max_len = args.tier.pick(5usize, 6usize);
    report.set_rule(&format!(
        "(i) every string of 0..={max_len} symbols over the 16-symbol alphabet {{a 1 : . @ ! # $ [ ] - + / NUL é space}} \
         (and `mxc://` + each of them for MxcUri); (ii) grammar products prefix{{@ # ! $ none mxc:// ed25519:}} x 10 localparts x \
         12 hosts x 14 ports, each also padded to total length 0,1,2,253..258,511..513 once through the localpart and once \
         through the host, plus index-wrap ladders (mxc server length 247..256 / 503..509, key-id colon at 0..3, 254..260, \
         511..513 with multi-byte characters at offsets 0..3); (iii) every single-edit mutant (delete, duplicate, substitute, \
         insert, append over the alphabet, every position) of 40 valid identifiers; (iv) constructors \
         (parse_with_server_name/_rc/_arc over localpart classes x lengths 0..4,236..262,509..513 x 7 servers, KeyId::from_parts, \
         UserId/RoomId/EventId::new with servers of 1..255 bytes, Base64PublicKey::with_bytes, *::new). Every string goes \
         through 25 identifier types x every form (borrowed, parse, parse_box, parse_rc, parse_arc, FromStr, FromStr for Box, \
         TryFrom<String>, serde owned, serde Box) and, when accepted, every accessor. state = one distinct input string / \
         constructor call; transition = one call of a ruma parser, accessor or constructor; non-trivial = (string, type) pairs \
         for which the reference answers Accept or Reject"
    ));
    report.assume("reference recognizer = mc_common::ids, written from the spec appendices (server name, identifier grammar); three-valued");
    report.assume("Unspecified (executed, not compared): RoomId beyond sigil/length/NUL; historical / empty localparts (only `:` and NUL are demanded absent); dns-name over 255 bytes; IPv6 text inside the spec's loose 2*45 IPv6char production but not RFC 4291 strict; empty key algorithm; non-ASCII in key versions, client secrets, base64 keys; empty media id");
    report.assume("UserId/RoomId/EventId::new draw the localpart from the OS RNG inside ruma; only length and acceptance are observed");
    for ty in CHECKED_TYPES {
        report.require_outcomes(&format!("parse/{ty}"), 2);
    }
    report.require_outcomes("MxcUri.validate", 2);
    report.require_outcomes("ctor/parse_with_server_name", 2);

    let emit = |report: &Report, case: &dyn Fn() -> Value, viol: Viol| {
        for (sig, detail) in viol {
            report.violation(&sig, || detail, case);
        }
    };

    // (i) all strings up to max_len, sharded by the first two symbols
    let a = ids::ALPHABET;
    par_shards(&report, a.len() * a.len() + 1, |i, t| {
        let mut run = |s: &str| {
            t.states += 1;
            let v = eval_string(s, t);
            emit(&report, &|| json!({"s": s}), v);
            let m = format!("mxc://{s}");
            t.states += 1;
            let v = eval_mxc_only(&m, t);
            emit(&report, &|| json!({"s": m, "only": "mxc"}), v);
            if t.states % 40_000 == 7 {
                t.sample(|| json!({"s": s}));
            }
        };
        if i == a.len() * a.len() {
            engine::for_all_strings(&a, 1, &mut run);
        } else {
            let prefix = format!("{}{}", a[i / a.len()], a[i % a.len()]);
            for l in 2..=max_len {
                engine::for_strings_with_prefix(&a, &prefix, l - 2, &mut run);
            }
        }
    });
    let n_i = (0..=max_len as u32).map(|l| (a.len() as u64).pow(l)).sum::<u64>();
    report.set("family_i_strings", json!(n_i));

    // (ii) + (iii)
    let mut set: BTreeSet<String> = BTreeSet::new();
    ids::grammar_products(&mut |s| {
        set.insert(s);
    });
    let n_products = set.len();
    ids::wrap_ladders(&mut |s| {
        set.insert(s);
    });
    let n_ladders = set.len() - n_products;
    for id in ids::VALID_IDS {
        set.insert(id.to_owned());
        ids::single_edit_mutants(id, &a, &mut |s| {
            set.insert(s);
        });
    }
    let n_mutants = set.len() - n_products - n_ladders;
    let list: Vec<String> = set.into_iter().collect();
    let chunk = 64;
    par_shards(&report, list.len().div_ceil(chunk), |i, t| {
        for s in &list[i * chunk..((i + 1) * chunk).min(list.len())] {
            t.states += 1;
            let v = eval_string(s, t);
            emit(&report, &|| json!({"s": s}), v);
            if t.states % 3000 == 5 {
                t.sample(|| json!({"s": engine::truncate(s, 80), "len": s.len()}));
            }
        }
    });
    report.set("family_ii_grammar_products", json!(n_products));
    report.set("family_ii_wrap_ladders", json!(n_ladders));
    report.set("family_iii_mutants", json!(n_mutants));

    // every seed identifier must be accepted by at least one type (guards the mutant seeds)
    for id in ids::VALID_IDS {
        let ok = [Kind::User, Kind::Alias, Kind::Room, Kind::Event, Kind::Server, Kind::KeyAny, Kind::Mxc, Kind::RoomVersion]
            .iter()
            .any(|k| ids::reference(*k, id) == Ref::Accept);
        if !ok {
            engine::machinery_error(&format!("seed {id} is not valid for any reference"));
        }
    }

    // (iv) constructors
    let ctors = ctor_cases();
    par_shards(&report, ctors.len(), |i, t| {
        t.states += 1;
        let v = eval_case(&ctors[i], t);
        emit(&report, &|| ctors[i].clone(), v);
        if i % 700 == 3 {
            t.sample(|| ctors[i].clone());
        }
    });
    report.set("family_iv_constructor_calls", json!(ctors.len()));
    report.set("identifier_types", json!(25));
    report.set("max_len", json!(max_len));
    report.finish()
}

//! C04 — redaction keeps exactly the spec's keys per room version and is idempotent.
//!
//! P-explorer: versions 1..=11 (through `RoomVersionId::rules()`) × event types × every
//! subset of the content key universe × top-level key configurations × three entry points,
//! against the table of DESIGN.md Appendix A.1 (engine::spec::redaction).

use engine::{
    catch, parse_args, par_shards, replay_and_exit,
    spec::redaction::{self as spec, RefRedact},
    Report, Tally,
};
use ruma_common::{
    canonical_json::{redact, redact_content_in_place, redact_in_place, RedactedBecause},
    room_version_rules::RedactionRules,
    CanonicalJsonObject, CanonicalJsonValue, RoomVersionId,
};
use serde_json::{json, Map, Value};

/// near misses of the types with special rules: not special at all (every content key goes), but a lookup by
/// suffix, by prefix, case-insensitively or after trimming would treat them like the type they resemble.
/// Their contents are generated over the key universe of that type.
const NEAR_MISSES: [(&str, &str); 12] = [
    ("member", "m.room.member"),
    ("create", "m.room.create"),
    ("join_rules", "m.room.join_rules"),
    ("power_levels", "m.room.power_levels"),
    ("history_visibility", "m.room.history_visibility"),
    ("redaction", "m.room.redaction"),
    ("aliases", "m.room.aliases"),
    ("M.ROOM.MEMBER", "m.room.member"),
    ("m.room.member.x", "m.room.member"),
    ("m.room.power_level", "m.room.power_levels"),
    (" m.room.create", "m.room.create"),
    ("xm.room.join_rules", "m.room.join_rules"),
];

fn universe(ty: &str) -> &'static [&'static str] {
    match NEAR_MISSES.iter().find(|(t, _)| *t == ty) {
        Some((_, like)) => spec::content_universe(like),
        None => spec::content_universe(ty),
    }
}

const TYPES: [&str; 23] = [
    "member",
    "create",
    "join_rules",
    "power_levels",
    "history_visibility",
    "redaction",
    "aliases",
    "M.ROOM.MEMBER",
    "m.room.member.x",
    "m.room.power_level",
    " m.room.create",
    "xm.room.join_rules",
    "m.room.member",
    "m.room.create",
    "m.room.join_rules",
    "m.room.power_levels",
    "m.room.history_visibility",
    "m.room.redaction",
    "m.room.aliases",
    "m.room.message",
    "x.custom",
    "m.room.server_acl",
    "m.room.name",
];

const SENSITIVE_TOP: [&str; 6] = ["origin", "membership", "prev_state", "unsigned", "redacts", "foo"];

fn rules_for(v: u8) -> RedactionRules {
    let id = RoomVersionId::try_from(v.to_string().as_str()).expect("room version id");
    id.rules().expect("known version has rules").redaction
}

/// value of a given "kind" so that value identity is observable
fn value_of_kind(kind: usize, tag: &str) -> Value {
    match kind % 5 {
        0 => json!(kind as i64 + 7),
        1 => json!(format!("v-{tag}")),
        2 => json!({ "nested": { "signed": tag, "k": [1, 2] }, "z": null }),
        3 => json!([tag, 1, { "a": "b" }, null]),
        _ => Value::Null,
    }
}

fn top_value(key: &str, i: usize) -> Value {
    match key {
        "hashes" => json!({"sha256": "abc"}),
        "signatures" => json!({"x.org": {"ed25519:1": "sig"}}),
        "unsigned" => json!({"age": 5, "prev_content": {"a": 1}}),
        "depth" | "origin_server_ts" => json!(12 + i as i64),
        "prev_events" | "auth_events" => json!(["$a:x.org", ["$b:x.org", {"sha256": "h"}]]),
        _ => value_of_kind(i + 1, key),
    }
}

/// third_party_invite shapes for the member event
fn tpi_shapes() -> Vec<Value> {
    vec![
        json!({"signed": {"mxid": "@a:x", "token": "t", "signatures": {}}, "display_name": "d"}),
        json!({"signed": "scalar-signed", "x": 1}),
        json!({"display_name": "d"}),
        json!({}),
        json!("not an object"),
        json!(null),
        json!([1]),
    ]
}

#[derive(Clone, Debug)]
struct Case {
    version: u8,
    event: Map<String, Value>,
    because: bool,
}

fn to_canonical(m: &Map<String, Value>) -> CanonicalJsonObject {
    m.iter()
        .map(|(k, v)| (k.clone(), CanonicalJsonValue::try_from(v.clone()).expect("canonical")))
        .collect()
}

fn from_canonical(o: &CanonicalJsonObject) -> Map<String, Value> {
    match serde_json::to_value(o).expect("to_value") {
        Value::Object(m) => m,
        _ => unreachable!(),
    }
}

fn because_obj() -> Map<String, Value> {
    match json!({"type": "m.room.redaction", "event_id": "$r", "content": {"reason": "x"}}) {
        Value::Object(m) => m,
        _ => unreachable!(),
    }
}

/// Evaluate one case; returns (sig, detail) for each violation.
fn eval(case: &Case, t: &mut Tally) -> Vec<(String, String)> {
    let mut out = vec![];
    let v = case.version;
    let rules = rules_for(v);
    let ty = case.event.get("type").and_then(Value::as_str).map(str::to_owned);
    let ty_label = ty.clone().unwrap_or_else(|| "<none>".into());
    let reference = spec::redact_event(v, &case.event);
    let input = to_canonical(&case.event);
    let because = || case.because.then(|| RedactedBecause::from_json(to_canonical(&because_obj())));

    // entry point 1: redact (copying)
    t.transitions += 1;
    let r1 = catch(|| redact(input.clone(), &rules, because()));
    // entry point 2: redact_in_place
    t.transitions += 1;
    let mut inplace = input.clone();
    let r2 = catch(|| redact_in_place(&mut inplace, &rules, because()));
    let (r1, r2) = match (r1, r2) {
        (Ok(a), Ok(b)) => (a, b),
        (Err(p), _) | (_, Err(p)) => {
            out.push((format!("panic/{}", p.file()), format!("v{v} {ty_label}: {}", p.text)));
            return out;
        }
    };
    t.outcome("redact", if r1.is_ok() { "ok" } else { "err" });
    match (&r1, &r2) {
        (Ok(a), Ok(())) => {
            if *a != inplace {
                out.push((
                    format!("entrypoints-disagree/{ty_label}"),
                    format!("v{v}: redact={:?} in_place={:?}", a, inplace),
                ));
            }
        }
        (Err(_), Err(_)) => {}
        _ => out.push((
            format!("entrypoints-disagree-result/{ty_label}"),
            format!("v{v}: redact ok={} in_place ok={}", r1.is_ok(), r2.is_ok()),
        )),
    }

    match (&reference, &r1) {
        (RefRedact::Unspecified, r) => {
            // DESIGN §1.3: `third_party_invite` without `signed` (or not an object) under v11 —
            // absent or `{}` are both accepted, an error is accepted for non-objects. Everything
            // else about the result is still determined, and the differential invariants
            // (idempotence, agreement of the entry points) are checked below regardless.
            t.unspecified += 1;
            if let Ok(got) = r {
                let mut base = case.event.clone();
                let tpi_is_object = base
                    .get("content")
                    .and_then(|c| c.get("third_party_invite"))
                    .map(Value::is_object)
                    .unwrap_or(false);
                if let Some(Value::Object(c)) = base.get_mut("content") {
                    c.remove("third_party_invite");
                }
                if let RefRedact::Must(mut exp) = spec::redact_event(v, &base) {
                    if case.because {
                        exp.insert("unsigned".into(), json!({"redacted_because": because_obj()}));
                    }
                    let mut exp_empty = exp.clone();
                    if let Some(Value::Object(c)) = exp_empty.get_mut("content") {
                        c.insert("third_party_invite".into(), json!({}));
                    }
                    let got = from_canonical(got);
                    if got != exp && !(tpi_is_object && got == exp_empty) {
                        out.push((
                            format!("table/v{v}/{ty_label}/content.third_party_invite-without-signed"),
                            format!("v{v}: expected third_party_invite absent or {{}} and everything else per the table; got {}", Value::Object(got)),
                        ));
                    }
                }
            }
        }
        (RefRedact::MustErr, Ok(o)) => out.push((
            format!("expected-error/{ty_label}"),
            format!("v{v}: event {} redacted to {:?}", Value::Object(case.event.clone()), o),
        )),
        (RefRedact::MustErr, Err(_)) => {}
        (RefRedact::Must(_), Err(e)) => out.push((
            format!("unexpected-error/{ty_label}"),
            format!("v{v}: {e} on {}", Value::Object(case.event.clone())),
        )),
        (RefRedact::Must(exp), Ok(got)) => {
            let mut exp = exp.clone();
            if case.because {
                exp.insert("unsigned".into(), json!({"redacted_because": because_obj()}));
            }
            let got = from_canonical(got);
            if got != exp {
                // signature: which cell of the table differs
                let mut cells = vec![];
                for k in exp.keys().chain(got.keys()) {
                    if exp.get(k) != got.get(k) {
                        if k == "content" {
                            let e = exp.get(k).and_then(Value::as_object);
                            let g = got.get(k).and_then(Value::as_object);
                            if let (Some(e), Some(g)) = (e, g) {
                                for ck in e.keys().chain(g.keys()) {
                                    if e.get(ck) != g.get(ck) {
                                        cells.push(format!("content.{ck}"));
                                    }
                                }
                                continue;
                            }
                        }
                        cells.push(k.clone());
                    }
                }
                cells.sort();
                cells.dedup();
                for c in cells {
                    out.push((
                        format!("table/v{v}/{ty_label}/{c}"),
                        format!(
                            "v{v} {ty_label}: key {c}: expected {} got {}",
                            Value::Object(exp.clone()),
                            Value::Object(got.clone())
                        ),
                    ));
                }
            }
        }
    }

    // idempotence: redact(redact(x)) == redact(x) — a differential invariant, checked whatever the
    // reference says about the first result
    if let Ok(first) = &r1 {
        let first = first.clone();
        t.transitions += 1;
        match catch(|| redact(first.clone(), &rules, None)) {
            Ok(Ok(second)) => {
                // `unsigned` (redacted_because) is stripped again by a second redaction
                let mut first_wo = first.clone();
                first_wo.remove("unsigned");
                if second != first_wo {
                    out.push((
                        format!("not-idempotent/{ty_label}"),
                        format!("v{v}: once={:?} twice={:?}", first_wo, second),
                    ));
                }
            }
            Ok(Err(e)) => out.push((
                format!("not-idempotent-err/{ty_label}"),
                format!("v{v}: second redaction failed: {e}"),
            )),
            Err(p) => out.push((format!("panic/{}", p.file()), p.text)),
        }
    }

    // entry point 3: content only
    if let (Some(ty), Some(Value::Object(content))) = (&ty, case.event.get("content")) {
        t.transitions += 1;
        let mut c = to_canonical(content);
        let r3 = catch(|| redact_content_in_place(&mut c, &rules, ty));
        match r3 {
            Err(p) => out.push((format!("panic/{}", p.file()), p.text)),
            Ok(r3) => match (spec::redact_content(v, ty, content), r3) {
                (RefRedact::Unspecified, r3) => {
                    if let (Ok(()), Ok(full)) = (&r3, &r1) {
                        if let Some(CanonicalJsonValue::Object(fc)) = full.get("content") {
                            if *fc != c {
                                out.push((
                                    format!("content-only-disagrees/{ty}"),
                                    format!("v{v}: full={:?} content-only={:?}", fc, c),
                                ));
                            }
                        }
                    }
                    if r3.is_ok() != r1.is_ok() {
                        out.push((format!("content-only-disagrees-result/{ty}"), format!("v{v}: full ok={} content-only ok={}", r1.is_ok(), r3.is_ok())));
                    }
                }
                (RefRedact::Must(exp), Ok(())) => {
                    let got = from_canonical(&c);
                    if got != exp {
                        out.push((
                            format!("content-only/v{v}/{ty}"),
                            format!("expected {} got {}", Value::Object(exp), Value::Object(got)),
                        ));
                    }
                    // agreement with the full-event entry point
                    if let Ok(full) = &r1 {
                        if let Some(CanonicalJsonValue::Object(fc)) = full.get("content") {
                            if *fc != c {
                                out.push((
                                    format!("content-only-disagrees/{ty}"),
                                    format!("v{v}: full={:?} content-only={:?}", fc, c),
                                ));
                            }
                        }
                    }
                }
                (RefRedact::Must(_), Err(e)) => {
                    out.push((format!("content-only-error/{ty}"), format!("v{v}: {e}")))
                }
                (RefRedact::MustErr, _) => {}
            },
        }
    }
    out
}

fn base_event(ty: &str) -> Map<String, Value> {
    let mut m = Map::new();
    for (i, k) in spec::ALWAYS_KEPT_TOP.iter().enumerate() {
        if *k == "type" || *k == "content" {
            continue;
        }
        m.insert((*k).to_owned(), top_value(k, i));
    }
    m.insert("type".into(), json!(ty));
    m
}

fn content_for(ty: &str, subset: u32, kind_shift: usize, tpi: Option<&Value>) -> Map<String, Value> {
    let uni = universe(ty);
    let mut c = Map::new();
    for (i, k) in uni.iter().enumerate() {
        if subset & (1 << i) != 0 {
            let val = if *k == "third_party_invite" && tpi.is_some() {
                tpi.unwrap().clone()
            } else {
                value_of_kind(i + kind_shift, k)
            };
            c.insert((*k).to_owned(), val);
        }
    }
    // bit above the universe = unknown key `foo`
    if subset & (1 << uni.len()) != 0 {
        c.insert("foo".into(), value_of_kind(2 + kind_shift, "foo"));
    }
    c
}

/// enumerate the cases of one (version, type) shard
fn cases_for(v: u8, ty: &str, thorough: bool, f: &mut dyn FnMut(Case)) {
    let uni = universe(ty);
    let nbits = uni.len() + 1;
    let tpis = tpi_shapes();
    // (a) every subset of the content universe, all top-level keys + a few sensitive configs
    // quick: four configurations of the version-sensitive top-level keys; thorough: all 64, the value kinds
    // of the content keys rotating with them
    let top_cfgs: Vec<u32> = if thorough { (0..64u32).rev().collect() } else { vec![0b111111, 0, 0b010001, 0b101110] };
    for subset in 0..(1u32 << nbits) {
        for (ci, cfg) in top_cfgs.iter().enumerate() {
            let tpi_list: Vec<Option<&Value>> = if ty == "m.room.member"
                && subset & (1 << uni.iter().position(|k| *k == "third_party_invite").unwrap()) != 0
            {
                tpis.iter().map(Some).collect()
            } else {
                vec![None]
            };
            for tpi in tpi_list {
                let mut ev = base_event(ty);
                for (i, k) in SENSITIVE_TOP.iter().enumerate() {
                    if cfg & (1 << i) != 0 {
                        ev.insert((*k).to_owned(), top_value(k, i + 3));
                    }
                }
                ev.insert("content".into(), Value::Object(content_for(ty, subset, ci, tpi)));
                f(Case { version: v, event: ev, because: ci % 2 == 1 });
            }
        }
    }
    // (b) every subset of the 6 version-sensitive top-level keys × full content, and every
    // single / pair absence of the 18 keys
    let full = (1u32 << nbits) - 1;
    for cfg in 0..64u32 {
        for because in [false, true] {
            let mut ev = base_event(ty);
            for (i, k) in SENSITIVE_TOP.iter().enumerate() {
                if cfg & (1 << i) != 0 {
                    ev.insert((*k).to_owned(), top_value(k, i + cfg as usize));
                }
            }
            ev.insert("content".into(), Value::Object(content_for(ty, full, 1, Some(&tpis[0]))));
            f(Case { version: v, event: ev, because });
        }
    }
    let mut all_keys: Vec<&str> = spec::ALWAYS_KEPT_TOP.to_vec();
    all_keys.extend(SENSITIVE_TOP);
    for a in 0..=all_keys.len() {
        for b in a..=all_keys.len() {
            let mut ev = base_event(ty);
            for (i, k) in SENSITIVE_TOP.iter().enumerate() {
                ev.insert((*k).to_owned(), top_value(k, i));
            }
            ev.insert("content".into(), Value::Object(content_for(ty, full, 2, Some(&tpis[1]))));
            if a < all_keys.len() {
                ev.remove(all_keys[a]);
            }
            if b < all_keys.len() {
                ev.remove(all_keys[b]);
            }
            f(Case { version: v, event: ev, because: false });
        }
    }
    // (d) "empty" values: a kept key keeps its value whatever it is — an empty array, object or string, false, 0
    // and null are values, not absence. Every content key (all together, and one at a time) and the
    // version-sensitive top-level keys with each of them.
    for empty in [json!([]), json!({}), json!(""), json!(false), json!(0), Value::Null] {
        let mut full_content = content_for(ty, full, 0, None);
        for (_, val) in full_content.iter_mut() {
            *val = empty.clone();
        }
        let mut ev = base_event(ty);
        for k in SENSITIVE_TOP.iter() {
            ev.insert((*k).to_owned(), empty.clone());
        }
        ev.insert("content".into(), Value::Object(full_content));
        f(Case { version: v, event: ev, because: false });
        for k in uni.iter() {
            let mut ev = base_event(ty);
            ev.insert("content".into(), json!({ *k: empty.clone(), "foo": empty.clone() }));
            f(Case { version: v, event: ev, because: true });
        }
    }
    // (c) malformed: content non-object, type non-string
    for bad_content in [json!("str"), json!(1), json!(null), json!([1]), json!(true)] {
        let mut ev = base_event(ty);
        ev.insert("content".into(), bad_content);
        f(Case { version: v, event: ev, because: false });
    }
    for bad_type in [json!(1), json!(null), json!({"a": 1}), json!(["m.room.member"])] {
        let mut ev = base_event(ty);
        ev.insert("type".into(), bad_type);
        ev.insert("content".into(), Value::Object(content_for(ty, full, 0, None)));
        f(Case { version: v, event: ev, because: false });
    }
}

fn case_json(c: &Case) -> Value {
    json!({"version": c.version, "event": c.event, "because": c.because})
}

fn case_from_json(v: &Value) -> Case {
    Case {
        version: v["version"].as_u64().unwrap_or(1) as u8,
        event: v["event"].as_object().cloned().unwrap_or_default(),
        because: v["because"].as_bool().unwrap_or(false),
    }
}

fn main() {
    let args = parse_args();
    if let Some(p) = &args.replay {
        replay_and_exit("C04", p, |v| eval(&case_from_json(v), &mut Tally::new()));
    }
    let report = Report::new("C04", "model_checking", &args);
    let thorough = args.tier.is_thorough();
    report.set("top_level_configurations", serde_json::json!(if thorough { 64 } else { 4 }));
    report.set_rule(
        "product: room versions 1..=11 (RoomVersionId::rules()) x 11 event types x every subset of the \
         per-type content key universe (+unknown key) x top-level configurations (all 64 subsets of the \
         version-sensitive keys, every single/pair absence of 18 keys) x third_party_invite shapes x \
         malformed content/type; each through redact, redact_in_place, redact_content_in_place, with and \
         without redacted_because, plus redact∘redact. state = one distinct event object; transition = one \
         call of a real redaction entry point; non-trivial = reference defines the result (not Unspecified)",
    );
    report.assume("reference table = DESIGN.md Appendix A.1, transcribed from the spec (v1.14)");
    report.assume("third_party_invite without `signed` / non-object under v11 is Unspecified (executed, not compared)");
    report.require_outcomes("redact", 2);

    let shards: Vec<(u8, &str)> =
        (1..=11u8).flat_map(|v| TYPES.iter().map(move |t| (v, *t))).collect();
    par_shards(&report, shards.len(), |i, t| {
        let (v, ty) = shards[i];
        cases_for(v, ty, thorough, &mut |case| {
            t.states += 1;
            let before_unspec = t.unspecified;
            let viol = eval(&case, t);
            if t.unspecified == before_unspec {
                t.nontrivial += 1;
            }
            if t.states % 5000 == 1 {
                t.sample(|| case_json(&case));
            }
            for (sig, detail) in viol {
                report.violation(&sig, || detail, || case_json(&case));
            }
        });
    });
    report.set("versions", json!((1..=11).collect::<Vec<u8>>()));
    report.set("event_types", json!(TYPES));
    report.finish()
}

//! C11 — Matrix URIs round-trip through text and parsing them never panics.
//!
//! P-explorer (DESIGN §3 C11): (a) every URI value reachable through the public constructors
//! over identifiers whose localparts are all strings <= L over `a % / ? # é + & = space . 4`
//! (hosts `x`, `[::1]:80`, and the server-less forms), via lists of length 0..=2 over three
//! server names, actions none/join/chat: `to_string` then `parse` must give the value back;
//! (b) values only reachable by parsing (custom actions over `a & = % # + space é`, reversed
//! event/room order): built as text, parsed, then round-tripped; (c) every text `<base> + s`
//! for all s <= N over a 12-symbol (matrix.to) / 14-token (`matrix:`) alphabet and every
//! single-edit mutant of 16 valid URIs: no panic, and an accepted text re-formats to text that
//! parses to the same value.

use std::collections::BTreeSet;

use engine::{catch, par_shards, parse_args, replay_and_exit, Report, Tally};
use mc_common::ids as idfam;
use ruma_common::{
    matrix_uri::MatrixId, EventId, MatrixToUri, MatrixUri, OwnedEventId, OwnedRoomAliasId, OwnedRoomId,
    OwnedServerName, OwnedUserId, RoomAliasId, RoomId, ServerName, UserId,
};
use serde_json::{json, Value};

type Viol = Vec<(String, String)>;

const TO_BASE: &str = "https://matrix.to/#/";
const LP_ALPHABET: [&str; 12] = ["a", "%", "/", "?", "#", "é", "+", "&", "=", " ", ".", "4"];
const HOSTS: [&str; 2] = ["x", "[::1]:80"];
const VIA_SERVERS: [&str; 3] = ["v.org", "[::1]:80", "1.2.3.4:8448"];
const ACTION_ALPHABET: [&str; 8] = ["a", "&", "=", "%", "#", "+", " ", "é"];
const TO_TEXT_ALPHABET: [&str; 12] = ["/", "?", "#", "%", "!", "$", "@", ":", "a", ".", "2", "5"];
const URI_TEXT_TOKENS: [&str; 14] =
    ["u", "r", "e", "roomid", "/", "?", "&", "=", "%", "a", ":", ".", "via=", "action="];

fn show(s: &str) -> String {
    engine::truncate(&format!("{s:?}"), 160)
}

/// which reserved class of character the identifiers / action contain (first match), for sigs
fn char_class(s: &str) -> &'static str {
    for (c, name) in [
        ('%', "percent"),
        ('/', "slash"),
        ('?', "question"),
        ('#', "hash"),
        ('+', "plus"),
        ('&', "ampersand"),
        ('=', "equals"),
        (' ', "space"),
    ] {
        if s[1.min(s.len())..].contains(c) {
            return name;
        }
    }
    if !s.is_ascii() {
        return "non-ascii";
    }
    "plain"
}

fn id_kind(id: &MatrixId) -> &'static str {
    match id {
        MatrixId::Room(_) => "Room",
        MatrixId::RoomAlias(_) => "RoomAlias",
        MatrixId::User(_) => "User",
        MatrixId::Event(r, _) => {
            if r.is_room_id() {
                "Event(room)"
            } else {
                "Event(alias)"
            }
        }
        _ => "Other",
    }
}

fn id_text(id: &MatrixId) -> String {
    match id {
        MatrixId::Room(r) => r.to_string(),
        MatrixId::RoomAlias(r) => r.to_string(),
        MatrixId::User(r) => r.to_string(),
        MatrixId::Event(r, e) => format!("{r} {e}"),
        _ => String::new(),
    }
}

/// the identifier that `matrix:` URIs write last is only a sigil: the text ends in an empty
/// path segment (`matrix:roomid/`, `matrix:roomid/a/e/`)
fn empty_last_segment(id: &MatrixId) -> bool {
    match id {
        MatrixId::Room(r) => r.as_str().len() <= 1,
        MatrixId::RoomAlias(r) => r.as_str().len() <= 1,
        MatrixId::User(r) => r.as_str().len() <= 1,
        MatrixId::Event(_, e) => e.as_str().len() <= 1,
        _ => false,
    }
}

// ---------------------------------------------------------------------------------------
// the two URI types behind one interface

#[derive(Clone, Copy, PartialEq, Eq, Debug)]
enum Which {
    To,
    Matrix,
}

impl Which {
    fn name(self) -> &'static str {
        match self {
            Which::To => "MatrixToUri",
            Which::Matrix => "MatrixUri",
        }
    }
}

#[derive(Clone, Debug, PartialEq, Eq)]
enum AnyUri {
    To(MatrixToUri),
    Matrix(MatrixUri),
}

impl AnyUri {
    fn parse(w: Which, s: &str) -> Result<AnyUri, String> {
        match w {
            Which::To => MatrixToUri::parse(s).map(AnyUri::To).map_err(|e| e.to_string()),
            Which::Matrix => MatrixUri::parse(s).map(AnyUri::Matrix).map_err(|e| e.to_string()),
        }
    }
    fn text(&self) -> String {
        match self {
            AnyUri::To(u) => u.to_string(),
            AnyUri::Matrix(u) => u.to_string(),
        }
    }
    fn id(&self) -> &MatrixId {
        match self {
            AnyUri::To(u) => u.id(),
            AnyUri::Matrix(u) => u.id(),
        }
    }
    fn via(&self) -> &[OwnedServerName] {
        match self {
            AnyUri::To(u) => u.via(),
            AnyUri::Matrix(u) => u.via(),
        }
    }
    fn action(&self) -> Option<String> {
        match self {
            AnyUri::To(_) => None,
            AnyUri::Matrix(u) => u.action().map(|a| a.as_str().to_owned()),
        }
    }
}

/// The core invariant: `value -> text -> parse` gives the value back. `origin` says where the
/// value came from (constructor / parsed text) and becomes part of the signature.
fn roundtrip(w: Which, origin: &str, v: &AnyUri, t: &mut Tally, out: &mut Viol) {
    t.transitions += 2;
    let text = match catch(|| v.text()) {
        Ok(s) => s,
        Err(p) => {
            out.push((format!("panic/{}/{}.to_string", p.file(), w.name()), p.text));
            return;
        }
    };
    t.outcome("format", if text.contains('%') { "escaped" } else { "verbatim" });
    let back = match catch(|| AnyUri::parse(w, &text)) {
        Ok(b) => b,
        Err(p) => {
            out.push((
                format!("panic/{}/{}::parse/own-output", p.file(), w.name()),
                format!("{}: {}", show(&text), p.text),
            ));
            return;
        }
    };
    let diff = match &back {
        Err(_) => Some("parse-error"),
        Ok(b) if b == v => None,
        Ok(b) if b.id() != v.id() => Some("id"),
        Ok(b) if b.via() != v.via() => Some("via"),
        Ok(b) if b.action() != v.action() => Some("action"),
        Ok(_) => Some("other"),
    };
    t.outcome("roundtrip", if diff.is_some() { "differs" } else { "same" });
    if let Some(diff) = diff {
        let action_class = char_class(&format!("_{}", v.action().unwrap_or_default()));
        let sig = if w == Which::Matrix && diff == "parse-error" && empty_last_segment(v.id()) {
            format!("roundtrip/{}/{origin}/{diff}/empty-last-segment", w.name())
        } else if diff == "action" || (diff == "parse-error" && action_class != "plain") {
            format!("roundtrip/{}/{origin}/{diff}/action-{action_class}", w.name())
        } else {
            format!("roundtrip/{}/{origin}/{diff}/{}/{}", w.name(), char_class(&id_text(v.id())), id_kind(v.id()))
        };
        out.push((
            sig,
            format!("{v:?} formats to {} which parses to {back:?}", show(&text)),
        ));
    }
}

// ---------------------------------------------------------------------------------------
// (a) constructed values

#[derive(Clone, Debug)]
struct ValCase {
    which: Which,
    /// user | room | alias
    kind: &'static str,
    id: String,
    event: Option<String>,
    via: Vec<String>,
    /// join / chat flag of the constructors
    flag: bool,
}

fn val_json(c: &ValCase) -> Value {
    json!({"value": {"uri": c.which.name(), "kind": c.kind, "id": c.id, "event": c.event, "via": c.via, "flag": c.flag}})
}

fn val_from_json(v: &Value) -> Option<ValCase> {
    let v = v.get("value")?;
    let s = |k: &str| v.get(k).and_then(Value::as_str).map(str::to_owned);
    Some(ValCase {
        which: if s("uri")? == "MatrixToUri" { Which::To } else { Which::Matrix },
        kind: match s("kind")?.as_str() {
            "user" => "user",
            "room" => "room",
            _ => "alias",
        },
        id: s("id")?,
        event: s("event"),
        via: v.get("via")?.as_array()?.iter().filter_map(|x| x.as_str().map(str::to_owned)).collect(),
        flag: v.get("flag")?.as_bool()?,
    })
}

/// Build the value through the public constructors; None if an identifier is not accepted.
#[allow(deprecated)]
fn construct(c: &ValCase, t: &mut Tally) -> Option<Vec<AnyUri>> {
    let via: Vec<OwnedServerName> = c.via.iter().map(|s| ServerName::parse(s)).collect::<Result<_, _>>().ok()?;
    let ev: Option<OwnedEventId> = match &c.event {
        Some(e) => Some(EventId::parse(e).ok()?),
        None => None,
    };
    t.transitions += 1;
    let mut v = vec![];
    match (c.kind, c.which) {
        ("user", Which::To) => {
            let u: OwnedUserId = UserId::parse(&c.id).ok()?;
            v.push(AnyUri::To(u.matrix_to_uri()));
        }
        ("user", Which::Matrix) => {
            let u: OwnedUserId = UserId::parse(&c.id).ok()?;
            v.push(AnyUri::Matrix(u.matrix_uri(c.flag)));
        }
        ("room", Which::To) => {
            let r: OwnedRoomId = RoomId::parse(&c.id).ok()?;
            match ev {
                None => {
                    v.push(AnyUri::To(r.matrix_to_uri_via(via.clone())));
                    if via.is_empty() {
                        v.push(AnyUri::To(r.matrix_to_uri()));
                    }
                }
                Some(e) => {
                    v.push(AnyUri::To(r.matrix_to_event_uri_via(e.clone(), via.clone())));
                    if via.is_empty() {
                        v.push(AnyUri::To(r.matrix_to_event_uri(e)));
                    }
                }
            }
        }
        ("room", Which::Matrix) => {
            let r: OwnedRoomId = RoomId::parse(&c.id).ok()?;
            match ev {
                None => {
                    v.push(AnyUri::Matrix(r.matrix_uri_via(via.clone(), c.flag)));
                    if via.is_empty() {
                        v.push(AnyUri::Matrix(r.matrix_uri(c.flag)));
                    }
                }
                Some(e) => {
                    v.push(AnyUri::Matrix(r.matrix_event_uri_via(e.clone(), via.clone())));
                    if via.is_empty() {
                        v.push(AnyUri::Matrix(r.matrix_event_uri(e)));
                    }
                }
            }
        }
        (_, Which::To) => {
            let r: OwnedRoomAliasId = RoomAliasId::parse(&c.id).ok()?;
            match ev {
                None => v.push(AnyUri::To(r.matrix_to_uri())),
                Some(e) => v.push(AnyUri::To(r.matrix_to_event_uri(e))),
            }
        }
        (_, Which::Matrix) => {
            let r: OwnedRoomAliasId = RoomAliasId::parse(&c.id).ok()?;
            match ev {
                None => v.push(AnyUri::Matrix(r.matrix_uri(c.flag))),
                Some(e) => v.push(AnyUri::Matrix(r.matrix_event_uri(e))),
            }
        }
    }
    Some(v)
}

/// Percent-encode every byte that is not an RFC 3986 unreserved character.
fn pct_all(s: &str) -> String {
    let mut o = String::new();
    for b in s.bytes() {
        if b.is_ascii_alphanumeric() || matches!(b, b'-' | b'.' | b'_' | b'~') {
            o.push(b as char);
        } else {
            o.push_str(&format!("%{b:02X}"));
        }
    }
    o
}

/// Reference formatter written from the spec (matrix.to navigation / `matrix:` URI scheme): the URI
/// of the value with *every* reserved character of every component percent-encoded. Any conforming
/// producer may emit this text, so the parser must read it back to exactly the value.
fn ref_text(c: &ValCase, action: Option<&str>) -> String {
    let mut q: Vec<String> = c.via.iter().map(|v| format!("via={}", pct_all(v))).collect();
    match c.which {
        Which::To => {
            let mut t = format!("{TO_BASE}{}", pct_all(&c.id));
            if let Some(e) = &c.event {
                t.push('/');
                t.push_str(&pct_all(e));
            }
            if !q.is_empty() {
                t.push('?');
                t.push_str(&q.join("&"));
            }
            t
        }
        Which::Matrix => {
            let ty = match c.kind {
                "user" => "u",
                "room" => "roomid",
                _ => "r",
            };
            let mut t = format!("matrix:{ty}/{}", pct_all(&c.id[1..]));
            if let Some(e) = &c.event {
                t.push_str("/e/");
                t.push_str(&pct_all(&e[1..]));
            }
            if let Some(a) = action {
                q.push(format!("action={}", pct_all(a)));
            }
            if !q.is_empty() {
                t.push('?');
                t.push_str(&q.join("&"));
            }
            t
        }
    }
}

/// `parse(ref_text(value)) == value`: an oracle that does not depend on ruma's own formatter.
fn check_ref_text(c: &ValCase, built: &AnyUri, t: &mut Tally, out: &mut Viol) {
    let action = match (c.which, c.event.is_some(), c.flag, c.kind) {
        (Which::Matrix, false, true, "user") => Some("chat"),
        (Which::Matrix, false, true, _) => Some("join"),
        _ => None,
    };
    let text = ref_text(c, action);
    t.transitions += 1;
    let class = char_class(&c.id);
    match catch(|| AnyUri::parse(c.which, &text)) {
        Err(p) => out.push((format!("panic/{}/parse-ref-text", p.file()), format!("{}: {}", show(&text), p.text))),
        Ok(Err(e)) => {
            // a sigil-only last identifier gives a text that ends in an empty path segment: the
            // recorded finding of the round-trip check, same cause, same signature
            let sig = if c.which == Which::Matrix && empty_last_segment(built.id()) {
                "roundtrip/MatrixUri/constructed/parse-error/empty-last-segment".to_owned()
            } else {
                format!("ref-text-rejected/{}/{}/{class}", c.which.name(), c.kind)
            };
            out.push((sig, format!("fully percent-encoded URI {} of {c:?} is rejected: {e}", show(&text))));
        }
        Ok(Ok(v)) => {
            t.outcome("ref-text", "parsed");
            if v != *built {
                out.push((
                    format!("ref-text-misparsed/{}/{}/{class}", c.which.name(), c.kind),
                    format!("fully percent-encoded URI {} parses to {v:?}, expected {built:?}", show(&text)),
                ));
            }
        }
    }
}

/// Custom actions can only be obtained by parsing: the reference text with the encoded action must
/// parse to a URI whose action is exactly that string.
fn eval_custom_action(action: &str, t: &mut Tally) -> Viol {
    let mut out = vec![];
    for (kind, id, event) in [("user", "@a:x", None), ("room", "!r:x", Some("$e:x"))] {
        let c = ValCase { which: Which::Matrix, kind, id: id.to_owned(), event: event.map(str::to_owned), via: vec!["v.org".to_owned()], flag: false };
        let text = ref_text(&c, Some(action));
        t.states += 1;
        t.transitions += 1;
        match catch(|| MatrixUri::parse(&text)) {
            Err(p) => out.push((format!("panic/{}/parse-custom-action", p.file()), format!("{}: {}", show(&text), p.text))),
            Ok(Err(e)) => out.push((format!("custom-action/rejected/{}", char_class(action)), format!("{} rejected: {e}", show(&text)))),
            Ok(Ok(u)) => {
                t.outcome("custom-action", "parsed");
                t.nontrivial += 1;
                let got = u.action().map(|a| a.as_str().to_owned());
                let want_id = match event {
                    Some(e) => format!("{id} {e}"),
                    None => id.to_owned(),
                };
                if got.as_deref() != Some(action) || id_text(u.id()) != want_id {
                    out.push((
                        format!("custom-action/value-changed/{}", char_class(action)),
                        format!("{} parses to action {got:?}, expected {action:?}", show(&text)),
                    ));
                }
                roundtrip(Which::Matrix, "parsed-custom-action", &AnyUri::Matrix(u), t, &mut out);
            }
        }
    }
    out
}

fn eval_value(c: &ValCase, t: &mut Tally) -> Viol {
    let mut out = vec![];
    let built = match catch(|| construct(c, t)) {
        Ok(Some(v)) => v,
        Ok(None) => {
            t.outcome("construct", "identifier-not-accepted");
            return out;
        }
        Err(p) => {
            out.push((format!("panic/{}/constructor", p.file()), format!("{c:?}: {}", p.text)));
            return out;
        }
    };
    t.outcome("construct", "built");
    if built.len() == 2 && built[0] != built[1] {
        out.push((format!("constructors-disagree/{}", c.which.name()), format!("{:?} vs {:?}", built[0], built[1])));
    }
    t.nontrivial += 1;
    roundtrip(c.which, "constructed", &built[0], t, &mut out);
    check_ref_text(c, &built[0], t, &mut out);
    out
}

// ---------------------------------------------------------------------------------------
// (b) + (c) texts

fn eval_text(w: Which, text: &str, t: &mut Tally) -> Viol {
    let mut out = vec![];
    t.transitions += 1;
    match catch(|| AnyUri::parse(w, text)) {
        Err(p) => out.push((
            format!("panic/{}/{}::parse", p.file(), w.name()),
            format!("{}: {}", show(text), p.text),
        )),
        Ok(Err(_)) => t.outcome(w.name(), "err"),
        Ok(Ok(v)) => {
            t.outcome(w.name(), "ok");
            t.nontrivial += 1;
            // the other entry points are the same function
            let same = match w {
                Which::To => {
                    text.parse::<MatrixToUri>().ok().map(AnyUri::To).as_ref() == Some(&v)
                        && MatrixToUri::try_from(text).ok().map(AnyUri::To).as_ref() == Some(&v)
                }
                Which::Matrix => {
                    text.parse::<MatrixUri>().ok().map(AnyUri::Matrix).as_ref() == Some(&v)
                        && MatrixUri::try_from(text).ok().map(AnyUri::Matrix).as_ref() == Some(&v)
                }
            };
            if !same {
                out.push((format!("entrypoints-disagree/{}", w.name()), show(text)));
            }
            roundtrip(w, "parsed", &v, t, &mut out);
        }
    }
    out
}

fn text_json(w: Which, text: &str) -> Value {
    json!({"text": text, "uri": w.name()})
}

fn eval_case(case: &Value, t: &mut Tally) -> Viol {
    if let Some(c) = val_from_json(case) {
        return eval_value(&c, t);
    }
    let text = case.get("text").and_then(Value::as_str).unwrap_or("");
    let w = if case.get("uri").and_then(Value::as_str) == Some("MatrixToUri") { Which::To } else { Which::Matrix };
    eval_text(w, text, t)
}

/// application/x-www-form-urlencoded, everything but ASCII alphanumerics escaped
fn form_encode(s: &str) -> String {
    s.bytes()
        .map(|b| if b.is_ascii_alphanumeric() { (b as char).to_string() } else { format!("%{b:02X}") })
        .collect()
}

const VALID_URIS: [(Which, &str); 16] = [
    (Which::To, "https://matrix.to/#/@jplatte:notareal.hs"),
    (Which::To, "https://matrix.to/#/%23ruma:notareal.hs"),
    (Which::To, "https://matrix.to/#/#ruma:notareal.hs"),
    (Which::To, "https://matrix.to/#/!ruma:notareal.hs?via=notareal.hs&via=anotherunreal.hs"),
    (Which::To, "https://matrix.to/#/%21ruma%3Anotareal.hs/%24event%3Anotareal.hs"),
    (Which::To, "https://matrix.to/#/$event:notareal.hs/!ruma:notareal.hs"),
    (Which::To, "https://matrix.to/#/!a:x/$b?via=[::1]:80"),
    (Which::To, "https://matrix.to/#/@a%2Fb%3F:x/"),
    (Which::Matrix, "matrix:u/jplatte:notareal.hs"),
    (Which::Matrix, "matrix:u/jplatte:notareal.hs?action=chat"),
    (Which::Matrix, "matrix:r/ruma:notareal.hs?action=join"),
    (Which::Matrix, "matrix:roomid/ruma:notareal.hs?via=notareal.hs&via=anotherunreal.hs&action=join"),
    (Which::Matrix, "matrix:roomid/ruma:notareal.hs/e/event:notareal.hs"),
    (Which::Matrix, "matrix:e/event:notareal.hs/roomid/ruma:notareal.hs?via=[::1]:80"),
    (Which::Matrix, "matrix:room/a:x/event/b?action=x%26y"),
    (Which::Matrix, "matrix:user/a%2Fb%3F:x"),
];

fn all_strings(alphabet: &[&str], max_len: usize) -> Vec<String> {
    let mut v = vec![];
    engine::for_all_strings(alphabet, max_len, &mut |s| v.push(s.to_owned()));
    v
}

fn via_lists(max: usize) -> Vec<Vec<String>> {
    let mut v: Vec<Vec<String>> = vec![vec![]];
    if max >= 1 {
        for a in VIA_SERVERS {
            v.push(vec![a.to_owned()]);
        }
    }
    if max >= 2 {
        for a in VIA_SERVERS {
            for b in VIA_SERVERS {
                v.push(vec![a.to_owned(), b.to_owned()]);
            }
        }
    }
    v
}

/// sigil + localpart with each host, plus the server-less form where the type has one
fn id_forms(sigil: char, lp: &str, serverless: bool) -> Vec<String> {
    let mut v: Vec<String> = HOSTS.iter().map(|h| format!("{sigil}{lp}:{h}")).collect();
    if serverless {
        v.push(format!("{sigil}{lp}"));
    }
    v
}

/// All value cases whose "full" dimension is the localpart `lp`.
fn value_cases(lp: &str, full: bool, rep: &[String], f: &mut dyn FnMut(ValCase)) {
    let whiches = [Which::To, Which::Matrix];
    let flags = |w: Which| if w == Which::To { vec![false] } else { vec![false, true] };
    let vias = via_lists(if full { 2 } else { 0 });
    let vias1 = via_lists(if full { 1 } else { 0 });
    let tiny: Vec<String> = vec!["$a:x".into(), "$a".into(), "$%/?:x".into()];
    let rep_events: Vec<String> = if full { rep.iter().flat_map(|l| id_forms('$', l, true)).collect() } else { tiny };
    let rep_rooms: Vec<String> =
        if full { rep.iter().flat_map(|l| id_forms('!', l, true)).collect() } else { vec!["!a:x".into(), "!%/?".into()] };
    let rep_aliases: Vec<String> =
        if full { rep.iter().flat_map(|l| id_forms('#', l, false)).collect() } else { vec!["#a:x".into(), "#%/?:x".into()] };
    for w in whiches {
        for id in id_forms('@', lp, false) {
            for flag in flags(w) {
                f(ValCase { which: w, kind: "user", id: id.clone(), event: None, via: vec![], flag });
            }
        }
        for id in id_forms('#', lp, false) {
            for flag in flags(w) {
                f(ValCase { which: w, kind: "alias", id: id.clone(), event: None, via: vec![], flag });
            }
            for ev in &rep_events {
                f(ValCase { which: w, kind: "alias", id: id.clone(), event: Some(ev.clone()), via: vec![], flag: false });
            }
        }
        for id in id_forms('!', lp, true) {
            for via in &vias {
                for flag in flags(w) {
                    f(ValCase { which: w, kind: "room", id: id.clone(), event: None, via: via.clone(), flag });
                }
                for ev in &rep_events {
                    f(ValCase { which: w, kind: "room", id: id.clone(), event: Some(ev.clone()), via: via.clone(), flag: false });
                }
            }
        }
        // the event id is the full dimension
        for ev in id_forms('$', lp, true) {
            for room in &rep_rooms {
                for via in &vias1 {
                    f(ValCase { which: w, kind: "room", id: room.clone(), event: Some(ev.clone()), via: via.clone(), flag: false });
                }
            }
            for alias in &rep_aliases {
                f(ValCase { which: w, kind: "alias", id: alias.clone(), event: Some(ev.clone()), via: vec![], flag: false });
            }
        }
    }
}

fn main() {
    let args = parse_args();
    if let Some(p) = &args.replay {
        replay_and_exit("C11", p, |v| eval_case(v, &mut Tally::new()));
    }
    let report = Report::new("C11", "model_checking", &args);
    let l_full = args.tier.pick(3usize, 3usize);
    let l_novia = args.tier.pick(4usize, 5usize);
    let l_action = args.tier.pick(4usize, 5usize);
    let n_to = args.tier.pick(6usize, 7usize);
    let n_uri = args.tier.pick(5usize, 6usize);
    report.set_rule(&format!(
        "(a) constructed values: localparts = every string of 0..={l_full} symbols over {{a % / ? # é + & = space . 4}} in \
         @lp:h, #lp:h, !lp:h, !lp, $lp:h, $lp with h in {{x, [::1]:80}} (only identifiers the ruma parsers accept), through \
         matrix_to_uri / matrix_to_uri_via / matrix_to_event_uri(_via) / matrix_uri(flag) / matrix_uri_via / matrix_event_uri(_via) \
         with every via list of length 0..=2 over 3 server names and both join/chat flags; events pair the full localpart set with \
         a representative set (localparts of length <= 1) on the other side; localparts of length {}..={l_novia} with via=[] and 3 \
         representative partners; localparts of 80 / 125 / 245 / 252 bytes filled with each symbol (pure and alternating with `a`), \
         i.e. identifiers up to exactly 255 bytes whose encoded form is up to three times longer; (b) values reachable only by parsing: custom actions = every string of 0..={l_action} symbols \
         over {{a & = % # + space é}}, form-encoded and raw, on 4 ids x 3 via placements; reversed event/room order; \
         (c) texts: `https://matrix.to/#/` + every string of 0..={n_to} symbols over {{/ ? # % ! $ @ : a . 2 5}}, `matrix:` + every \
         string of 0..={n_uri} tokens over {{u r e roomid / ? & = % a : . via= action=}}, every single-edit mutant of 16 valid URIs. \
         Oracle: no panic; value -> to_string -> parse == value; accepted text -> value -> to_string -> parse == value. \
         state = one value or text; transition = one call of a constructor, Display or parse; non-trivial = cases with a value to round-trip",
        l_full + 1
    ));
    report.assume("differential oracle only (round trip, no panic); which texts must be accepted is not demanded by the property and not compared");
    report.assume("identifiers are taken from what the ruma parsers accept (C10 checks that set against the grammar)");
    report.require_outcomes("format", 2);
    report.require_outcomes("MatrixToUri", 2);
    report.require_outcomes("MatrixUri", 2);

    let emit = |case: &dyn Fn() -> Value, viol: Viol| {
        for (sig, detail) in viol {
            report.violation(&sig, || detail, case);
        }
    };

    // (a) constructed values
    let mut lps = all_strings(&LP_ALPHABET, l_novia);
    // localparts that begin with, end with or consist of a sigil (`@@x:hs`, `!!x:hs`, `$$x` are
    // accepted identifiers): a formatter or parser that adds / strips sigils by pattern rather than
    // by position shows up here
    for sigil in ["@", "!", "$", "#"] {
        for other in ["@", "!", "$", "#", "a"] {
            for lp in [
                sigil.to_owned(),
                format!("{sigil}{other}"),
                format!("{other}{sigil}"),
                format!("{sigil}{other}{sigil}"),
                format!("{sigil}{sigil}{other}"),
            ] {
                if !lps.contains(&lp) {
                    lps.push(lp);
                }
            }
        }
    }
    // long localparts: identifiers at and near the 255-byte limit whose percent-encoded form is up to
    // three times longer (a length test on the encoded text, a fixed-size buffer or a u8 counter shows
    // up here); targets are localpart byte lengths that give 255-byte ids with the short / long host
    let n_short = lps.len();
    for filler in LP_ALPHABET {
        for target in [80usize, 125, 245, 252] {
            for alternate in [false, true] {
                let mut lp = String::new();
                let unit = if alternate { format!("a{filler}") } else { filler.to_owned() };
                while lp.len() + unit.len() <= target {
                    lp.push_str(&unit);
                }
                while lp.len() < target {
                    lp.push('a');
                }
                if !lps.contains(&lp) {
                    lps.push(lp);
                }
            }
        }
    }
    report.set("family_a_long_localparts", json!(lps.len() - n_short));
    let rep = all_strings(&LP_ALPHABET, 1);
    par_shards(&report, lps.len(), |i, t| {
        let lp = &lps[i];
        let full = lp.chars().count() <= l_full;
        value_cases(lp, full, &rep, &mut |c| {
            t.states += 1;
            let v = eval_value(&c, t);
            emit(&|| val_json(&c), v);
            if t.states % 60_000 == 11 {
                t.sample(|| val_json(&c));
            }
        });
    });
    report.set("family_a_localparts", json!(lps.len()));

    // (a2) custom actions through the reference text
    let custom_alphabet = ["a", "&", "=", "%", "#", "+", " ", "é", "4", "1", "2", "5", "/", "?"];
    let customs = all_strings(&custom_alphabet, if args.tier.is_thorough() { 4 } else { 3 });
    par_shards(&report, customs.len().div_ceil(64), |i, t| {
        for a in &customs[i * 64..((i + 1) * 64).min(customs.len())] {
            if a.is_empty() || a == "join" || a == "chat" {
                continue;
            }
            let v = eval_custom_action(a, t);
            emit(&|| json!({"custom_action": a}), v);
        }
    });
    report.set("family_a2_custom_actions", json!(customs.len()));

    // (b) values reachable only by parsing
    let mut texts: BTreeSet<(u8, String)> = BTreeSet::new();
    let actions = all_strings(&ACTION_ALPHABET, l_action);
    for a in &actions {
        for path in ["u/a:x", "roomid/a:x", "r/a:x", "roomid/a:x/e/b"] {
            for enc in [form_encode(a), a.clone()] {
                texts.insert((1, format!("matrix:{path}?action={enc}")));
                texts.insert((1, format!("matrix:{path}?via=v.org&action={enc}")));
                texts.insert((1, format!("matrix:{path}?action={enc}&via=v.org")));
            }
        }
    }
    // nested percent-encodings of an action: a value that still contains an escape sequence after one
    // decoding (`%41`, `%25`, invalid UTF-8 `%e9`) — decoding twice, or not at all, breaks the round trip
    for base in ["%41", "a%41b", "%25", "%e9", "%C3%A9", "%", "100%", "%2541"] {
        let mut enc = base.to_owned();
        for _level in 0..3 {
            enc = form_encode(&enc);
            for path in ["u/a:x", "roomid/a:x/e/b"] {
                texts.insert((1, format!("matrix:{path}?action={enc}")));
                texts.insert((1, format!("matrix:{path}?via=v.org&action={enc}")));
            }
        }
    }
    let n_actions = texts.len();
    for lr in &rep {
        for le in &rep {
            for room in id_forms('!', lr, true).into_iter().chain(id_forms('#', lr, false)) {
                for ev in id_forms('$', le, true) {
                    let (r, e) = (form_encode(&room), form_encode(&ev));
                    texts.insert((0, format!("{TO_BASE}{e}/{r}")));
                    texts.insert((0, format!("{TO_BASE}{r}/{e}/")));
                    let ty = if room.starts_with('!') { "roomid" } else { "r" };
                    texts.insert((1, format!("matrix:e/{}/{ty}/{}", form_encode(&ev[1..]), form_encode(&room[1..]))));
                    texts.insert((1, format!("matrix:{ty}/{}/event/{}", form_encode(&room[1..]), form_encode(&ev[1..]))));
                }
            }
        }
    }
    let n_reversed = texts.len() - n_actions;
    // single-edit mutants of valid URIs
    let mutant_alphabet = ["/", "?", "#", "%", "&", "=", ":", "!", "$", "@", "a", "2", "5", "é", " "];
    for (w, uri) in VALID_URIS {
        let tag = if w == Which::To { 0 } else { 1 };
        texts.insert((tag, uri.to_owned()));
        idfam::single_edit_mutants(uri, &mutant_alphabet, &mut |s| {
            texts.insert((tag, s));
        });
    }
    let n_mutants = texts.len() - n_actions - n_reversed;
    let texts: Vec<(u8, String)> = texts.into_iter().collect();
    let chunk = 256;
    par_shards(&report, texts.len().div_ceil(chunk), |i, t| {
        for (tag, s) in &texts[i * chunk..((i + 1) * chunk).min(texts.len())] {
            let w = if *tag == 0 { Which::To } else { Which::Matrix };
            t.states += 1;
            let v = eval_text(w, s, t);
            emit(&|| text_json(w, s), v);
            if t.states % 9000 == 3 {
                t.sample(|| text_json(w, s));
            }
        }
    });
    for (w, uri) in VALID_URIS {
        // the seeds are valid URIs written out by hand from the spec's examples: a parser that
        // rejects one breaks "parsing the text back yields the same value" for a valid URI
        if let Err(e) = AnyUri::parse(w, uri) {
            let kind = if w == Which::To { "MatrixToUri" } else { "MatrixUri" };
            report.violation(
                &format!("valid-uri-rejected/{kind}"),
                || format!("valid URI {uri} is rejected: {e:?}"),
                || text_json(w, uri),
            );
        }
    }
    report.set("family_b_action_texts", json!(n_actions));
    report.set("family_b_reversed_order_texts", json!(n_reversed));
    report.set("family_c_mutants", json!(n_mutants));

    // (c) all texts up to the bound after each base prefix
    let run_texts = |w: Which, base: &str, alphabet: &[&str], max_len: usize| {
        let n = alphabet.len();
        par_shards(&report, n * n + 1, |i, t| {
            let mut run = |s: &str| {
                t.states += 1;
                let v = eval_text(w, s, t);
                emit(&|| text_json(w, s), v);
                if t.states % 200_000 == 17 {
                    t.sample(|| text_json(w, s));
                }
            };
            if i == n * n {
                let mut short = |tail: &str| run(&format!("{base}{tail}"));
                engine::for_all_strings(alphabet, 1, &mut short);
            } else {
                let prefix = format!("{base}{}{}", alphabet[i / n], alphabet[i % n]);
                for l in 2..=max_len {
                    engine::for_strings_with_prefix(alphabet, &prefix, l - 2, &mut run);
                }
            }
        });
    };
    run_texts(Which::To, TO_BASE, &TO_TEXT_ALPHABET, n_to);
    run_texts(Which::Matrix, "matrix:", &URI_TEXT_TOKENS, n_uri);
    let count = |n: usize, l: usize| (0..=l as u32).map(|k| (n as u64).pow(k)).sum::<u64>();
    report.set("family_c_matrix_to_texts", json!(count(TO_TEXT_ALPHABET.len(), n_to)));
    report.set("family_c_matrix_scheme_texts", json!(count(URI_TEXT_TOKENS.len(), n_uri)));
    report.finish()
}

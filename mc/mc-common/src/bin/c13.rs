//! C13 — push ruleset edits follow the placement semantics, never panic, fail atomically.
//!
//! S-explorer: a `stateright::Model` whose `next_state` rebuilds a real `Ruleset` from the
//! state's canonical serialised form, calls the real `Ruleset::{insert, remove, set_enabled,
//! set_actions}` and compares with the list reference model carried in the same state
//! (mc_common::push_model::ref_edit, DESIGN.md §3 C13). The `always` property is false only
//! for violations that are not open known findings; after a known finding the successor is
//! taken from the reference (resync). The depth is part of the state so that the parallel
//! search explores the same set of states on every run; every configuration is checked twice
//! and the counts compared.

use std::{
    collections::BTreeMap,
    sync::{
        atomic::{AtomicBool, AtomicU64, Ordering::Relaxed},
        Arc, Mutex,
    },
    time::Instant,
};

use engine::{catch, machinery_error, parse_args, replay_and_exit, Report, Tally, Tier};
use mc_common::push_model::{ids_unique, ref_edit, OpM, RefEdit, RuleM, RulesetM, KINDS, MASTER};
use ruma_common::{
    push::{
        Action, ConditionalPushRule, ConditionalPushRuleInit, InsertPushRuleError, NewConditionalPushRule,
        NewPatternedPushRule, NewPushRule, NewSimplePushRule, PatternedPushRule, PatternedPushRuleInit,
        PushCondition, RemovePushRuleError, RuleKind, Ruleset, SimplePushRule, SimplePushRuleInit, Tweak,
    },
    OwnedRoomId, OwnedUserId, UserId,
};
use serde_json::{json, Value};
use stateright::{Checker, Model, Property};

// ---------------------------------------------------------------------------------------
// real ruleset <-> list model

fn js<T: serde::Serialize>(t: &T) -> String {
    serde_json::to_string(t).expect("serialize")
}

fn to_model(rs: &Ruleset) -> RulesetM {
    let mut m = RulesetM::default();
    m.kinds[0] = rs
        .override_
        .iter()
        .map(|r| RuleM { id: r.rule_id.clone(), enabled: r.enabled, default: r.default, actions: js(&r.actions), body: js(&r.conditions) })
        .collect();
    m.kinds[1] = rs
        .content
        .iter()
        .map(|r| RuleM { id: r.rule_id.clone(), enabled: r.enabled, default: r.default, actions: js(&r.actions), body: js(&r.pattern) })
        .collect();
    m.kinds[2] = rs
        .room
        .iter()
        .map(|r| RuleM { id: r.rule_id.to_string(), enabled: r.enabled, default: r.default, actions: js(&r.actions), body: String::new() })
        .collect();
    m.kinds[3] = rs
        .sender
        .iter()
        .map(|r| RuleM { id: r.rule_id.to_string(), enabled: r.enabled, default: r.default, actions: js(&r.actions), body: String::new() })
        .collect();
    m.kinds[4] = rs
        .underride
        .iter()
        .map(|r| RuleM { id: r.rule_id.clone(), enabled: r.enabled, default: r.default, actions: js(&r.actions), body: js(&r.conditions) })
        .collect();
    m
}

fn actions_of(s: &str) -> Vec<Action> {
    serde_json::from_str(s).unwrap_or_else(|e| machinery_error(&format!("actions {s}: {e}")))
}
fn conditions_of(s: &str) -> Vec<PushCondition> {
    serde_json::from_str(s).unwrap_or_else(|e| machinery_error(&format!("conditions {s}: {e}")))
}
fn pattern_of(s: &str) -> String {
    serde_json::from_str(s).unwrap_or_else(|e| machinery_error(&format!("pattern {s}: {e}")))
}

/// build a real ruleset from the list model (initial states and resynchronisation)
fn from_model(m: &RulesetM) -> Ruleset {
    let cond = |r: &RuleM| {
        ConditionalPushRule::from(ConditionalPushRuleInit {
            actions: actions_of(&r.actions),
            default: r.default,
            enabled: r.enabled,
            rule_id: r.id.clone(),
            conditions: conditions_of(&r.body),
        })
    };
    let mut rs = Ruleset::new();
    rs.override_ = m.kinds[0].iter().map(cond).collect();
    rs.content = m.kinds[1]
        .iter()
        .map(|r| {
            PatternedPushRule::from(PatternedPushRuleInit {
                actions: actions_of(&r.actions),
                default: r.default,
                enabled: r.enabled,
                rule_id: r.id.clone(),
                pattern: pattern_of(&r.body),
            })
        })
        .collect();
    rs.room = m.kinds[2]
        .iter()
        .map(|r| {
            SimplePushRule::from(SimplePushRuleInit {
                actions: actions_of(&r.actions),
                default: r.default,
                enabled: r.enabled,
                rule_id: OwnedRoomId::try_from(r.id.as_str()).unwrap_or_else(|_| machinery_error("room id")),
            })
        })
        .collect();
    rs.sender = m.kinds[3]
        .iter()
        .map(|r| {
            SimplePushRule::from(SimplePushRuleInit {
                actions: actions_of(&r.actions),
                default: r.default,
                enabled: r.enabled,
                rule_id: OwnedUserId::try_from(r.id.as_str()).unwrap_or_else(|_| machinery_error("user id")),
            })
        })
        .collect();
    rs.underride = m.kinds[4].iter().map(cond).collect();
    rs
}

fn rule_kind(kind: usize) -> RuleKind {
    match kind {
        0 => RuleKind::Override,
        1 => RuleKind::Content,
        2 => RuleKind::Room,
        3 => RuleKind::Sender,
        _ => RuleKind::Underride,
    }
}

/// run the real operation; `Ok(())` or the name of the error
fn apply_real(rs: &mut Ruleset, op: &OpM) -> Result<(), String> {
    match op {
        OpM::Insert { kind, id, actions, body, after, before } => {
            let actions = actions_of(actions);
            let rule = match kind {
                0 => NewPushRule::Override(NewConditionalPushRule::new(id.clone(), conditions_of(body), actions)),
                4 => NewPushRule::Underride(NewConditionalPushRule::new(id.clone(), conditions_of(body), actions)),
                1 => NewPushRule::Content(NewPatternedPushRule::new(id.clone(), pattern_of(body), actions)),
                2 => NewPushRule::Room(NewSimplePushRule::new(
                    OwnedRoomId::try_from(id.as_str()).unwrap_or_else(|_| machinery_error("room id in alphabet")),
                    actions,
                )),
                _ => NewPushRule::Sender(NewSimplePushRule::new(
                    OwnedUserId::try_from(id.as_str()).unwrap_or_else(|_| machinery_error("user id in alphabet")),
                    actions,
                )),
            };
            rs.insert(rule, after.as_deref(), before.as_deref()).map_err(|e| {
                match e {
                    InsertPushRuleError::ServerDefaultRuleId => "server-default-rule-id",
                    InsertPushRuleError::InvalidRuleId => "invalid-rule-id",
                    InsertPushRuleError::RelativeToServerDefaultRule => "relative-to-server-default",
                    InsertPushRuleError::UnknownRuleId => "unknown-rule-id",
                    InsertPushRuleError::BeforeHigherThanAfter => "before-higher-than-after",
                    _ => "other",
                }
                .to_owned()
            })
        }
        OpM::Remove { kind, id } => rs.remove(rule_kind(*kind), id).map_err(|e| {
            match e {
                RemovePushRuleError::ServerDefault => "server-default",
                RemovePushRuleError::NotFound => "not-found",
                _ => "other",
            }
            .to_owned()
        }),
        OpM::SetEnabled { kind, id, enabled } => {
            rs.set_enabled(rule_kind(*kind), id, *enabled).map_err(|_| "not-found".to_owned())
        }
        OpM::SetActions { kind, id, actions } => {
            rs.set_actions(rule_kind(*kind), id, actions_of(actions)).map_err(|_| "not-found".to_owned())
        }
    }
}

// ---------------------------------------------------------------------------------------
// operation alphabet

/// An operation of the alphabet. The payload of an inserted rule is not part of the alphabet:
/// it is always chosen different from the payload of the rule it replaces (so that replacement
/// is observable) and is variant 0 for a new rule.
#[derive(Clone, Debug, PartialEq, Eq)]
enum Act {
    Insert { kind: usize, id: String, after: Option<String>, before: Option<String> },
    Remove { kind: usize, id: String },
    SetEnabled { kind: usize, id: String, enabled: bool },
    SetActions { kind: usize, id: String, variant: usize },
}

fn insert_actions(variant: usize) -> String {
    match variant {
        0 => js(&vec![Action::Notify]),
        _ => js(&vec![Action::SetTweak(Tweak::Highlight(true))]),
    }
}

fn insert_body(kind: usize, variant: usize) -> String {
    match kind {
        0 | 4 => {
            if variant == 0 {
                js(&Vec::<PushCondition>::new())
            } else {
                js(&vec![PushCondition::EventMatch { key: "type".into(), pattern: "p1".into() }])
            }
        }
        1 => js(&format!("p{variant}")),
        _ => String::new(),
    }
}

fn set_actions_payload(variant: usize) -> String {
    match variant {
        0 => js(&Vec::<Action>::new()),
        _ => js(&vec![Action::Notify, Action::SetTweak(Tweak::Sound("s".into()))]),
    }
}

fn to_op(a: &Act, pre: &RulesetM) -> OpM {
    match a {
        Act::Insert { kind, id, after, before } => {
            let existing = pre.kinds[*kind].iter().find(|r| r.id == *id);
            // differs from what is there: in the body for conditional / patterned rules, in the
            // actions for simple ones
            let variant = match existing {
                None => 0,
                Some(r) => {
                    let is_v0 = if matches!(*kind, 2 | 3) { r.actions == insert_actions(0) } else { r.body == insert_body(*kind, 0) };
                    usize::from(is_v0)
                }
            };
            OpM::Insert {
                kind: *kind,
                id: id.clone(),
                actions: insert_actions(variant),
                body: insert_body(*kind, variant),
                after: after.clone(),
                before: before.clone(),
            }
        }
        Act::Remove { kind, id } => OpM::Remove { kind: *kind, id: id.clone() },
        Act::SetEnabled { kind, id, enabled } => OpM::SetEnabled { kind: *kind, id: id.clone(), enabled: *enabled },
        Act::SetActions { kind, id, variant } => {
            OpM::SetActions { kind: *kind, id: id.clone(), actions: set_actions_payload(*variant) }
        }
    }
}

fn default_id_of(kind: usize) -> &'static str {
    match kind {
        0 => MASTER,
        1 => ".m.rule.contains_user_name",
        4 => ".m.rule.call",
        _ => ".m.rule.none",
    }
}

fn valid_ids(kind: usize) -> Vec<String> {
    match kind {
        2 => vec!["!a:x".into(), "!b:x".into(), "!c:x".into()],
        3 => vec!["@a:x".into(), "@b:x".into(), "@c:x".into()],
        _ => vec!["a".into(), "b".into(), "c".into()],
    }
}

fn invalid_ids(kind: usize) -> Vec<String> {
    match kind {
        // typed ids cannot start with `.`; `/` is what a typed id can still smuggle in
        2 => ["!a/b:x"].into_iter().filter(|s| OwnedRoomId::try_from(*s).is_ok()).map(str::to_owned).collect(),
        3 => ["@a/b:x"].into_iter().filter(|s| OwnedUserId::try_from(*s).is_ok()).map(str::to_owned).collect(),
        _ => vec![default_id_of(kind).into(), ".x".into(), "a/b".into(), "a\\b".into()],
    }
}

fn alphabet(kinds: &[usize]) -> Vec<Act> {
    let mut v = vec![];
    for &kind in kinds {
        let ids = valid_ids(kind);
        let missing = match kind {
            2 => "!missing:x",
            3 => "@missing:x",
            _ => "missing",
        };
        let mut anchors: Vec<Option<String>> = vec![None];
        anchors.extend(ids.iter().cloned().map(Some));
        anchors.push(Some(missing.to_owned()));
        // the empty string names no rule either (and is not "no anchor")
        anchors.push(Some(String::new()));
        anchors.push(Some(default_id_of(kind).to_owned()));
        for id in &ids {
            for after in &anchors {
                for before in &anchors {
                    v.push(Act::Insert { kind, id: id.clone(), after: after.clone(), before: before.clone() });
                }
            }
        }
        for id in invalid_ids(kind) {
            v.push(Act::Insert { kind, id: id.clone(), after: None, before: None });
            v.push(Act::Insert { kind, id: id.clone(), after: Some(ids[0].clone()), before: None });
        }
        for id in ids.iter().map(String::as_str).chain([default_id_of(kind), missing]) {
            v.push(Act::Remove { kind, id: id.to_owned() });
        }
        for id in [ids[0].as_str(), ids[1].as_str(), default_id_of(kind), missing] {
            for enabled in [false, true] {
                v.push(Act::SetEnabled { kind, id: id.to_owned(), enabled });
            }
        }
        for id in [ids[0].as_str(), default_id_of(kind), missing] {
            for variant in 0..2 {
                v.push(Act::SetActions { kind, id: id.to_owned(), variant });
            }
        }
    }
    v
}

// ---------------------------------------------------------------------------------------
// one transition: real code vs reference

fn op_class(op: &OpM, pre: &RulesetM, reference: &RefEdit) -> String {
    match op {
        OpM::Insert { kind, id, after, before, .. } => {
            let list = &pre.kinds[*kind];
            let pos = |x: &str| list.iter().position(|r| r.id == x);
            let existing = pos(id);
            let ne = if existing.is_some() { "existing" } else { "new" };
            let how = match (after, before) {
                (None, None) => "unpositioned",
                (Some(_), None) => "after",
                (None, Some(_)) => "before",
                (Some(_), Some(_)) => "after+before",
            };
            match reference {
                RefEdit::Err(e) => format!("insert/{ne}/{how}/invalid-{e}"),
                RefEdit::SelfAnchored => format!("insert/{ne}/{how}/self-anchored"),
                RefEdit::Ok(_) => match (existing, how) {
                    (None, "unpositioned") => {
                        let head = if list.is_empty() {
                            "empty-list"
                        } else if list[0].id == MASTER {
                            "master-first"
                        } else {
                            "no-master"
                        };
                        format!("insert/new/unpositioned/{}/{head}", KINDS[*kind])
                    }
                    (None, _) => {
                        let anchor = before.as_deref().or(after.as_deref()).and_then(pos).unwrap_or(0);
                        let end = if before.is_none() && anchor + 1 == list.len() { "behind-last" } else { "inner" };
                        format!("insert/new/{how}/{end}")
                    }
                    (Some(_), "unpositioned") => "insert/existing/unpositioned".into(),
                    (Some(from), _) => {
                        let anchor = before.as_deref().or(after.as_deref()).and_then(pos).unwrap_or(0);
                        let dir = if anchor > from { "moving-down" } else { "moving-up" };
                        let end = if before.is_none() && anchor + 1 == list.len() { "behind-last" } else { "inner" };
                        format!("insert/existing/{how}/{dir}/{end}")
                    }
                },
            }
        }
        OpM::Remove { kind, id } => match pre.kinds[*kind].iter().find(|r| r.id == *id) {
            None => "remove/missing".into(),
            Some(r) if r.default => "remove/server-default".into(),
            Some(_) => "remove/user-rule".into(),
        },
        OpM::SetEnabled { kind, id, .. } => {
            format!("set_enabled/{}", if pre.kinds[*kind].iter().any(|r| r.id == *id) { "present" } else { "missing" })
        }
        OpM::SetActions { kind, id, .. } => {
            format!("set_actions/{}", if pre.kinds[*kind].iter().any(|r| r.id == *id) { "present" } else { "missing" })
        }
    }
}

/// where the re-inserted rule stood relative to each of its anchors (coverage family)
fn reinsert_relations(op: &OpM, pre: &RulesetM) -> Vec<&'static str> {
    let OpM::Insert { kind, id, after, before, .. } = op else { return vec![] };
    let list = &pre.kinds[*kind];
    let pos = |x: &str| list.iter().position(|r| r.id == x);
    let Some(from) = pos(id) else { return vec![] };
    let mut out = vec![];
    for anchor in [after, before].into_iter().flatten() {
        if let Some(a) = pos(anchor) {
            out.push(if a == from {
                "anchor-is-the-rule"
            } else if a + 1 == from {
                "anchor-directly-in-front"
            } else if a < from {
                "anchor-in-front-not-adjacent"
            } else if a == from + 1 {
                "anchor-directly-behind"
            } else {
                "anchor-behind-not-adjacent"
            });
        }
    }
    out
}

fn what_differs(got: &RulesetM, want: &RulesetM, kind: usize) -> &'static str {
    for k in 0..5 {
        if k != kind && got.kinds[k] != want.kinds[k] {
            return "other-kind-changed";
        }
    }
    let (g, w) = (&got.kinds[kind], &want.kinds[kind]);
    let ids = |l: &Vec<RuleM>| l.iter().map(|r| r.id.clone()).collect::<Vec<_>>();
    if ids(g) != ids(w) {
        let mut a = ids(g);
        let mut b = ids(w);
        a.sort();
        b.sort();
        return if a == b { "order" } else { "rule-set" };
    }
    if g.iter().zip(w).any(|(x, y)| x.enabled != y.enabled) {
        return "enabled-flag";
    }
    if g.iter().zip(w).any(|(x, y)| x.default != y.default) {
        return "default-flag";
    }
    "payload"
}

struct Step {
    op: OpM,
    class: String,
    /// Ok / Err name / panic of the real code
    result: String,
    violations: Vec<(String, String)>,
    unspecified: bool,
    /// successor if the step is accepted as is
    real_next: Option<(String, RulesetM)>,
    /// successor prescribed by the reference (None for the unspecified zone)
    ref_next: Option<RulesetM>,
}

fn op_json(op: &OpM) -> Value {
    match op {
        OpM::Insert { kind, id, actions, body, after, before } => {
            json!({"op": "insert", "kind": KINDS[*kind], "id": id, "actions": actions, "body": body, "after": after, "before": before})
        }
        OpM::Remove { kind, id } => json!({"op": "remove", "kind": KINDS[*kind], "id": id}),
        OpM::SetEnabled { kind, id, enabled } => json!({"op": "set_enabled", "kind": KINDS[*kind], "id": id, "enabled": enabled}),
        OpM::SetActions { kind, id, actions } => json!({"op": "set_actions", "kind": KINDS[*kind], "id": id, "actions": actions}),
    }
}

fn op_from_json(v: &Value) -> OpM {
    let s = |k: &str| v[k].as_str().unwrap_or("").to_owned();
    let o = |k: &str| v[k].as_str().map(str::to_owned);
    let kind = KINDS.iter().position(|k| *k == s("kind")).unwrap_or_else(|| machinery_error("bad kind in replay"));
    match s("op").as_str() {
        "insert" => OpM::Insert { kind, id: s("id"), actions: s("actions"), body: s("body"), after: o("after"), before: o("before") },
        "remove" => OpM::Remove { kind, id: s("id") },
        "set_enabled" => OpM::SetEnabled { kind, id: s("id"), enabled: v["enabled"].as_bool().unwrap_or(false) },
        "set_actions" => OpM::SetActions { kind, id: s("id"), actions: s("actions") },
        other => machinery_error(&format!("bad op {other:?} in replay")),
    }
}

fn op_kind(op: &OpM) -> usize {
    match op {
        OpM::Insert { kind, .. } | OpM::Remove { kind, .. } | OpM::SetEnabled { kind, .. } | OpM::SetActions { kind, .. } => *kind,
    }
}

fn describe(pre: &RulesetM, op: &OpM) -> String {
    let lists: Vec<String> = (0..5)
        .filter(|k| !pre.kinds[*k].is_empty())
        .map(|k| {
            format!(
                "{}=[{}]",
                KINDS[k],
                pre.kinds[k].iter().map(|r| format!("{}{}", r.id, if r.enabled { "" } else { "(off)" })).collect::<Vec<_>>().join(" ")
            )
        })
        .collect();
    format!("{} on {{{}}}", op_json(op), lists.join(" "))
}

thread_local! {
    /// the last ruleset rebuilt on this thread: a state is expanded with every action of the
    /// alphabet in a row, so the (expensive) deserialisation is done once per state and thread
    static REBUILT: std::cell::RefCell<Option<(String, Ruleset)>> = const { std::cell::RefCell::new(None) };
}

/// the real ruleset of a state, rebuilt from its canonical serialised form
fn rebuild(pre_real: &str, pre: &RulesetM) -> Ruleset {
    REBUILT.with(|c| {
        let mut c = c.borrow_mut();
        if !c.as_ref().is_some_and(|(text, _)| text == pre_real) {
            let rs: Ruleset = serde_json::from_str(pre_real)
                .unwrap_or_else(|e| machinery_error(&format!("cannot rebuild the ruleset from its canonical form: {e}")));
            // the rebuilt object must be the state: same serialised form, same list model
            if js(&rs) != pre_real || to_model(&rs) != *pre {
                machinery_error("rebuilt ruleset differs from the state");
            }
            *c = Some((pre_real.to_owned(), rs));
        }
        c.as_ref().unwrap().1.clone()
    })
}

fn eval_step(pre_real: &str, pre: &RulesetM, op: OpM) -> Step {
    let mut rs = rebuild(pre_real, pre);
    let reference = ref_edit(pre, &op);
    let class = op_class(&op, pre, &reference);
    let kind = op_kind(&op);
    let mut violations = vec![];
    let got = catch(|| apply_real(&mut rs, &op));
    let post = catch(|| {
        let text = js(&rs);
        // unchanged serialised form = unchanged ruleset (the form is faithful, see `rebuild`)
        let model = if text == pre_real { pre.clone() } else { to_model(&rs) };
        (text, model)
    });
    let ctx = || describe(pre, &op);
    let (result, real_next) = match (got, post) {
        (Err(p), _) | (_, Err(p)) => {
            violations.push((format!("panic/{}/{class}", p.file()), format!("{}: {}", ctx(), p.text)));
            ("panic".to_owned(), None)
        }
        (Ok(r), Ok((text, model))) => {
            if !ids_unique(&model) {
                violations.push((format!("duplicate-id/{class}"), format!("{}: {:?}", ctx(), model.kinds[kind])));
            }
            match (&r, &reference) {
                (Err(e), _) if model != *pre => {
                    violations.push((
                        format!("not-atomic/{class}"),
                        format!("{}: returned Err({e}) but the {} list became {:?}", ctx(), KINDS[kind], ids_of(&model.kinds[kind])),
                    ));
                }
                (Ok(()), RefEdit::Err(e)) => violations.push((
                    format!("accepts-invalid/{class}"),
                    format!("{}: must fail ({e}) but returned Ok; list {:?}", ctx(), ids_of(&model.kinds[kind])),
                )),
                (Err(e), RefEdit::Ok(_)) => violations.push((format!("rejects-valid/{class}"), format!("{}: must succeed but returned Err({e})", ctx()))),
                (Ok(()), RefEdit::Ok(want)) if model != *want => {
                    let what = what_differs(&model, want, kind);
                    violations.push((
                        format!("{what}/{class}"),
                        format!("{}: {} list is {:?}, placement semantics give {:?}", ctx(), KINDS[kind], show(&model.kinds[kind]), show(&want.kinds[kind])),
                    ));
                }
                (Ok(()), RefEdit::SelfAnchored) => {
                    // weak invariants of the unspecified zone
                    let OpM::Insert { id, actions, body, .. } = &op else { unreachable!() };
                    let others = |m: &RulesetM| m.kinds[kind].iter().filter(|r| r.id != *id).cloned().collect::<Vec<_>>();
                    let mine: Vec<&RuleM> = model.kinds[kind].iter().filter(|r| r.id == *id).collect();
                    let was = pre.kinds[kind].iter().find(|r| r.id == *id);
                    let ok = others(&model) == others(pre)
                        && (0..5).all(|k| k == kind || model.kinds[k] == pre.kinds[k])
                        && mine.len() == 1
                        && mine[0].actions == *actions
                        && mine[0].body == *body
                        && !mine[0].default
                        && mine[0].enabled == was.map(|r| r.enabled).unwrap_or(true);
                    if !ok {
                        violations.push((format!("self-anchored-side-effect/{class}"), format!("{}: list became {:?}", ctx(), show(&model.kinds[kind]))));
                    }
                }
                _ => {}
            }
            (if let Err(e) = &r { format!("err-{e}") } else { "ok".to_owned() }, Some((text, model)))
        }
    };
    let ref_next = match &reference {
        RefEdit::Ok(m) => Some(m.clone()),
        RefEdit::Err(_) => Some(pre.clone()),
        RefEdit::SelfAnchored => None,
    };
    Step { op, class, result, violations, unspecified: reference == RefEdit::SelfAnchored, real_next, ref_next }
}

fn ids_of(l: &[RuleM]) -> Vec<&str> {
    l.iter().map(|r| r.id.as_str()).collect()
}

fn show(l: &[RuleM]) -> Vec<String> {
    l.iter().map(|r| format!("{}{}{}", r.id, if r.enabled { "" } else { "(off)" }, if r.body.len() > 2 && !r.default { "'" } else { "" })).collect()
}

// ---------------------------------------------------------------------------------------
// the stateright model

#[derive(Clone, Debug, PartialEq, Eq, Hash)]
struct St {
    /// the real ruleset, canonical serialised form
    real: String,
    /// the reference list model
    model: RulesetM,
    /// number of operations applied (part of the key: the parallel search must expand every
    /// state reached within the bound, also when it was first reached by a longer path)
    depth: u8,
    /// signature of a violation that is not an open known finding
    bad: Option<String>,
}

#[derive(Default)]
struct Shared {
    recording: AtomicBool,
    transitions: AtomicU64,
    unspecified: AtomicU64,
    resyncs: AtomicU64,
    /// sharded by thread to keep the hot path free of contention
    outcomes: [Mutex<BTreeMap<(&'static str, String), u64>>; 32],
    /// sig -> (count, detail, case)
    violations: Mutex<BTreeMap<String, (u64, String, Value)>>,
    /// a few explored transitions, chosen by a fixed hash of (state, operation)
    samples: Mutex<Vec<Value>>,
}

fn thread_slot() -> usize {
    static NEXT: std::sync::atomic::AtomicUsize = std::sync::atomic::AtomicUsize::new(0);
    thread_local! { static SLOT: usize = NEXT.fetch_add(1, Relaxed); }
    SLOT.with(|s| *s)
}

struct PushModel {
    name: String,
    init: Ruleset,
    alphabet: Vec<Act>,
    depth: u8,
    report: Arc<Report>,
    shared: Arc<Shared>,
}

impl PushModel {
    fn step(&self, s: &St, a: &Act) -> St {
        let op = to_op(a, &s.model);
        let relations = reinsert_relations(&op, &s.model);
        let step = eval_step(&s.real, &s.model, op);
        let recording = self.shared.recording.load(Relaxed);
        if recording {
            self.shared.transitions.fetch_add(1, Relaxed);
            if step.unspecified {
                self.shared.unspecified.fetch_add(1, Relaxed);
            }
            let mut o = self.shared.outcomes[thread_slot() % 32].lock().unwrap();
            *o.entry(("edit/class", step.class.clone())).or_default() += 1;
            *o.entry(("edit/result", step.result.clone())).or_default() += 1;
            for r in &relations {
                *o.entry(("edit/reinsert-relation", (*r).to_owned())).or_default() += 1;
            }
            drop(o);
            if engine::fixed_hash(&(&s.real, s.depth, format!("{a:?}"))) % 20011 == 0 {
                let lists = |m: &RulesetM| {
                    (0..5).filter(|k| !m.kinds[*k].is_empty()).map(|k| (KINDS[k].to_owned(), json!(show(&m.kinds[k])))).collect::<serde_json::Map<_, _>>()
                };
                let mut v = self.shared.samples.lock().unwrap();
                if v.len() < 2000 {
                    v.push(json!({
                        "config": self.name, "operations_before": s.depth, "ruleset": lists(&s.model), "op": op_json(&step.op),
                        "class": step.class, "result": step.result,
                        "ruleset_after": step.real_next.as_ref().map(|(_, m)| lists(m)),
                    }));
                }
            }
        }
        let mut bad = None;
        if !step.violations.is_empty() {
            let mut v = self.shared.violations.lock().unwrap();
            for (sig, detail) in &step.violations {
                if recording {
                    let e = v.entry(sig.clone()).or_insert_with(|| {
                        (0, detail.clone(), json!({"pre": serde_json::from_str::<Value>(&s.real).unwrap_or(Value::Null), "op": op_json(&step.op), "config": self.name}))
                    });
                    e.0 += 1;
                }
                if !self.report.is_known_open(sig) && bad.is_none() {
                    bad = Some(sig.clone());
                }
            }
        }
        let depth = s.depth + 1;
        if bad.is_some() {
            // a new violation: the state is kept only to carry the verdict
            return St { real: s.real.clone(), model: s.model.clone(), depth, bad };
        }
        if !step.violations.is_empty() {
            // open known finding: continue from what the reference prescribes
            if recording {
                self.shared.resyncs.fetch_add(1, Relaxed);
            }
            let model = step.ref_next.unwrap_or_else(|| s.model.clone());
            return St { real: js(&from_model(&model)), model, depth, bad: None };
        }
        let (real, model) = step.real_next.expect("no violation implies no panic");
        St { real, model, depth, bad: None }
    }
}

impl Model for PushModel {
    type State = St;
    type Action = Act;

    fn init_states(&self) -> Vec<St> {
        vec![St { real: js(&self.init), model: to_model(&self.init), depth: 0, bad: None }]
    }

    fn actions(&self, s: &St, actions: &mut Vec<Act>) {
        if s.bad.is_none() && s.depth < self.depth {
            actions.extend(self.alphabet.iter().cloned());
        }
    }

    fn next_state(&self, s: &St, a: Act) -> Option<St> {
        Some(self.step(s, &a))
    }

    fn properties(&self) -> Vec<Property<Self>> {
        vec![Property::always("no violation outside the open known findings", |_, s: &St| s.bad.is_none())]
    }
}

// ---------------------------------------------------------------------------------------

struct Config {
    name: String,
    kinds: Vec<usize>,
    depth: u8,
    server_default: bool,
}

fn configs(tier: Tier) -> Vec<Config> {
    let mut v = vec![];
    let mut add = |label: &str, kinds: &[usize], depth: u8| {
        for server_default in [false, true] {
            v.push(Config {
                name: format!("{label}/depth{depth}/{}", if server_default { "server-default" } else { "empty" }),
                kinds: kinds.to_vec(),
                depth,
                server_default,
            });
        }
    };
    match tier {
        Tier::Quick => {
            add("override+content+underride", &[0, 1, 4], 3);
            add("override", &[0], 5);
            add("content", &[1], 4);
            add("underride", &[4], 4);
            add("room+sender", &[2, 3], 2);
            // each kind has its own arm in insert/remove/set_*: insert, disable, re-insert needs depth 3
            add("room", &[2], 4);
            add("sender", &[3], 4);
        }
        Tier::Thorough => {
            add("override+content+underride", &[0, 1, 4], 5);
            add("override", &[0], 7);
            add("content", &[1], 7);
            add("underride", &[4], 7);
            add("room+sender", &[2, 3], 4);
            add("room", &[2], 6);
            add("sender", &[3], 6);
        }
    }
    v
}

struct RunStats {
    unique_states: usize,
    generated: usize,
    max_depth: usize,
    transitions: u64,
    resyncs: u64,
    unspecified: u64,
    discovery: Option<Vec<Act>>,
    wall: f64,
}

fn run_once(cfg: &Config, tier: Tier, report: &Arc<Report>, shared: &Arc<Shared>) -> RunStats {
    let init = if cfg.server_default {
        Ruleset::server_default(<&UserId>::try_from("@u:x").expect("user id"))
    } else {
        Ruleset::new()
    };
    let model = PushModel {
        name: cfg.name.clone(),
        init,
        alphabet: alphabet(&cfg.kinds),
        depth: cfg.depth,
        report: Arc::clone(report),
        shared: Arc::clone(shared),
    };
    shared.recording.store(true, Relaxed);
    let t0 = Instant::now();
    let builder = model.checker().threads(engine::n_threads());
    // BFS gives minimal counterexamples; DFS keeps the frontier small in the thorough tier
    fn collect<C: Checker<PushModel>>(c: C, shared: &Shared) -> (usize, usize, usize, Option<Vec<Act>>) {
        shared.recording.store(false, Relaxed);
        let counts = (c.unique_state_count(), c.state_count(), c.max_depth());
        // the discovery path is rebuilt by re-executing the model (not recorded)
        let discovery = c.discoveries().into_values().next().map(|p| p.into_actions());
        (counts.0, counts.1, counts.2, discovery)
    }
    let (unique_states, generated, max_depth, discovery) = match tier {
        Tier::Quick => collect(builder.spawn_bfs().join(), shared),
        Tier::Thorough => collect(builder.spawn_dfs().join(), shared),
    };
    RunStats {
        unique_states,
        generated,
        max_depth,
        transitions: shared.transitions.load(Relaxed),
        resyncs: shared.resyncs.load(Relaxed),
        unspecified: shared.unspecified.load(Relaxed),
        discovery,
        wall: t0.elapsed().as_secs_f64(),
    }
}

fn replay(case: &Value) -> Vec<(String, String)> {
    let pre_real = case["pre"].to_string();
    let rs: Ruleset = serde_json::from_str(&pre_real).unwrap_or_else(|e| machinery_error(&format!("bad `pre` in replay: {e}")));
    // canonical form = what ruma serialises
    let pre_real = js(&rs);
    let pre = to_model(&rs);
    eval_step(&pre_real, &pre, op_from_json(&case["op"])).violations
}

fn main() {
    let args = parse_args();
    if let Some(p) = &args.replay {
        replay_and_exit("C13", p, replay);
    }
    let report = Arc::new(Report::new("C13", "model_checking", &args));
    let cfgs = configs(args.tier);
    report.set_rule(&format!(
        "stateright 0.31 Model (checker: {}, {} threads, depth carried in the state), next_state = real \
         Ruleset::insert/remove/set_enabled/set_actions on a Ruleset rebuilt (serde) from the state's canonical JSON; \
         state = (real ruleset JSON, reference list model, depth); `always` property false only for violations that \
         are not open known findings; resync to the reference after a known finding. Alphabet per kind: insert of ids \
         {{a,b,c}} x after in {{none,a,b,c,missing,<server-default id>}} x before in the same set (108), insert of ids \
         {{<server-default id>, .x, a/b, a\\b}} unpositioned and after=a (8), remove of {{a,b,c,<server-default id>,missing}}, \
         set_enabled(true|false) of {{a,b,<server-default id>,missing}}, set_actions(2 variants) of {{a,<server-default \
         id>,missing}}; inserted rules always carry a payload different from the rule they replace; room/sender with typed \
         ids !a:x.. / @a:x.. and !a/b:x. Configurations (kinds/depth/initial ruleset): {}. Every configuration is \
         explored twice and unique-state / transition counts compared. state = unique (ruleset, depth), summed over the configurations; transition = \
         one real edit call; non-trivial = a transition whose result the reference defines (everything except a rule \
         positioned relative to itself)",
        if args.tier.is_thorough() { "spawn_dfs" } else { "spawn_bfs" },
        engine::n_threads(),
        cfgs.iter().map(|c| c.name.clone()).collect::<Vec<_>>().join(", "),
    ));
    report.assume("placement semantics = DESIGN.md §3 C13 / doc comments of Ruleset::insert, transcribed in mc_common::push_model::ref_edit");
    report.assume("a rule positioned relative to itself: place not specified (weak invariants only: no panic, unique ids, other rules untouched, atomic on Err)");
    report.assume("which InsertPushRuleError variant is returned is not compared, only Ok / Err");

    // every rule of the server-default ruleset, one by one (the state machine below uses one default rule per kind):
    // its ID starts with `.`, it says it is a server default, it cannot be removed, and the ruleset is unchanged
    {
        let mut t = Tally::new();
        let base = Ruleset::server_default(<&UserId>::try_from("@u:x").unwrap());
        let text0 = js(&base);
        let listed: Vec<(RuleKind, String, bool)> = base
            .iter()
            .map(|r| {
                use ruma_common::push::AnyPushRuleRef as R;
                let kind = match r {
                    R::Override(_) => RuleKind::Override,
                    R::Content(_) => RuleKind::Content,
                    R::Room(_) => RuleKind::Room,
                    R::Sender(_) => RuleKind::Sender,
                    R::Underride(_) => RuleKind::Underride,
                    #[allow(unreachable_patterns)]
                    _ => machinery_error("rule kind this harness does not know"),
                };
                (kind, r.rule_id().to_owned(), r.is_server_default())
            })
            .collect();
        for (kind, id, is_default) in &listed {
            t.states += 1;
            t.nontrivial += 1;
            t.transitions += 1;
            let case = || json!({"predefined": id, "kind": kind.as_str()});
            if !id.starts_with('.') || !*is_default {
                report.violation(
                    &format!("predefined/not-marked-server-default/{id}"),
                    || format!("rule {id} of the server-default ruleset: id starts with '.': {}, is_server_default(): {is_default}", id.starts_with('.')),
                    case,
                );
            }
            let mut rs = base.clone();
            match catch(|| rs.remove(kind.clone(), id)) {
                Err(p) => report.violation(&format!("panic/{}/remove-predefined", p.file()), || p.text.clone(), case),
                Ok(Ok(())) => report.violation(&format!("removes-server-default/{id}"), || format!("remove({kind:?}, {id}) succeeded on the server-default ruleset"), case),
                Ok(Err(_)) => {
                    t.outcome("predefined-remove", "refused");
                    if js(&rs) != text0 {
                        report.violation(&format!("not-atomic/remove-predefined/{id}"), || "the refused removal changed the ruleset".into(), case);
                    }
                }
            }
        }
        report.set("predefined_rules_checked", json!(listed.len()));
        report.merge(t);
    }

    // the canonical form must survive a round trip, otherwise `rebuild from the state` is not faithful
    for sd in [false, true] {
        let rs = if sd { Ruleset::server_default(<&UserId>::try_from("@u:x").unwrap()) } else { Ruleset::new() };
        let text = js(&rs);
        let back: Ruleset = serde_json::from_str(&text).unwrap_or_else(|e| machinery_error(&format!("ruleset round trip: {e}")));
        if js(&back) != text || to_model(&back) != to_model(&rs) || js(&from_model(&to_model(&rs))) != text {
            machinery_error("canonical ruleset form does not round-trip");
        }
    }

    let mut runs = vec![];
    let mut total = Tally::new();
    let mut stopped = false;
    for cfg in &cfgs {
        if stopped {
            break;
        }
        let shared = Arc::new(Shared::default());
        let first = run_once(cfg, args.tier, &report, &shared);
        // merge what the first run saw
        total.states += first.unique_states as u64;
        total.transitions += first.transitions;
        total.unspecified += first.unspecified;
        total.nontrivial += first.transitions - first.unspecified;
        for shard in shared.outcomes.iter() {
            for ((fam, out), n) in shard.lock().unwrap().iter() {
                total.outcome_n(fam, out, *n);
            }
        }
        let mut picked = std::mem::take(&mut *shared.samples.lock().unwrap());
        // the order in which threads pushed is not deterministic: sort, then keep a few
        picked.sort_by_key(|v| v.to_string());
        for v in picked.into_iter().take(3) {
            report.sample(v);
        }
        let viol = std::mem::take(&mut *shared.violations.lock().unwrap());
        let mut new_violation = false;
        for (sig, (count, detail, case)) in viol {
            new_violation |= !report.is_known_open(&sig);
            let mut detail = detail;
            if !report.is_known_open(&sig) {
                if let Some(path) = &first.discovery {
                    detail.push_str(&format!(" | discovery path of this run from the initial ruleset: {path:?}"));
                }
            }
            for i in 0..count {
                let (d, c) = (detail.clone(), case.clone());
                report.violation(&sig, || d, || c);
                if i > 10_000 {
                    break; // the count is informative only
                }
            }
        }
        let mut run = json!({
            "config": cfg.name, "actions": alphabet(&cfg.kinds).len(), "depth_bound": cfg.depth,
            "unique_states": first.unique_states, "generated_states": first.generated,
            "max_depth_reached": first.max_depth.saturating_sub(1), "transitions": first.transitions,
            "resyncs_after_known_findings": first.resyncs, "self_anchored_unspecified": first.unspecified,
            "wall_s": (first.wall * 10.0).round() / 10.0,
        });
        if new_violation || first.discovery.is_some() {
            // the checker stops at the first new violation; counts of a stopped run are not comparable
            stopped = true;
            run["stopped_at_new_violation"] = json!(true);
        } else {
            if first.max_depth.saturating_sub(1) != cfg.depth as usize {
                machinery_error(&format!("{}: search reached depth {} instead of the bound {}", cfg.name, first.max_depth.saturating_sub(1), cfg.depth));
            }
            let again = run_once(cfg, args.tier, &report, &Arc::new(Shared::default()));
            if (again.unique_states, again.transitions, again.resyncs) != (first.unique_states, first.transitions, first.resyncs) {
                machinery_error(&format!(
                    "{}: two runs differ: unique states {} vs {}, transitions {} vs {}, resyncs {} vs {}",
                    cfg.name, first.unique_states, again.unique_states, first.transitions, again.transitions, first.resyncs, again.resyncs
                ));
            }
            run["second_run_identical_counts"] = json!(true);
        }
        runs.push(run);
    }
    report.merge(total);
    report.set("runs", json!(runs));
    report.require_outcomes("edit/result", 3);
    report.require_outcomes("edit/class", 10);
    report.require_outcomes("edit/reinsert-relation", 5);
    let report = Arc::try_unwrap(report).unwrap_or_else(|_| machinery_error("checker still holds the report"));
    report.finish()
}

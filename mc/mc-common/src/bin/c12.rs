//! C12 — push evaluation picks the first matching enabled rule under spec semantics.
//!
//! P-explorer in four parts, every case through the public surface of `ruma_common::push`:
//!  A  glob / word matching: all (pattern, text) pairs over a 9-symbol alphabet up to the tier's
//!     length bounds × {EventMatch on content.body, EventMatch on another key,
//!     ContainsDisplayName, a content rule through Ruleset::get_match};
//!  B  flattening of all JSON objects ≤ 4 nodes over a hostile key alphabet; EventPropertyIs /
//!     EventPropertyContains over scalar × value menus; RoomMemberCount over operators × counts
//!     × thresholds; SenderNotificationPermission over level relations;
//!  C  rule selection: rulesets from a per-kind menu × enabled flags × both orders × events ×
//!     contexts against "first enabled rule in kind order whose reference conditions hold";
//!  D  Raw-valid but Value-invalid events (nesting ladder, out-of-range numbers): no panic.
//! Reference: mc_common::push_model (DESIGN.md §3 C12, Appendix A.6).

use std::collections::BTreeMap;

use engine::{catch, machinery_error, par_shards, parse_args, replay_and_exit, Panicked, Report, Tally, Tier};
use js_int::{Int, UInt};
use mc_common::push_model::{self as pm, CmpOp, RefCond, RefCtx, RefLeaf, RefPower, RefRule, RefScalar, Tri};
use ruma_common::{
    power_levels::NotificationPowerLevels,
    push::{
        Action, AnyPushRuleRef, ComparisonOperator, ConditionalPushRule, ConditionalPushRuleInit,
        FlattenedJson, FlattenedJsonValue, PatternedPushRule, PatternedPushRuleInit, PushCondition,
        PushConditionPowerLevelsCtx, PushConditionRoomCtx, RoomMemberCountIs, Ruleset, ScalarJsonValue,
        SimplePushRule, SimplePushRuleInit, Tweak,
    },
    serde::Raw,
    OwnedRoomId, OwnedUserId,
};
use serde_json::{json, Value};

const ME: &str = "@me:x";

fn raw_of(v: &Value) -> Raw<Value> {
    serde_json::from_str::<Raw<Value>>(&v.to_string()).expect("Raw accepts any JSON value")
}

fn room(id: &str) -> OwnedRoomId {
    OwnedRoomId::try_from(id).expect("room id")
}
fn user(id: &str) -> OwnedUserId {
    OwnedUserId::try_from(id).expect("user id")
}

fn base_ctx(room_id: &str, members: u64, display: &str) -> (PushConditionRoomCtx, RefCtx) {
    let mut users = BTreeMap::new();
    users.insert(user("@alice:x"), Int::from(50));
    let mut notifications = NotificationPowerLevels::new();
    notifications.room = Int::from(50);
    let real = PushConditionRoomCtx {
        room_id: room(room_id),
        member_count: UInt::try_from(members).unwrap(),
        user_id: user(ME),
        user_display_name: display.to_owned(),
        power_levels: Some(PushConditionPowerLevelsCtx { users, users_default: Int::from(0), notifications }),
    };
    let reference = RefCtx {
        room_id: room_id.to_owned(),
        member_count: members,
        user_id: ME.to_owned(),
        display_name: display.to_owned(),
        power: Some(RefPower {
            users: [("@alice:x".to_owned(), 50)].into_iter().collect(),
            users_default: 0,
            room: 50,
        }),
    };
    (real, reference)
}

fn panic_sig(p: &Panicked, class: &str) -> String {
    format!("panic/{}/{}", p.file(), class)
}

// =======================================================================================
// Part A: glob / word matching

#[derive(Clone, Copy, Debug, PartialEq, Eq)]
enum Mode {
    Word,
    Whole,
    Display,
    ContentRule,
}

const MODES: [Mode; 4] = [Mode::Word, Mode::Whole, Mode::Display, Mode::ContentRule];

impl Mode {
    fn name(self) -> &'static str {
        match self {
            Mode::Word => "event_match-content.body",
            Mode::Whole => "event_match-other-key",
            Mode::Display => "contains_display_name",
            Mode::ContentRule => "content-rule-get_match",
        }
    }
    fn family(self) -> &'static str {
        match self {
            Mode::Word => "glob/event_match-content.body",
            Mode::Whole => "glob/event_match-other-key",
            Mode::Display => "glob/contains_display_name",
            Mode::ContentRule => "glob/content-rule-get_match",
        }
    }
    fn from_name(s: &str) -> Mode {
        MODES.into_iter().find(|m| m.name() == s).unwrap_or_else(|| machinery_error("bad mode in replay"))
    }
}

struct TextEnv {
    folded: Vec<char>,
    raw: Raw<Value>,
    flat: FlattenedJson,
}

fn glob_event(text: &str) -> Value {
    json!({
        "type": "m.room.message", "sender": "@other:x", "room_id": "!r:x",
        "content": { "body": text, "k": text, "msgtype": "m.text" }
    })
}

fn text_env(text: &str) -> Result<TextEnv, Panicked> {
    let raw = raw_of(&glob_event(text));
    let flat = catch(|| FlattenedJson::from_raw(&raw))?;
    Ok(TextEnv { folded: pm::fold(text), raw, flat })
}

fn mk_cond(mode: Mode, pattern: &str) -> PushCondition {
    match mode {
        Mode::Word => PushCondition::EventMatch { key: "content.body".into(), pattern: pattern.into() },
        Mode::Whole => PushCondition::EventMatch { key: "content.k".into(), pattern: pattern.into() },
        _ => PushCondition::ContainsDisplayName,
    }
}

fn mk_content_ruleset(pattern: &str) -> Ruleset {
    let mut rs = Ruleset::new();
    rs.content.insert(PatternedPushRule::from(PatternedPushRuleInit {
        actions: vec![Action::Notify],
        default: false,
        enabled: true,
        rule_id: "p".into(),
        pattern: pattern.into(),
    }));
    rs
}

fn glob_expected(mode: Mode, pattern: &str, fp: &[char], ft: &[char]) -> Tri {
    if pattern.is_empty() {
        return Tri::Unspecified; // the spec does not define the empty pattern
    }
    match mode {
        Mode::Whole => Tri::Must(pm::glob(fp, ft)),
        // whether wildcards in a display name are wildcards is not specified
        Mode::Display if pm::has_wildcard(pattern) => Tri::Unspecified,
        _ => Tri::Must(pm::word_glob(fp, ft)),
    }
}

/// The condition as a client receives it: serialized to JSON and parsed back.
fn wire_cond(c: &PushCondition) -> Result<PushCondition, String> {
    serde_json::to_value(c).and_then(serde_json::from_value).map_err(|e| e.to_string())
}

/// `cond` and its JSON round trip must give the same answer on the same event.
fn wire_agrees(family: &str, cond: &PushCondition, ev: &FlattenedJson, ctx: &PushConditionRoomCtx, got: &Result<bool, Panicked>) -> Option<(String, String)> {
    let Ok(g) = got else { return None };
    match wire_cond(cond) {
        Err(e) => Some((format!("wire/{family}/condition-does-not-round-trip"), format!("{cond:?}: {e}"))),
        Ok(w) => match catch(|| w.applies(ev, ctx)) {
            Err(p) => Some((panic_sig(&p, "wire-condition"), p.text)),
            Ok(gw) if gw != *g => Some((
                format!("wire/{family}/parsed-condition-disagrees"),
                format!("{cond:?} applies={g}, after serialize+parse ({w:?}) applies={gw}"),
            )),
            Ok(_) => None,
        },
    }
}

/// run the real code for one (mode, pattern, text)
fn glob_real(
    mode: Mode,
    pattern: &str,
    cond: &PushCondition,
    ruleset: Option<&Ruleset>,
    env: &TextEnv,
    ctx: &mut PushConditionRoomCtx,
) -> Result<bool, Panicked> {
    match mode {
        Mode::Word | Mode::Whole => catch(|| cond.applies(&env.flat, ctx)),
        Mode::Display => {
            ctx.user_display_name.clear();
            ctx.user_display_name.push_str(pattern);
            catch(|| cond.applies(&env.flat, ctx))
        }
        Mode::ContentRule => {
            let rs = ruleset.expect("ruleset for content mode");
            catch(|| rs.get_match(&env.raw, ctx).is_some())
        }
    }
}

fn glob_violation(mode: Mode, pattern: &str, text: &str, exp: Tri, got: &Result<bool, Panicked>) -> Option<(String, String)> {
    match (exp, got) {
        (_, Err(p)) => Some((
            panic_sig(p, &format!("glob-{}-{}", mode.name(), pm::pattern_class(pattern))),
            format!("pattern {pattern:?} text {text:?}: {}", p.text),
        )),
        (Tri::Must(e), Ok(g)) if e != *g => Some((
            format!(
                "glob/{}/{}/{}/{}",
                mode.name(),
                pm::pattern_class(pattern),
                pm::text_class(text),
                if e { "should-match" } else { "should-not-match" }
            ),
            format!("{}: pattern {pattern:?} text {text:?}: reference {e}, ruma {g}", mode.name()),
        )),
        _ => None,
    }
}

fn glob_case_json(mode: Mode, pattern: &str, text: &str) -> Value {
    json!({"part": "glob", "mode": mode.name(), "pattern": pattern, "text": text})
}

fn glob_replay(case: &Value) -> Vec<(String, String)> {
    let mode = Mode::from_name(case["mode"].as_str().unwrap_or(""));
    let pattern = case["pattern"].as_str().unwrap_or("");
    let text = case["text"].as_str().unwrap_or("");
    let env = match text_env(text) {
        Ok(e) => e,
        Err(p) => return vec![(panic_sig(&p, "from_raw-glob-event"), p.text)],
    };
    let (mut ctx, _) = base_ctx("!r:x", 2, "dn");
    let cond = mk_cond(mode, pattern);
    let rs = mk_content_ruleset(pattern);
    let got = glob_real(mode, pattern, &cond, Some(&rs), &env, &mut ctx);
    let exp = glob_expected(mode, pattern, &pm::fold(pattern), &env.folded);
    glob_violation(mode, pattern, text, exp, &got).into_iter().collect()
}

/// A2: characters that mean something in a regular expression are ordinary characters of a glob: every
/// (pattern, text) over small alphabets of such characters, through the same four entry points
fn part_a2(report: &Report) {
    const P: [&str; 8] = ["a", ".", "(", "[", "\\", "+", "*", "?"];
    const T: [&str; 6] = ["a", ".", "(", "[", "\\", "b"];
    let mut patterns = vec![];
    engine::for_all_strings(&P, 3, &mut |s| patterns.push(s.to_owned()));
    let mut texts = vec![];
    engine::for_all_strings(&T, 3, &mut |s| texts.push(s.to_owned()));
    patterns.retain(|p| p.chars().any(|c| ".([\\+".contains(c)));
    par_shards(report, patterns.len(), |pi, t| {
        let pattern = &patterns[pi];
        for text in &texts {
            t.states += 1;
            t.nontrivial += 1;
            t.transitions += 4;
            let case = glob_case_json(Mode::Word, pattern, text);
            for mode in MODES {
                let mut c = case.clone();
                c["mode"] = json!(mode.name());
                for (sig, detail) in glob_replay(&c) {
                    report.violation(&sig.replacen("glob/", "glob-metachar/", 1), || detail, || c.clone());
                }
            }
        }
    });
    report.set("glob_metachar", json!({"pattern_alphabet": P, "text_alphabet": T, "patterns": patterns.len(), "texts": texts.len()}));
}

/// `event_match` on the key `room_id` compares the pattern with the room the event is in: a whole-value,
/// case-insensitive glob like every other key
fn room_id_eval(room: &str, pattern: &str, t: &mut Tally) -> Vec<(String, String)> {
    let (ctx, _) = base_ctx(room, 2, "dn");
    let event = json!({"type": "m.room.message", "sender": "@alice:x", "room_id": room, "content": {"body": "x"}});
    let cond = PushCondition::EventMatch { key: "room_id".into(), pattern: pattern.into() };
    let flat = FlattenedJson::from_raw(&raw_of(&event));
    t.transitions += 2;
    let got = catch(|| cond.applies(&flat, &ctx));
    if let Some(v) = wire_agrees("cond/event_match-room_id", &cond, &flat, &ctx, &got) {
        return vec![v];
    }
    let exp = pm::ref_match_whole(pattern, room);
    match (exp, got) {
        (_, Err(p)) => vec![(panic_sig(&p, "cond/event_match-room_id"), p.text.clone())],
        (Tri::Must(e), Ok(g)) => {
            t.outcome("cond/event_match-room_id", if g { "holds" } else { "does-not-hold" });
            if e != g {
                vec![(
                    format!("cond/event_match-room_id/{}/{}", pm::pattern_class(pattern), if e { "should-hold" } else { "should-not-hold" }),
                    format!("room {room:?} pattern {pattern:?}: reference {e}, ruma {g}"),
                )]
            } else {
                vec![]
            }
        }
        _ => vec![],
    }
}

fn part_b6(report: &Report) {
    let mut t = Tally::new();
    for room in ["!r1:x", "!Ab:Host.example"] {
        let mut patterns: Vec<String> = vec![room.to_owned(), room.to_uppercase(), room.to_lowercase(), "*".into(), "!*".into(), "*x".into(), "?".into()];
        // every single character replaced by `?`, every prefix followed by `*`, one character dropped
        let chars: Vec<char> = room.chars().collect();
        for i in 0..chars.len() {
            let mut q = chars.clone();
            q[i] = '?';
            patterns.push(q.iter().collect());
            patterns.push(format!("{}*", chars[..i].iter().collect::<String>()));
            let mut d = chars.clone();
            d.remove(i);
            patterns.push(d.iter().collect());
        }
        for p in &patterns {
            t.states += 1;
            t.nontrivial += 1;
            for (sig, detail) in room_id_eval(room, p, &mut t) {
                report.violation(&sig, || detail, || json!({"part": "room-id-match", "room": room, "pattern": p}));
            }
        }
    }
    report.merge(t);
    report.require_outcomes("cond/event_match-room_id", 2);
}

struct GlobBounds {
    /// (max pattern length, max text length) rectangles for patterns with a wildcard (ruma compiles a
    /// regex on every such call, ~100 µs) and for literal patterns; the union is enumerated
    wild: Vec<(usize, usize)>,
    literal: Vec<(usize, usize)>,
    /// content rules through get_match: texts up to this length (all patterns allowed for the text)
    content_rule_text_len: usize,
}

fn glob_bounds(tier: Tier) -> GlobBounds {
    match tier {
        Tier::Quick => GlobBounds { wild: vec![(3, 3), (2, 4)], literal: vec![(3, 4)], content_rule_text_len: 2 },
        Tier::Thorough => GlobBounds { wild: vec![(4, 3), (3, 4), (2, 5)], literal: vec![(4, 4), (3, 5)], content_rule_text_len: 2 },
    }
}

fn all_strings(max_len: usize) -> Vec<String> {
    let mut v = vec![];
    engine::for_all_strings(&pm::GLOB_ALPHABET, max_len, &mut |s| v.push(s.to_owned()));
    v
}

fn part_a(report: &Report, tier: Tier) {
    let b = glob_bounds(tier);
    let all_rects = || b.wild.iter().chain(b.literal.iter());
    let max_p = all_rects().map(|r| r.0).max().unwrap();
    let max_t = all_rects().map(|r| r.1).max().unwrap();
    let patterns = all_strings(max_p); // length-then-lexicographic, simplest first
    let mut texts = all_strings(max_t);
    // matching is case-insensitive: every text one symbol shorter than the bound also with the case of
    // its letters swapped (a -> A, B -> b, é -> É), against the same patterns
    let swapped: Vec<String> = all_strings(max_t.saturating_sub(1))
        .iter()
        .map(|t| {
            t.chars()
                .map(|c| match c {
                    'a' => 'A',
                    'B' => 'b',
                    'é' => 'É',
                    c => c,
                })
                .collect::<String>()
        })
        .collect();
    for s in swapped {
        if !texts.contains(&s) {
            texts.push(s);
        }
    }
    let folded: Vec<Vec<char>> = patterns.iter().map(|p| pm::fold(p)).collect();
    let conds: Vec<[PushCondition; 2]> =
        patterns.iter().map(|p| [mk_cond(Mode::Word, p), mk_cond(Mode::Whole, p)]).collect();
    let display_cond = PushCondition::ContainsDisplayName;
    let rulesets: Vec<Ruleset> = patterns.iter().map(|p| mk_content_ruleset(p)).collect();
    // longest pattern allowed for a text of a given length, per pattern class
    let max_len_for = |rects: &[(usize, usize)], tl: usize| rects.iter().filter(|r| r.1 >= tl).map(|r| r.0 as i64).max().unwrap_or(-1);
    let wild_len: Vec<i64> = (0..=max_t).map(|tl| max_len_for(&b.wild, tl)).collect();
    let literal_len: Vec<i64> = (0..=max_t).map(|tl| max_len_for(&b.literal, tl)).collect();
    let pattern_len: Vec<i64> = patterns.iter().map(|p| p.chars().count() as i64).collect();
    let pattern_wild: Vec<bool> = patterns.iter().map(|p| pm::has_wildcard(p)).collect();

    const CHUNK: usize = 16;
    let n_shards = texts.len().div_ceil(CHUNK);
    par_shards(report, n_shards, |shard, t| {
        let (mut ctx, _) = base_ctx("!r:x", 2, "dn");
        // local counters: [mode][match, no-match, unspecified]
        let mut counts = [[0u64; 3]; 4];
        for ti in shard * CHUNK..((shard + 1) * CHUNK).min(texts.len()) {
            let text = &texts[ti];
            let tl = text.chars().count();
            let env = match text_env(text) {
                Ok(e) => e,
                Err(p) => {
                    report.violation(&panic_sig(&p, "from_raw-glob-event"), || p.text.clone(), || json!({"part": "glob", "mode": Mode::Word.name(), "pattern": "a", "text": text}));
                    continue;
                }
            };
            for pi in 0..patterns.len() {
                let allowed = if pattern_wild[pi] { wild_len[tl] } else { literal_len[tl] };
                if pattern_len[pi] > allowed {
                    continue;
                }
                let pattern = &patterns[pi];
                t.states += 1;
                let mut compared = false;
                for (mi, mode) in MODES.into_iter().enumerate() {
                    if mode == Mode::ContentRule && tl > b.content_rule_text_len {
                        continue;
                    }
                    let cond = match mode {
                        Mode::Word => &conds[pi][0],
                        Mode::Whole => &conds[pi][1],
                        _ => &display_cond,
                    };
                    t.transitions += 1;
                    let got = glob_real(mode, pattern, cond, Some(&rulesets[pi]), &env, &mut ctx);
                    let exp = glob_expected(mode, pattern, &folded[pi], &env.folded);
                    match (&exp, &got) {
                        (Tri::Unspecified, _) => {
                            counts[mi][2] += 1;
                            t.unspecified += 1;
                        }
                        (_, Ok(true)) => counts[mi][0] += 1,
                        (_, Ok(false)) => counts[mi][1] += 1,
                        _ => {}
                    }
                    compared |= exp != Tri::Unspecified;
                    if let Some((sig, detail)) = glob_violation(mode, pattern, text, exp, &got) {
                        report.violation(&sig, || detail, || glob_case_json(mode, pattern, text));
                    }
                }
                if compared {
                    t.nontrivial += 1;
                }
                if (ti * 31 + pi) % 2_000_003 == 17 {
                    t.sample(|| glob_case_json(Mode::Word, pattern, text));
                }
            }
        }
        for (mi, mode) in MODES.into_iter().enumerate() {
            t.outcome_n(mode.family(), "match", counts[mi][0]);
            t.outcome_n(mode.family(), "no-match", counts[mi][1]);
            t.outcome_n(mode.family(), "unspecified", counts[mi][2]);
        }
    });
    for m in MODES {
        report.require_outcomes(m.family(), 3);
    }
    report.set(
        "glob",
        json!({
            "alphabet": pm::GLOB_ALPHABET,
            "rectangles_pattern_len_x_text_len": {"patterns_with_wildcard": b.wild, "literal_patterns": b.literal},
            "patterns": patterns.len(), "texts": texts.len(),
            "content_rule_text_len": b.content_rule_text_len,
        }),
    );
}

// =======================================================================================
// Part B1: flattening

const KEY_ALPHABET: [&str; 5] = ["a", ".", "\\", "a.b", "a\\.b"];

fn leaves() -> Vec<Value> {
    vec![json!(null), json!(true), json!(7), json!("s"), json!(1.5), json!({}), json!([])]
}

/// all JSON values with exactly `n` nodes (every object, array and scalar is one node)
fn values_with_nodes(n: usize, memo: &mut BTreeMap<usize, Vec<Value>>) -> Vec<Value> {
    if let Some(v) = memo.get(&n) {
        return v.clone();
    }
    let mut out = vec![];
    if n == 1 {
        out = leaves();
    } else if n > 1 {
        // arrays: member sequences using n-1 nodes
        for members in sequences(n - 1, memo) {
            if !members.is_empty() {
                out.push(Value::Array(members));
            }
        }
        // objects: increasing key sequences with member values using n-1 nodes
        for obj in objects_with_member_nodes(n - 1, 0, memo) {
            if !obj.is_empty() {
                out.push(Value::Object(obj));
            }
        }
    }
    memo.insert(n, out.clone());
    out
}

/// all sequences of values whose node counts sum to `n`
fn sequences(n: usize, memo: &mut BTreeMap<usize, Vec<Value>>) -> Vec<Vec<Value>> {
    if n == 0 {
        return vec![vec![]];
    }
    let mut out = vec![];
    for first in 1..=n {
        let heads = values_with_nodes(first, memo);
        let tails = sequences(n - first, memo);
        for h in &heads {
            for tl in &tails {
                let mut s = vec![h.clone()];
                s.extend(tl.iter().cloned());
                out.push(s);
            }
        }
    }
    out
}

/// all objects over keys KEY_ALPHABET[from..] (each at most once) whose member values use `n` nodes
fn objects_with_member_nodes(
    n: usize,
    from: usize,
    memo: &mut BTreeMap<usize, Vec<Value>>,
) -> Vec<serde_json::Map<String, Value>> {
    if n == 0 {
        return vec![serde_json::Map::new()];
    }
    let mut out = vec![];
    for ki in from..KEY_ALPHABET.len() {
        for first in 1..=n {
            let heads = values_with_nodes(first, memo);
            let rests = objects_with_member_nodes(n - first, ki + 1, memo);
            for h in &heads {
                for r in &rests {
                    let mut m = r.clone();
                    m.insert(KEY_ALPHABET[ki].to_owned(), h.clone());
                    out.push(m);
                }
            }
        }
    }
    out
}

fn root_objects(max_nodes: usize) -> Vec<Value> {
    let mut memo = BTreeMap::new();
    let mut out = vec![json!({})];
    for member_nodes in 1..max_nodes {
        for m in objects_with_member_nodes(member_nodes, 0, &mut memo) {
            out.push(Value::Object(m));
        }
    }
    out
}

/// fixed probes: every path of ≤ 2 segments over the key alphabet, escaped and unescaped
fn fixed_probes() -> Vec<String> {
    let mut v = vec![String::new()];
    for a in KEY_ALPHABET {
        v.push(pm::ref_escape_key(a));
        v.push(a.to_owned());
        for b in KEY_ALPHABET {
            v.push(format!("{}.{}", pm::ref_escape_key(a), pm::ref_escape_key(b)));
            v.push(format!("{a}.{b}"));
        }
    }
    v.sort();
    v.dedup();
    v
}

fn scalar_eq(r: &RefScalar, s: &ScalarJsonValue) -> bool {
    match (r, s) {
        (RefScalar::Null, ScalarJsonValue::Null) => true,
        (RefScalar::Bool(a), ScalarJsonValue::Bool(b)) => a == b,
        (RefScalar::Int(a), ScalarJsonValue::Integer(b)) => *a == i64::from(*b),
        (RefScalar::Str(a), ScalarJsonValue::String(b)) => a == b,
        _ => false,
    }
}

fn leaf_agrees(r: &RefLeaf, f: &FlattenedJsonValue) -> bool {
    match (r, f) {
        (RefLeaf::Scalar(RefScalar::Null), FlattenedJsonValue::Null) => true,
        (RefLeaf::Scalar(RefScalar::Bool(a)), FlattenedJsonValue::Bool(b)) => a == b,
        (RefLeaf::Scalar(RefScalar::Int(a)), FlattenedJsonValue::Integer(b)) => *a == i64::from(*b),
        (RefLeaf::Scalar(RefScalar::Str(a)), FlattenedJsonValue::String(b)) => a == b,
        (RefLeaf::Array(a), FlattenedJsonValue::Array(b)) => {
            a.len() == b.len() && a.iter().zip(b).all(|(x, y)| scalar_eq(x, y))
        }
        _ => false,
    }
}

fn flatten_eval(obj: &Value, probes: &[String], t: &mut Tally) -> Vec<(String, String)> {
    let mut out = vec![];
    let reference = pm::ref_flatten(obj);
    let raw = raw_of(obj);
    t.transitions += 1;
    let flat = match catch(|| FlattenedJson::from_raw(&raw)) {
        Ok(f) => f,
        Err(p) => {
            out.push((panic_sig(&p, "from_raw-small-object"), format!("{obj}: {}", p.text)));
            return out;
        }
    };
    let own: Vec<String> = reference.keys().cloned().collect();
    for path in own.iter().chain(probes.iter()) {
        t.transitions += 2;
        let got = catch(|| (flat.get(path).cloned(), flat.get_str(path).map(str::to_owned)));
        let (got, got_str) = match got {
            Ok(g) => g,
            Err(p) => {
                out.push((panic_sig(&p, "flattened-get"), format!("{obj} path {path:?}: {}", p.text)));
                continue;
            }
        };
        // get_str must be the string view of get
        let str_view = match &got {
            Some(FlattenedJsonValue::String(s)) => Some(s.clone()),
            _ => None,
        };
        if got_str != str_view {
            out.push((
                "flatten/get_str-disagrees-with-get".into(),
                format!("{obj} path {path:?}: get={got:?} get_str={got_str:?}"),
            ));
        }
        let canonical = pm::path_is_canonical(path);
        match reference.get(path) {
            _ if !canonical => {
                t.unspecified += 1;
                t.outcome("flatten/get", "unspecified-noncanonical-path");
            }
            None => {
                if let Some(g) = &got {
                    out.push((
                        "flatten/get/present-where-reference-has-nothing".into(),
                        format!("{obj} path {path:?}: ruma {g:?}, reference nothing"),
                    ));
                }
                t.outcome("flatten/get", "absent");
            }
            Some(RefLeaf::OutOfDomain) => {
                t.unspecified += 1;
                t.outcome("flatten/get", "unspecified-number-outside-matrix-integers");
            }
            Some(RefLeaf::EmptyObject) => {
                // conditions can never equal an object; both answers are fine
                if !matches!(got, None | Some(FlattenedJsonValue::EmptyObject)) {
                    out.push((
                        "flatten/get/empty-object".into(),
                        format!("{obj} path {path:?}: ruma {got:?} for an empty object"),
                    ));
                }
                t.unspecified += 1;
                t.outcome("flatten/get", "unspecified-empty-object");
            }
            Some(leaf) => {
                let kind = match leaf {
                    RefLeaf::Array(_) => "array",
                    RefLeaf::Scalar(RefScalar::Str(_)) => "string",
                    _ => "scalar",
                };
                if !got.as_ref().is_some_and(|g| leaf_agrees(leaf, g)) {
                    out.push((
                        format!("flatten/get/{kind}-value-differs"),
                        format!("{obj} path {path:?}: ruma {got:?}, reference {leaf:?}"),
                    ));
                }
                t.outcome("flatten/get", kind);
            }
        }
    }
    out
}

fn part_b1(report: &Report) {
    let objects = root_objects(4);
    let probes = fixed_probes();
    const CHUNK: usize = 64;
    par_shards(report, objects.len().div_ceil(CHUNK), |shard, t| {
        for i in shard * CHUNK..((shard + 1) * CHUNK).min(objects.len()) {
            let obj = &objects[i];
            t.states += 1;
            t.nontrivial += 1;
            for (sig, detail) in flatten_eval(obj, &probes, t) {
                report.violation(&sig, || detail, || json!({"part": "flatten", "object": obj}));
            }
            if i % 3001 == 7 {
                t.sample(|| json!({"part": "flatten", "object": obj}));
            }
        }
    });
    report.require_outcomes("flatten/get", 4);
    report.set(
        "flatten",
        json!({"objects": objects.len(), "max_nodes": 4, "key_alphabet": KEY_ALPHABET, "fixed_probes": probes.len()}),
    );
}

// =======================================================================================
// Part B2: event_property_is / event_property_contains

fn scalar_menu() -> Vec<RefScalar> {
    let s = |x: &str| RefScalar::Str(x.to_owned());
    vec![
        RefScalar::Null,
        RefScalar::Bool(true),
        RefScalar::Bool(false),
        RefScalar::Int(0),
        RefScalar::Int(1),
        RefScalar::Int(-1),
        s("1"),
        s("a"),
        s("A"),
        s(""),
        s("true"),
        s("null"),
    ]
}

fn scalar_json(s: &RefScalar) -> Value {
    match s {
        RefScalar::Null => Value::Null,
        RefScalar::Bool(b) => json!(b),
        RefScalar::Int(i) => json!(i),
        RefScalar::Str(x) => json!(x),
    }
}

fn scalar_real(s: &RefScalar) -> ScalarJsonValue {
    match s {
        RefScalar::Null => ScalarJsonValue::Null,
        RefScalar::Bool(b) => ScalarJsonValue::Bool(*b),
        RefScalar::Int(i) => ScalarJsonValue::Integer(Int::try_from(*i).expect("small int")),
        RefScalar::Str(x) => ScalarJsonValue::String(x.clone()),
    }
}

fn scalar_from_json(v: &Value) -> RefScalar {
    match pm::ref_scalar(v) {
        Some(Ok(s)) => s,
        _ => machinery_error("replay: not a scalar"),
    }
}

fn value_menu() -> Vec<Value> {
    let mut v: Vec<Value> = scalar_menu().iter().map(scalar_json).collect();
    v.push(json!([]));
    for s in scalar_menu() {
        v.push(json!([scalar_json(&s)]));
    }
    v.extend([
        json!([1, "a", null, false]),
        json!(["A", 0, true, ""]),
        json!([[1]]),
        json!([{"p": 1}]),
        json!([[1], 1]),
        json!([1.5]),
        json!({}),
        json!({"q": 1}),
        json!(1.5),
        json!(9_007_199_254_740_992i64),
        json!(9_007_199_254_740_991i64),
    ]);
    v
}

const PROP_NAMES: [(&str, &str); 3] = [("p", "content.p"), ("a.b", "content.a\\.b"), ("\\", "content.\\\\")];

fn prop_eval(name_idx: usize, value: &Value, scalar: &RefScalar, contains: bool, t: &mut Tally) -> Vec<(String, String)> {
    let (name, key) = PROP_NAMES[name_idx];
    let event = json!({"type": "m.room.message", "sender": "@alice:x", "content": { name: value }});
    let (ctx, rctx) = base_ctx("!r1:x", 2, "dn");
    let flat_ref = pm::ref_flatten(&event);
    let (cond, rcond) = if contains {
        (
            PushCondition::EventPropertyContains { key: key.into(), value: scalar_real(scalar) },
            RefCond::PropertyContains { key: key.into(), value: scalar.clone() },
        )
    } else {
        (
            PushCondition::EventPropertyIs { key: key.into(), value: scalar_real(scalar) },
            RefCond::PropertyIs { key: key.into(), value: scalar.clone() },
        )
    };
    let exp = pm::ref_cond(&rcond, &flat_ref, &rctx);
    let raw = raw_of(&event);
    t.transitions += 1;
    let flat_real = FlattenedJson::from_raw(&raw);
    let got = catch(|| cond.applies(&flat_real, &ctx));
    let family = if contains { "cond/event_property_contains" } else { "cond/event_property_is" };
    t.transitions += 1;
    if let Some(v) = wire_agrees(family, &cond, &flat_real, &ctx, &got) {
        return vec![v];
    }
    let vk = |v: &Value| match v {
        Value::Null => "null",
        Value::Bool(_) => "bool",
        Value::Number(_) => "number",
        Value::String(_) => "string",
        Value::Array(_) => "array",
        Value::Object(_) => "object",
    };
    match (exp, got) {
        (_, Err(p)) => vec![(panic_sig(&p, family), format!("{event} {rcond:?}: {}", p.text))],
        (Tri::Unspecified, Ok(_)) => {
            t.unspecified += 1;
            t.outcome(family, "unspecified");
            vec![]
        }
        (Tri::Must(e), Ok(g)) => {
            t.outcome(family, if g { "holds" } else { "does-not-hold" });
            if e != g {
                vec![(
                    format!("{family}/event-{}/asked-{}/{}", vk(value), vk(&scalar_json(scalar)), if e { "should-hold" } else { "should-not-hold" }),
                    format!("{event} {rcond:?}: reference {e}, ruma {g}"),
                )]
            } else {
                vec![]
            }
        }
    }
}

/// `event_match` on a property that is absent or not a string: never holds, "even if pattern is `*`"
/// (spec, conditions for push rules) — for the whole-value keys and for `content.body`
fn nonstring_eval(event: &Value, key: &str, pattern: &str, t: &mut Tally) -> Vec<(String, String)> {
    let (ctx, _) = base_ctx("!r1:x", 2, "dn");
    let cond = PushCondition::EventMatch { key: key.into(), pattern: pattern.into() };
    let raw = raw_of(event);
    t.transitions += 2;
    let flat_real = FlattenedJson::from_raw(&raw);
    let got = catch(|| cond.applies(&flat_real, &ctx));
    let name = key.strip_prefix("content.").unwrap_or(key).replace("\\.", ".");
    let kind = match event["content"].get(&name) {
        None => "absent",
        Some(Value::Null) => "null",
        Some(Value::Bool(_)) => "bool",
        Some(Value::Number(_)) => "number",
        Some(Value::Array(_)) => "array",
        Some(Value::String(_)) => return vec![],
        Some(_) => "object",
    };
    if let Some(v) = wire_agrees("cond/event_match-non-string", &cond, &flat_real, &ctx, &got) {
        return vec![v];
    }
    match got {
        Err(p) => vec![(panic_sig(&p, "cond/event_match-non-string"), p.text.clone())],
        Ok(g) => {
            t.outcome("cond/event_match-non-string", if g { "holds" } else { "does-not-hold" });
            if g {
                vec![(
                    format!("cond/event_match/{kind}-property/{}/should-not-hold", if name == "body" { "word" } else { "whole" }),
                    format!("{event}: event_match key {key:?} pattern {pattern:?} holds although the property is {kind}"),
                )]
            } else {
                vec![]
            }
        }
    }
}

fn part_b5(report: &Report) {
    let mut t = Tally::new();
    let mut values: Vec<Option<Value>> = vec![None];
    values.extend(value_menu().into_iter().filter(|v| !v.is_string()).map(Some));
    for v in &values {
        for (name, key) in [("p", "content.p"), ("body", "content.body"), ("a.b", "content.a\\.b")] {
            for pattern in ["*", "", "?", "a", "**", "*?", "?*", "null", "true", "1", "[]"] {
                let mut content = serde_json::Map::new();
                content.insert("other".into(), json!("a"));
                if let Some(v) = v {
                    content.insert(name.to_owned(), v.clone());
                }
                let event = json!({"type": "m.room.message", "sender": "@alice:x", "content": content});
                t.states += 1;
                t.nontrivial += 1;
                let case = || json!({"part": "event-match-non-string", "event": event, "key": key, "pattern": pattern});
                for (sig, detail) in nonstring_eval(&event, key, pattern, &mut t) {
                    report.violation(&sig, || detail, case);
                }
            }
        }
    }
    report.merge(t);
}

fn part_b2(report: &Report) {
    let scalars = scalar_menu();
    let values = value_menu();
    let mut t = Tally::new();
    for ni in 0..PROP_NAMES.len() {
        for v in &values {
            for s in &scalars {
                for contains in [false, true] {
                    t.states += 1;
                    let before = t.unspecified;
                    let viol = prop_eval(ni, v, s, contains, &mut t);
                    if t.unspecified == before {
                        t.nontrivial += 1;
                    }
                    let case = || json!({"part": "prop", "name": ni, "value": v, "scalar": scalar_json(s), "contains": contains});
                    for (sig, detail) in viol {
                        report.violation(&sig, || detail, case);
                    }
                    if t.states % 701 == 3 {
                        t.sample(case);
                    }
                }
            }
        }
    }
    report.merge(t);
    report.require_outcomes("cond/event_property_is", 2);
    report.require_outcomes("cond/event_property_contains", 2);
    report.set("property_conditions", json!({"scalars": scalars.len(), "event_values": values.len(), "property_names": PROP_NAMES.map(|p| p.0)}));
}

// =======================================================================================
// Part B3: room_member_count

fn real_op(op: CmpOp) -> ComparisonOperator {
    match op {
        CmpOp::Eq => ComparisonOperator::Eq,
        CmpOp::Lt => ComparisonOperator::Lt,
        CmpOp::Gt => ComparisonOperator::Gt,
        CmpOp::Ge => ComparisonOperator::Ge,
        CmpOp::Le => ComparisonOperator::Le,
    }
}

/// spelling 0 = the struct, 1 = wire form with the prefix, 2 = wire form without prefix (== only)
fn count_eval(op_idx: usize, count: u64, threshold: u64, spelling: usize, t: &mut Tally) -> Vec<(String, String)> {
    let op = pm::CMP_OPS[op_idx];
    let (mut ctx, mut rctx) = base_ctx("!r1:x", count, "dn");
    ctx.member_count = UInt::try_from(count).unwrap();
    rctx.member_count = count;
    let event = json!({"type": "m.room.message", "sender": "@alice:x", "content": {"body": "x"}});
    let wire = match spelling {
        1 => Some(format!("{}{}", op.prefix(), threshold)),
        2 => Some(format!("{threshold}")),
        _ => None,
    };
    let cond = match &wire {
        None => Ok(Ok(PushCondition::RoomMemberCount {
            is: RoomMemberCountIs { prefix: real_op(op), count: UInt::try_from(threshold).unwrap() },
        })),
        Some(w) => {
            t.transitions += 1;
            catch(|| serde_json::from_value::<PushCondition>(json!({"kind": "room_member_count", "is": w})))
        }
    };
    let label = format!("{} count={count} is={}", op.prefix(), wire.clone().unwrap_or_else(|| format!("struct({threshold})")));
    let cond = match cond {
        Err(p) => return vec![(panic_sig(&p, "room_member_count-deserialize"), format!("{label}: {}", p.text))],
        Ok(Err(e)) => return vec![(format!("cond/room_member_count/{}/wire-form-rejected", op.prefix()), format!("{label}: {e}"))],
        Ok(Ok(c)) => c,
    };
    let exp = op.holds(count, threshold);
    let raw = raw_of(&event);
    t.transitions += 1;
    match catch(|| cond.applies(&FlattenedJson::from_raw(&raw), &ctx)) {
        Err(p) => vec![(panic_sig(&p, "room_member_count"), format!("{label}: {}", p.text))],
        Ok(g) => {
            t.outcome("cond/room_member_count", if g { "holds" } else { "does-not-hold" });
            if g != exp {
                let rel = if count < threshold { "below" } else if count == threshold { "at" } else { "above" };
                vec![(
                    format!("cond/room_member_count/{}/{rel}-threshold", op.prefix()),
                    format!("{label}: reference {exp}, ruma {g}"),
                )]
            } else {
                vec![]
            }
        }
    }
}

fn part_b3(report: &Report) {
    let mut t = Tally::new();
    for op_idx in 0..pm::CMP_OPS.len() {
        for count in 0..=3u64 {
            for threshold in 0..=3u64 {
                for spelling in 0..3 {
                    if spelling == 2 && pm::CMP_OPS[op_idx] != CmpOp::Eq {
                        continue;
                    }
                    t.states += 1;
                    t.nontrivial += 1;
                    let case = || json!({"part": "count", "op": op_idx, "count": count, "threshold": threshold, "spelling": spelling});
                    for (sig, detail) in count_eval(op_idx, count, threshold, spelling, &mut t) {
                        report.violation(&sig, || detail, case);
                    }
                    if t.states % 53 == 1 {
                        t.sample(case);
                    }
                }
            }
        }
    }
    report.merge(t);
    report.require_outcomes("cond/room_member_count", 2);
}

// =======================================================================================
// Part B4: sender_notification_permission

const PERM_SENDERS: [Option<&str>; 4] = [Some("@alice:x"), Some("@bob:x"), None, Some("alice")];
const PERM_ENTRY: [Option<i64>; 5] = [None, Some(49), Some(50), Some(51), Some(-1)];
const PERM_DEFAULT: [i64; 3] = [0, 50, 100];
const PERM_ROOM: [i64; 3] = [0, 50, 100];
const PERM_KEYS: [&str; 2] = ["room", "other"];

fn perm_eval(c: [usize; 6], t: &mut Tally) -> Vec<(String, String)> {
    let [si, ei, di, ri, ki, has_power] = c;
    let sender = PERM_SENDERS[si];
    let mut event = json!({"type": "m.room.message", "content": {"body": "@room hi"}});
    if let Some(s) = sender {
        event["sender"] = json!(s);
    }
    let (mut ctx, mut rctx) = base_ctx("!r1:x", 3, "dn");
    if has_power == 1 {
        let mut users = BTreeMap::new();
        let mut rusers = BTreeMap::new();
        if let Some(l) = PERM_ENTRY[ei] {
            users.insert(user("@alice:x"), Int::try_from(l).unwrap());
            rusers.insert("@alice:x".to_owned(), l);
        }
        let mut n = NotificationPowerLevels::new();
        n.room = Int::try_from(PERM_ROOM[ri]).unwrap();
        ctx.power_levels = Some(PushConditionPowerLevelsCtx {
            users,
            users_default: Int::try_from(PERM_DEFAULT[di]).unwrap(),
            notifications: n,
        });
        rctx.power = Some(RefPower { users: rusers, users_default: PERM_DEFAULT[di], room: PERM_ROOM[ri] });
    } else {
        ctx.power_levels = None;
        rctx.power = None;
    }
    let key = PERM_KEYS[ki];
    let cond = PushCondition::SenderNotificationPermission { key: key.into() };
    let rcond = RefCond::SenderNotificationPermission { key: key.into() };
    // a sender that is not a user id is outside the domain
    let exp = if si == 3 { Tri::Unspecified } else { pm::ref_cond(&rcond, &pm::ref_flatten(&event), &rctx) };
    let raw = raw_of(&event);
    t.transitions += 1;
    let label = format!("sender={sender:?} entry={:?} users_default={} notifications.room={} key={key} power_levels={}", PERM_ENTRY[ei], PERM_DEFAULT[di], PERM_ROOM[ri], has_power == 1);
    let flat_real = FlattenedJson::from_raw(&raw);
    let got = catch(|| cond.applies(&flat_real, &ctx));
    t.transitions += 1;
    if let Some(v) = wire_agrees("cond/sender_notification_permission", &cond, &flat_real, &ctx, &got) {
        return vec![v];
    }
    match (exp, got) {
        (_, Err(p)) => vec![(panic_sig(&p, "sender_notification_permission"), format!("{label}: {}", p.text))],
        (Tri::Unspecified, Ok(_)) => {
            t.unspecified += 1;
            t.outcome("cond/sender_notification_permission", "unspecified");
            vec![]
        }
        (Tri::Must(e), Ok(g)) => {
            t.outcome("cond/sender_notification_permission", if g { "holds" } else { "does-not-hold" });
            if e != g {
                let level = if si == 0 { PERM_ENTRY[ei].unwrap_or(PERM_DEFAULT[di]) } else { PERM_DEFAULT[di] };
                let rel = if level < PERM_ROOM[ri] { "below" } else if level == PERM_ROOM[ri] { "at" } else { "above" };
                let src = if si == 0 && PERM_ENTRY[ei].is_some() { "users-entry" } else { "users_default" };
                vec![(
                    format!("cond/sender_notification_permission/{src}-{rel}-threshold"),
                    format!("{label}: reference {e}, ruma {g}"),
                )]
            } else {
                vec![]
            }
        }
    }
}

fn part_b4(report: &Report) {
    let mut t = Tally::new();
    let radices = [PERM_SENDERS.len(), PERM_ENTRY.len(), PERM_DEFAULT.len(), PERM_ROOM.len(), PERM_KEYS.len(), 2];
    engine::for_product(&radices, &mut |v| {
        let c: [usize; 6] = v.try_into().unwrap();
        // the zones the reference leaves open (no power levels, another key, no valid sender) are
        // visited once per sender, not once per level assignment
        let [si, ei, di, ri, ki, has_power] = c;
        if (has_power == 0 || ki == 1 || si >= 2) && (ei, di, ri) != (0, 0, 0) {
            return;
        }
        if has_power == 0 && ki == 1 {
            return;
        }
        t.states += 1;
        let before = t.unspecified;
        let viol = perm_eval(c, &mut t);
        if t.unspecified == before {
            t.nontrivial += 1;
        }
        let case = || json!({"part": "perm", "choice": c});
        for (sig, detail) in viol {
            report.violation(&sig, || detail, case);
        }
        if t.states % 211 == 5 {
            t.sample(case);
        }
    });
    report.merge(t);
    report.require_outcomes("cond/sender_notification_permission", 3);
}

// =======================================================================================
// Part C: rule selection

const CTXS: [(&str, u64); 2] = [("!r1:x", 2), ("!r2:x", 3)];
const EVENT_TAGS: [&str; 6] = ["alice-alpha-beta", "bob-nothing", "own-event", "alice-no-body", "carol-upper-case", "no-sender"];

fn menu_event(i: usize, room_id: &str) -> Value {
    match i {
        0 => json!({"type": "m.room.message", "sender": "@alice:x", "room_id": room_id, "content": {"body": "alpha beta", "flag": true}}),
        1 => json!({"type": "m.room.message", "sender": "@bob:x", "room_id": room_id, "content": {"body": "nothing here", "flag": false}}),
        2 => json!({"type": "m.room.message", "sender": ME, "room_id": room_id, "content": {"body": "alpha", "flag": true}}),
        3 => json!({"type": "m.room.member", "sender": "@alice:x", "room_id": room_id, "state_key": "@alice:x", "content": {"membership": "join"}}),
        4 => json!({"type": "m.room.message", "sender": "@carol:x", "room_id": room_id, "content": {"body": "BETA, Alpha!", "flag": true}}),
        _ => json!({"type": "m.room.message", "room_id": room_id, "content": {"body": "beta"}}),
    }
}

/// the conditions of menu rule `idx` of a kind (index into pm::KINDS)
fn menu_conds(kind: usize, idx: usize) -> Vec<RefCond> {
    let em = |k: &str, p: &str| RefCond::EventMatch { key: k.into(), pattern: p.into() };
    match kind {
        0 | 4 => match idx {
            0 => vec![],
            1 => vec![em("type", "never")],
            2 => vec![em("content.body", "alpha")],
            _ => vec![
                RefCond::MemberCount { op: CmpOp::Eq, n: 2 },
                RefCond::PropertyIs { key: "content.flag".into(), value: RefScalar::Bool(true) },
            ],
        },
        1 => vec![em("content.body", ["alpha", "beta", "b?ta*"][idx])],
        // room and sender rules: the implicit event_match on room_id / sender
        2 => vec![em("room_id", ["!r1:x", "!r2:x"][idx])],
        _ => vec![em("sender", ["@alice:x", "@bob:x", ME][idx])],
    }
}

fn menu_size(kind: usize, tier: Tier) -> usize {
    match (kind, tier) {
        (0, Tier::Quick) => 3,
        (0, Tier::Thorough) => 4,
        (4, Tier::Quick) => 2,
        (4, Tier::Thorough) => 3,
        // content: the two literal patterns (the wildcard pattern has its own product)
        // room, sender: two ids
        (_, _) => 2,
    }
}

/// the largest menus (truth table size)
fn menu_max(kind: usize) -> usize {
    match kind {
        0 | 4 => 4,
        1 | 3 => 3,
        _ => 2,
    }
}

fn real_cond(c: &RefCond) -> PushCondition {
    match c {
        RefCond::EventMatch { key, pattern } => PushCondition::EventMatch { key: key.clone(), pattern: pattern.clone() },
        RefCond::ContainsDisplayName => PushCondition::ContainsDisplayName,
        RefCond::MemberCount { op, n } => PushCondition::RoomMemberCount {
            is: RoomMemberCountIs { prefix: real_op(*op), count: UInt::try_from(*n).unwrap() },
        },
        RefCond::SenderNotificationPermission { key } => PushCondition::SenderNotificationPermission { key: key.clone() },
        RefCond::PropertyIs { key, value } => PushCondition::EventPropertyIs { key: key.clone(), value: scalar_real(value) },
        RefCond::PropertyContains { key, value } => PushCondition::EventPropertyContains { key: key.clone(), value: scalar_real(value) },
    }
}

fn rule_sound(kind: usize, idx: usize) -> String {
    format!("{}{}", pm::KINDS[kind], idx)
}

/// every kind uses the same ids r0, r1, … so that only (kind, id) identifies a rule
fn rule_id(kind: usize, idx: usize) -> String {
    match kind {
        2 => ["!r1:x", "!r2:x"][idx].to_owned(),
        3 => ["@alice:x", "@bob:x", ME][idx].to_owned(),
        _ => format!("r{idx}"),
    }
}

/// ordered selections of 0..=2 distinct menu rules, each enabled or not
type Choice = Vec<(usize, bool)>;

fn choices(menu: usize) -> Vec<Choice> {
    let mut out: Vec<Choice> = vec![vec![]];
    for a in 0..menu {
        for ea in [true, false] {
            out.push(vec![(a, ea)]);
        }
    }
    for a in 0..menu {
        for b in 0..menu {
            if a == b {
                continue;
            }
            for ea in [true, false] {
                for eb in [true, false] {
                    out.push(vec![(a, ea), (b, eb)]);
                }
            }
        }
    }
    out
}

fn set_kind(rs: &mut Ruleset, kind: usize, choice: &Choice) {
    let actions = |idx: usize| vec![Action::SetTweak(Tweak::Sound(rule_sound(kind, idx)))];
    match kind {
        0 | 4 => {
            let set = choice
                .iter()
                .map(|&(idx, enabled)| {
                    ConditionalPushRule::from(ConditionalPushRuleInit {
                        actions: actions(idx),
                        default: false,
                        enabled,
                        rule_id: rule_id(kind, idx),
                        conditions: menu_conds(kind, idx).iter().map(real_cond).collect(),
                    })
                })
                .collect();
            if kind == 0 {
                rs.override_ = set;
            } else {
                rs.underride = set;
            }
        }
        1 => {
            rs.content = choice
                .iter()
                .map(|&(idx, enabled)| {
                    let RefCond::EventMatch { pattern, .. } = &menu_conds(1, idx)[0] else { unreachable!() };
                    PatternedPushRule::from(PatternedPushRuleInit {
                        actions: actions(idx),
                        default: false,
                        enabled,
                        rule_id: rule_id(kind, idx),
                        pattern: pattern.clone(),
                    })
                })
                .collect();
        }
        2 => {
            rs.room = choice
                .iter()
                .map(|&(idx, enabled)| {
                    SimplePushRule::from(SimplePushRuleInit { actions: actions(idx), default: false, enabled, rule_id: room(&rule_id(2, idx)) })
                })
                .collect();
        }
        _ => {
            rs.sender = choice
                .iter()
                .map(|&(idx, enabled)| {
                    SimplePushRule::from(SimplePushRuleInit { actions: actions(idx), default: false, enabled, rule_id: user(&rule_id(3, idx)) })
                })
                .collect();
        }
    }
}

fn kind_of(r: &AnyPushRuleRef<'_>) -> usize {
    match r {
        AnyPushRuleRef::Override(_) => 0,
        AnyPushRuleRef::Content(_) => 1,
        AnyPushRuleRef::Room(_) => 2,
        AnyPushRuleRef::Sender(_) => 3,
        AnyPushRuleRef::Underride(_) => 4,
        #[allow(unreachable_patterns)]
        _ => usize::MAX,
    }
}

struct SelectEnv {
    ctx: PushConditionRoomCtx,
    events: Vec<Raw<Value>>,
    /// truth[kind][menu idx][event] by the reference conditions; None = own event
    truth: Vec<Vec<Vec<bool>>>,
    own: Vec<bool>,
}

fn select_env(ctx_idx: usize) -> SelectEnv {
    let (room_id, members) = CTXS[ctx_idx];
    let (ctx, rctx) = base_ctx(room_id, members, "dn");
    let events: Vec<Value> = (0..EVENT_TAGS.len()).map(|i| menu_event(i, room_id)).collect();
    let flats: Vec<_> = events.iter().map(pm::ref_flatten).collect();
    let mut truth = vec![];
    for kind in 0..5 {
        let mut per_rule = vec![];
        for idx in 0..menu_max(kind) {
            let conds = menu_conds(kind, idx);
            let per_event: Vec<bool> = flats
                .iter()
                .map(|flat| {
                    let mut all = Tri::Must(true);
                    for c in &conds {
                        all = pm::and(all, pm::ref_cond(c, flat, &rctx));
                    }
                    match all {
                        Tri::Must(b) => b,
                        Tri::Unspecified => machinery_error("rule-selection menu reaches an unspecified zone"),
                    }
                })
                .collect();
            per_rule.push(per_event);
        }
        truth.push(per_rule);
    }
    // cross-check the table against the generic reference selector once per rule
    for kind in 0..5 {
        for idx in 0..menu_max(kind) {
            for (ei, ev) in events.iter().enumerate() {
                let rules = [RefRule { kind, id: rule_id(kind, idx), enabled: true, conds: menu_conds(kind, idx) }];
                let sel = pm::ref_select(&rules, ev, &flats[ei], &rctx);
                let own = ev.get("sender").and_then(Value::as_str) == Some(ME);
                let exp = if own { None } else { truth[kind][idx][ei].then_some(0) };
                if sel != Ok(exp) {
                    machinery_error("reference selector and truth table disagree");
                }
            }
        }
    }
    let own = events.iter().map(|e| e.get("sender").and_then(Value::as_str) == Some(ME)).collect();
    SelectEnv { ctx, events: events.iter().map(raw_of).collect(), truth, own }
}

/// oracle: first enabled rule in kind order whose reference conditions hold; own events match nothing
fn select_expected(env: &SelectEnv, sel: &[&Choice; 5], ei: usize) -> Option<(usize, usize)> {
    if env.own[ei] {
        return None;
    }
    for kind in 0..5 {
        for &(idx, enabled) in sel[kind].iter() {
            if enabled && env.truth[kind][idx][ei] {
                return Some((kind, idx));
            }
        }
    }
    None
}

fn select_check(
    env: &SelectEnv,
    ctx_idx: usize,
    rs: &Ruleset,
    sel: &[&Choice; 5],
    ei: usize,
    t: &mut Tally,
    counts: &mut [u64; 6],
) -> Vec<(String, String)> {
    let exp = select_expected(env, sel, ei);
    let exp_named = exp.map(|(k, i)| (k, rule_id(k, i)));
    // get_actions is a thin wrapper over get_match: it is run in the first context only
    let with_actions = ctx_idx == 0;
    t.transitions += 1 + with_actions as u64;
    let got = catch(|| {
        let m = rs.get_match(&env.events[ei], &env.ctx).map(|r| (kind_of(&r), r.rule_id().to_owned()));
        let a: Option<Vec<Option<String>>> = with_actions
            .then(|| rs.get_actions(&env.events[ei], &env.ctx).iter().map(|a| a.sound().map(str::to_owned)).collect());
        (m, a)
    });
    // the ruleset as a client receives it (serialized and parsed back) must select the same rule
    if ctx_idx == 0 {
        if let Ok((m, _)) = &got {
            t.transitions += 1;
            let wire: Result<Ruleset, String> =
                serde_json::to_value(rs).and_then(serde_json::from_value).map_err(|e| e.to_string());
            match wire {
                Err(e) => return vec![("wire/select/ruleset-does-not-round-trip".into(), e)],
                Ok(w) => match catch(|| w.get_match(&env.events[ei], &env.ctx).map(|r| (kind_of(&r), r.rule_id().to_owned()))) {
                    Err(p) => return vec![(panic_sig(&p, "wire-ruleset"), p.text)],
                    Ok(mw) if mw != *m => {
                        return vec![(
                            "wire/select/parsed-ruleset-disagrees".into(),
                            format!("in-memory ruleset matches {m:?}, after serialize+parse it matches {mw:?}"),
                        )]
                    }
                    Ok(_) => {}
                },
            }
        }
    }
    let kname = |k: Option<usize>| k.map(|k| pm::KINDS.get(k).copied().unwrap_or("?")).unwrap_or("none");
    let describe = || {
        let rules: Vec<String> = (0..5)
            .flat_map(|k| sel[k].iter().map(move |&(i, e)| format!("{}:{}{}", pm::KINDS[k], rule_id(k, i), if e { "" } else { "(disabled)" })))
            .collect();
        format!("ctx {:?} event {} rules [{}]", CTXS[ctx_idx], EVENT_TAGS[ei], rules.join(", "))
    };
    match got {
        Err(p) => vec![(panic_sig(&p, "get_match"), format!("{}: {}", describe(), p.text))],
        Ok((m, actions)) => {
            counts[m.as_ref().map(|(k, _)| *k).unwrap_or(5).min(5)] += 1;
            let mut out = vec![];
            if m != exp_named {
                out.push((
                    format!(
                        "select/{}/expected-{}/got-{}",
                        EVENT_TAGS[ei],
                        kname(exp.map(|e| e.0)),
                        kname(m.as_ref().map(|g| g.0))
                    ),
                    format!("{}: reference {:?}, get_match {:?}", describe(), exp_named, m),
                ));
            }
            let exp_actions: Vec<Option<String>> = exp.map(|(k, i)| vec![Some(rule_sound(k, i))]).unwrap_or_default();
            if actions.as_ref().is_some_and(|a| *a != exp_actions) {
                out.push((
                    format!("select-actions/{}/expected-{}", EVENT_TAGS[ei], kname(exp.map(|e| e.0))),
                    format!("{}: reference actions {:?}, get_actions {:?}", describe(), exp_actions, actions),
                ));
            }
            out
        }
    }
}

fn select_case_json(ctx_idx: usize, sel: &[&Choice; 5], ei: usize) -> Value {
    json!({"part": "select", "ctx": ctx_idx, "event": ei, "rules": sel.iter().map(|c| json!(c)).collect::<Vec<_>>()})
}

fn select_replay(case: &Value) -> Vec<(String, String)> {
    let ctx_idx = case["ctx"].as_u64().unwrap_or(0) as usize;
    let ei = case["event"].as_u64().unwrap_or(0) as usize;
    let sel: Vec<Choice> = serde_json::from_value(case["rules"].clone()).unwrap_or_else(|_| machinery_error("bad rules in replay"));
    if sel.len() != 5 || ctx_idx >= CTXS.len() || ei >= EVENT_TAGS.len() {
        machinery_error("bad select case in replay");
    }
    let env = select_env(ctx_idx);
    let mut rs = Ruleset::new();
    for k in 0..5 {
        set_kind(&mut rs, k, &sel[k]);
    }
    let refs = [&sel[0], &sel[1], &sel[2], &sel[3], &sel[4]];
    select_check(&env, ctx_idx, &rs, &refs, ei, &mut Tally::new(), &mut [0; 6])
}

/// One product: every combination of the per-kind choices × events × the listed contexts.
fn select_product(report: &Report, ch: &[Vec<Choice>], ctxs: &[usize], envs: &[SelectEnv]) {
    let n_shards = ch[0].len() * ctxs.len();
    par_shards(report, n_shards, |shard, t| {
        let (oi, ctx_idx) = (shard / ctxs.len(), ctxs[shard % ctxs.len()]);
        let env = &envs[ctx_idx];
        let mut counts = [0u64; 6];
        let mut rs = Ruleset::new();
        set_kind(&mut rs, 0, &ch[0][oi]);
        for c1 in &ch[1] {
            set_kind(&mut rs, 1, c1);
            for c2 in &ch[2] {
                set_kind(&mut rs, 2, c2);
                for c3 in &ch[3] {
                    set_kind(&mut rs, 3, c3);
                    for c4 in &ch[4] {
                        set_kind(&mut rs, 4, c4);
                        let sel = [&ch[0][oi], c1, c2, c3, c4];
                        for ei in 0..EVENT_TAGS.len() {
                            t.states += 1;
                            t.nontrivial += 1;
                            for (sig, detail) in select_check(env, ctx_idx, &rs, &sel, ei, t, &mut counts) {
                                report.violation(&sig, || detail, || select_case_json(ctx_idx, &sel, ei));
                            }
                            if t.states % 1_000_003 == 11 {
                                t.sample(|| select_case_json(ctx_idx, &sel, ei));
                            }
                        }
                    }
                }
            }
        }
        for (k, n) in counts.iter().enumerate() {
            t.outcome_n("select/matched-kind", if k < 5 { pm::KINDS[k] } else { "none" }, *n);
        }
    });
}

fn part_c(report: &Report, tier: Tier) {
    let envs: Vec<SelectEnv> = (0..CTXS.len()).map(select_env).collect();
    // main product: literal content patterns, both contexts
    let ch: Vec<Vec<Choice>> = (0..5).map(|k| choices(menu_size(k, tier))).collect();
    select_product(report, &ch, &[0, 1], &envs);
    // second product: the content rule with a wildcard pattern (menu rule 2; ruma compiles a regex
    // whenever it is evaluated) in every content choice that contains it, quick menus otherwise,
    // first context
    let mut wild: Vec<Vec<Choice>> = (0..5).map(|k| choices(menu_size(k, Tier::Quick))).collect();
    wild[1] = choices(3).into_iter().filter(|c| c.iter().any(|&(idx, _)| idx == 2)).collect();
    if tier.is_thorough() {
        select_product(report, &wild, &[0], &envs);
    }
    report.require_outcomes("select/matched-kind", 6);
    let n = |c: &[Vec<Choice>]| c.iter().map(|c| c.len() as u64).product::<u64>();
    report.set(
        "rule_selection",
        json!({
            "main_product": {
                "menu_sizes_per_kind": (0..5).map(|k| menu_size(k, tier)).collect::<Vec<_>>(),
                "ordered_choices_per_kind": ch.iter().map(Vec::len).collect::<Vec<_>>(),
                "rulesets": n(&ch), "contexts": 2,
            },
            "wildcard_content_rule_product": if tier.is_thorough() {
                json!({"ordered_choices_per_kind": wild.iter().map(Vec::len).collect::<Vec<_>>(), "rulesets": n(&wild), "contexts": 1})
            } else {
                json!("thorough tier only")
            },
            "events": EVENT_TAGS,
        }),
    );
}

// =======================================================================================
// Part D: Raw-valid, Value-invalid events

fn hostile_documents() -> Vec<(String, String)> {
    let mut v = vec![];
    for depth in [100usize, 126, 127, 128, 129, 200, 1000] {
        v.push((
            format!("array-nesting-{depth}"),
            format!(r#"{{"type":"m.room.message","sender":"@alice:x","content":{{"body":"alpha","n":{}{}}}}}"#, "[".repeat(depth), "]".repeat(depth)),
        ));
        v.push((
            format!("object-nesting-{depth}"),
            format!(r#"{{"type":"m.room.message","sender":"@alice:x","content":{{"body":"alpha","n":{}1{}}}}}"#, r#"{"a":"#.repeat(depth), "}".repeat(depth)),
        ));
    }
    for num in ["1e308", "1e309", "1e999", "-1e999", "1E400", "123456789012345678901234567890", "-0", "1e-999", "0.1e1000"] {
        v.push((
            format!("number-{num}"),
            format!(r#"{{"type":"m.room.message","sender":"@alice:x","content":{{"body":"alpha","n":{num}}}}}"#),
        ));
    }
    v
}

fn hostile_class(label: &str) -> &'static str {
    if label.starts_with("array-nesting") || label.starts_with("object-nesting") {
        "from_raw-deep-nesting"
    } else {
        "from_raw-number-out-of-range"
    }
}

fn hostile_eval(label: &str, doc: &str, t: &mut Tally) -> Vec<(String, String)> {
    let raw = match serde_json::from_str::<Raw<Value>>(doc) {
        Ok(r) => r,
        Err(_) => {
            // Raw itself refuses the document: nothing reaches the push code
            t.outcome("hostile-event", "refused-by-raw");
            return vec![];
        }
    };
    let (ctx, _) = base_ctx("!r1:x", 2, "dn");
    let mut out = vec![];
    t.transitions += 1;
    match catch(|| FlattenedJson::from_raw(&raw).get_str("content.body").map(str::to_owned)) {
        Err(p) => out.push((panic_sig(&p, hostile_class(label)), format!("FlattenedJson::from_raw on {label}: {}", p.text))),
        Ok(b) => {
            t.outcome("hostile-event", if b.is_some() { "flattened" } else { "flattened-without-body" });
            // Nesting depth is not limited by the specification: a deeply nested event is a legal
            // event and its `content.body` is "alpha" by construction. (Numbers out of range are
            // not legal in events: not compared.)
            if hostile_class(label) == "from_raw-deep-nesting" {
                t.nontrivial += 1;
                if b.as_deref() != Some("alpha") {
                    out.push((
                        "flatten/nesting-beyond-serde_json-recursion-limit/property-not-found".into(),
                        format!("FlattenedJson::from_raw on {label}: content.body is \"alpha\", get_str gives {b:?}"),
                    ));
                }
            } else {
                t.unspecified += 1;
            }
        }
    }
    let mut rs = Ruleset::new();
    set_kind(&mut rs, 4, &vec![(0, true)]);
    t.transitions += 1;
    t.unspecified += 1;
    if let Err(p) = catch(|| rs.get_match(&raw, &ctx).is_some()) {
        out.push((panic_sig(&p, &format!("get_match-{}", hostile_class(label))), format!("Ruleset::get_match on {label}: {}", p.text)));
    }
    out
}

fn part_d(report: &Report) {
    let mut t = Tally::new();
    for (label, doc) in hostile_documents() {
        t.states += 1;
        for (sig, detail) in hostile_eval(&label, &doc, &mut t) {
            report.violation(&sig, || detail, || json!({"part": "hostile", "label": label, "document": doc}));
        }
    }
    report.merge(t);
}

// =======================================================================================

/// cost of the real calls, single thread (`c12 --bench`; not part of any verdict)
fn bench() {
    let env = select_env(0);
    let ch: Vec<Vec<Choice>> = (0..5).map(|k| choices(menu_size(k, Tier::Quick))).collect();
    let mut rs = Ruleset::new();
    for k in 0..5 {
        set_kind(&mut rs, k, ch[k].last().unwrap());
    }
    let t0 = std::time::Instant::now();
    let mut n = 0u64;
    for _ in 0..200_000 {
        for ei in 0..6 {
            n += rs.get_match(&env.events[ei], &env.ctx).is_some() as u64;
        }
    }
    println!("get_match: {:.2} us/call ({n})", t0.elapsed().as_secs_f64() * 1e6 / 1_200_000.0);
    let t0 = std::time::Instant::now();
    for _ in 0..1_200_000 {
        n += FlattenedJson::from_raw(&env.events[0]).get_str("sender").is_some() as u64;
    }
    println!("from_raw: {:.2} us/call ({n})", t0.elapsed().as_secs_f64() * 1e6 / 1_200_000.0);
    let t0 = std::time::Instant::now();
    for _ in 0..200_000 {
        for c4 in &ch[4] {
            set_kind(&mut rs, 4, c4);
        }
    }
    println!("set_kind(underride): {:.2} us/call", t0.elapsed().as_secs_f64() * 1e6 / (200_000.0 * ch[4].len() as f64));
    let tenv = text_env("a b\na").unwrap();
    let (ctx, _) = base_ctx("!r:x", 2, "dn");
    for p in ["a*", "a?b", "ab", "*"] {
        let cond = mk_cond(Mode::Word, p);
        let t0 = std::time::Instant::now();
        for _ in 0..100_000 {
            n += cond.applies(&tenv.flat, &ctx) as u64;
        }
        println!("word match {p:?}: {:.2} us/call ({n})", t0.elapsed().as_secs_f64() * 1e6 / 100_000.0);
    }
}

fn replay(case: &Value) -> Vec<(String, String)> {
    let mut t = Tally::new();
    match case["part"].as_str().unwrap_or("") {
        "glob" => glob_replay(case),
        "flatten" => flatten_eval(&case["object"], &fixed_probes(), &mut t),
        "prop" => prop_eval(
            case["name"].as_u64().unwrap_or(0) as usize % PROP_NAMES.len(),
            &case["value"],
            &scalar_from_json(&case["scalar"]),
            case["contains"].as_bool().unwrap_or(false),
            &mut t,
        ),
        "count" => count_eval(
            case["op"].as_u64().unwrap_or(0) as usize % 5,
            case["count"].as_u64().unwrap_or(0),
            case["threshold"].as_u64().unwrap_or(0),
            case["spelling"].as_u64().unwrap_or(0) as usize,
            &mut t,
        ),
        "perm" => {
            let c: Vec<usize> = serde_json::from_value(case["choice"].clone()).unwrap_or_default();
            match <[usize; 6]>::try_from(c) {
                Ok(c) => perm_eval(c, &mut t),
                Err(_) => machinery_error("bad perm case"),
            }
        }
        "select" => select_replay(case),
        "room-id-match" => room_id_eval(case["room"].as_str().unwrap_or(""), case["pattern"].as_str().unwrap_or(""), &mut t),
        "event-match-non-string" => {
            nonstring_eval(&case["event"], case["key"].as_str().unwrap_or(""), case["pattern"].as_str().unwrap_or(""), &mut t)
        }
        "hostile" => hostile_eval(case["label"].as_str().unwrap_or(""), case["document"].as_str().unwrap_or(""), &mut t),
        other => machinery_error(&format!("unknown part {other:?} in replay")),
    }
}

fn main() {
    let args = parse_args();
    if let Some(p) = &args.replay {
        replay_and_exit("C12", p, replay);
    }
    if args.extra.iter().any(|a| a == "--bench") {
        bench();
        return;
    }
    let report = Report::new("C12", "model_checking", &args);
    let b = glob_bounds(args.tier);
    report.set_rule(&format!(
        "product explorer, four parts. A: all (pattern, text) pairs over the 9-symbol alphabet (texts one symbol below the bound also with swapped letter case) \
         {{a B _ - space \\n é * ?}} in the rectangles (pattern length <= p, text length <= t) = {:?} for patterns \
         containing a wildcard and {:?} for literal patterns x \
         {{EventMatch on content.body (word mode), EventMatch on content.k (whole mode), ContainsDisplayName, \
         content rule via Ruleset::get_match (texts <= {})}} vs lower-case + glob DP + word-boundary reference. \
         B: every JSON object <= 4 nodes over keys {{a . \\ a.b a\\.b}} x 7 leaf kinds: FlattenedJson::get/get_str on \
         all reference paths + 56 fixed probe paths vs reference flatten; EventPropertyIs/Contains over 12 scalars x 36 \
         event values x 3 property names; RoomMemberCount 5 operators x counts 0..3 x thresholds 0..3 x struct/wire \
         spellings; SenderNotificationPermission 2 senders x 5 users entries x 3 users_default x 3 notifications.room \
         (+ 10 cases without power levels / other key / missing or invalid sender, not compared); EventMatch with 11 patterns \
         (`*`, empty, `?`, ...) on a property that is absent / null / bool / number / array / object (never holds); EventMatch on `room_id` with exact, \
         case-changed, `?`-substituted, prefix-`*` and shortened patterns of two room IDs; A2: every pattern <= 3 over {{a . ( [ \\ + * ?}} containing a regex \
         metacharacter x every text <= 3 over {{a . ( [ \\ b}} through the four glob entry points. C: every ruleset with 0..2 ordered rules per kind from a per-kind menu \
         (sizes {:?}; always-true, always-false, body-dependent, member-count + property conditions; literal content \
         patterns; room / sender ids) x enabled flags x 6 events x 2 contexts through get_match (and get_actions in the \
         first context) vs first enabled rule in kind order whose reference conditions hold; thorough tier also the \
         product with a wildcard content pattern (b?ta*) in every content choice. D: nesting ladder 100..1000 and out-of-range numbers through \
         from_raw/get_match (no panic). state = one complete input (pair / object / condition case / (ruleset, event, \
         context)); transition = one call of real ruma code; non-trivial = a case with at least one entry point \
         whose answer the reference defines (not Unspecified)",
        b.wild,
        b.literal,
        b.content_rule_text_len,
        (0..5).map(|k| menu_size(k, args.tier)).collect::<Vec<_>>(),
    ));
    report.assume("reference = mc_common::push_model, transcribed from DESIGN.md Appendix A.6 (spec v1.14 push rules)");
    report.assume("empty glob pattern, display names containing * or ?, lookup paths with non-canonical escapes, empty objects, floats / integers beyond 2^53, sender_notification_permission without power levels / for keys other than `room` / without a valid sender: executed, not compared (Unspecified)");
    report.assume("room and sender rules are the implicit event_match on room_id / sender; menu ids are lower case without glob characters; event.room_id equals the context room");

    let mut walls = serde_json::Map::new();
    let mut timed = |name: &str, f: &dyn Fn()| {
        let t0 = std::time::Instant::now();
        f();
        walls.insert(name.to_owned(), json!((t0.elapsed().as_secs_f64() * 10.0).round() / 10.0));
    };
    timed("A-glob", &|| part_a(&report, args.tier));
    timed("B1-flatten", &|| part_b1(&report));
    timed("B2-property", &|| part_b2(&report));
    timed("B3-member-count", &|| part_b3(&report));
    timed("B4-sender-permission", &|| part_b4(&report));
    timed("B5-event-match-non-string", &|| part_b5(&report));
    timed("B6-event-match-room-id", &|| part_b6(&report));
    timed("A2-glob-metachar", &|| part_a2(&report));
    timed("C-rule-selection", &|| part_c(&report, args.tier));
    timed("D-hostile-events", &|| part_d(&report));
    report.set("part_wall_s", Value::Object(walls));
    report.finish()
}

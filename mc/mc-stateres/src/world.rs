//! Builders for concrete rooms / events (plain data) and the bridge to the real
//! `ruma_state_res::auth_check`.

use std::{
    cell::RefCell,
    collections::{BTreeMap, HashMap},
    sync::Arc,
};

use engine::{catch, Panicked};
use ruma_common::{room_version_rules::AuthorizationRules, RoomVersionId};
use ruma_events::StateEventType;
use serde_json::{json, Map, Value};

use crate::pdu::{state_insert, Ev, Pdu, RefState};

pub const ROOM: &str = "!r:s1";
pub const CREATOR: &str = "@c:s1";
pub const SENDER: &str = "@s:s1";
pub const TARGET: &str = "@t:s1";
pub const VIA: &str = "@a:s1";
pub const BYSTANDER: &str = "@z:s2";

pub fn auth_rules(v: u8) -> AuthorizationRules {
    RoomVersionId::try_from(v.to_string().as_str())
        .expect("version id")
        .rules()
        .expect("known version")
        .authorization
}

pub fn ev(
    id: &str,
    sender: &str,
    ty: &str,
    state_key: Option<&str>,
    content: Value,
) -> Ev {
    Ev {
        event_id: id.to_owned(),
        room_id: ROOM.to_owned(),
        sender: sender.to_owned(),
        ty: ty.to_owned(),
        state_key: state_key.map(str::to_owned),
        content: content.to_string(),
        prev_events: vec![],
        auth_events: vec![],
        redacts: None,
        ts: 1000,
    }
}

pub fn create_event(v: u8) -> Ev {
    let mut c = Map::new();
    if v <= 10 {
        c.insert("creator".into(), json!(CREATOR));
    }
    c.insert("room_version".into(), json!(v.to_string()));
    ev("$create:s1", CREATOR, "m.room.create", Some(""), Value::Object(c))
}

pub fn member_event(user: &str, membership: &str) -> Ev {
    let sender = match membership {
        "invite" | "ban" => CREATOR,
        _ => user,
    };
    let id = format!("$m-{}:s1", user.trim_start_matches('@').replace(':', "-"));
    ev(&id, sender, "m.room.member", Some(user), json!({ "membership": membership }))
}

pub fn join_rules_event(rule: &Value) -> Ev {
    ev("$jr:s1", CREATOR, "m.room.join_rules", Some(""), json!({ "join_rule": rule }))
}

pub fn power_levels_event(content: Value) -> Ev {
    ev("$pl:s1", CREATOR, "m.room.power_levels", Some(""), content)
}

/// Power-levels content builder.
#[derive(Clone, Debug, Default)]
pub struct Pl {
    pub fields: BTreeMap<&'static str, Value>,
    pub users: Option<BTreeMap<String, Value>>,
    pub events: Option<BTreeMap<String, Value>>,
    pub notifications: Option<BTreeMap<String, Value>>,
}

impl Pl {
    pub fn field(mut self, name: &'static str, v: Option<Value>) -> Self {
        if let Some(v) = v {
            self.fields.insert(name, v);
        }
        self
    }
    pub fn user(mut self, user: &str, v: Option<Value>) -> Self {
        if let Some(v) = v {
            self.users.get_or_insert_with(Default::default).insert(user.to_owned(), v);
        }
        self
    }
    pub fn event(mut self, ty: &str, v: Option<Value>) -> Self {
        if let Some(v) = v {
            self.events.get_or_insert_with(Default::default).insert(ty.to_owned(), v);
        }
        self
    }
    pub fn notification(mut self, k: &str, v: Option<Value>) -> Self {
        if let Some(v) = v {
            self.notifications.get_or_insert_with(Default::default).insert(k.to_owned(), v);
        }
        self
    }
    pub fn to_value(&self) -> Value {
        let mut m = Map::new();
        for (k, v) in &self.fields {
            m.insert((*k).to_owned(), v.clone());
        }
        if let Some(u) = &self.users {
            m.insert("users".into(), json!(u));
        }
        if let Some(u) = &self.events {
            m.insert("events".into(), json!(u));
        }
        if let Some(u) = &self.notifications {
            m.insert("notifications".into(), json!(u));
        }
        Value::Object(m)
    }
}

/// A room state under construction.
#[derive(Clone, Debug, Default)]
pub struct Room {
    pub state: RefState,
}

impl Room {
    pub fn new(v: u8) -> Self {
        let mut r = Room::default();
        r.put(create_event(v));
        r
    }
    pub fn put(&mut self, e: Ev) -> &mut Self {
        state_insert(&mut self.state, e);
        self
    }
    pub fn member(&mut self, user: &str, membership: Option<&str>) -> &mut Self {
        if let Some(m) = membership {
            self.put(member_event(user, m));
        }
        self
    }
    pub fn join_rule(&mut self, rule: Option<&Value>) -> &mut Self {
        if let Some(r) = rule {
            self.put(join_rules_event(r));
        }
        self
    }
    pub fn pl(&mut self, pl: Option<&Pl>) -> &mut Self {
        if let Some(p) = pl {
            self.put(power_levels_event(p.to_value()));
        }
        self
    }
    pub fn id_of(&self, ty: &str, key: &str) -> Option<String> {
        self.state.get(&(ty.to_owned(), key.to_owned())).map(|e| e.event_id.clone())
    }
}

/// Fill `auth_events` of `e` with the ids of the state events at the spec-selected keys.
pub fn fill_auth_events(v: u8, e: &mut Ev, state: &RefState) {
    let sel = crate::spec_auth::auth_selection(v, e).unwrap_or_else(|_| {
        vec![
            ("m.room.create".to_owned(), String::new()),
            ("m.room.power_levels".to_owned(), String::new()),
            ("m.room.member".to_owned(), e.sender.clone()),
        ]
    });
    e.auth_events = sel.iter().filter_map(|k| state.get(k).map(|s| s.event_id.clone())).collect();
}

thread_local! {
    static READS: RefCell<Vec<(String, String)>> = const { RefCell::new(Vec::new()) };
}

pub struct RealOutcome {
    pub result: Result<Result<(), String>, Panicked>,
    pub reads: Vec<(String, String)>,
}

/// Run the real `auth_check` of room version `v` for `e` against `state`, recording every
/// `(type, state_key)` the implementation asks the state for.
pub fn real_auth(v: u8, e: &Ev, state: &RefState) -> Option<RealOutcome> {
    let rules = auth_rules(v);
    let pdu = Pdu::from_ev(e)?;
    let mut real: HashMap<(StateEventType, String), Arc<Pdu>> = HashMap::with_capacity(state.len());
    for ((ty, key), sev) in state {
        real.insert((StateEventType::from(ty.as_str()), key.clone()), Pdu::from_ev(sev)?);
    }
    READS.with(|r| r.borrow_mut().clear());
    let result = catch(|| {
        ruma_state_res::auth_check(&rules, &pdu, |ty, key| {
            READS.with(|r| r.borrow_mut().push((ty.to_string(), key.to_owned())));
            real.get(&(ty.clone(), key.to_owned())).cloned()
        })
    });
    let mut reads = READS.with(|r| std::mem::take(&mut *r.borrow_mut()));
    reads.sort();
    reads.dedup();
    Some(RealOutcome { result, reads })
}

/// The real auth-event selection as a sorted set of string pairs.
pub fn real_selection(v: u8, e: &Ev) -> Option<Result<Result<Vec<(String, String)>, String>, Panicked>> {
    let rules = auth_rules(v);
    let pdu = Pdu::from_ev(e)?;
    Some(catch(|| {
        ruma_state_res::auth_types_for_event(
            &pdu.ty,
            &pdu.sender,
            pdu.state_key.as_deref(),
            &pdu.content,
            &rules,
        )
        .map(|l| {
            let mut l: Vec<(String, String)> = l.into_iter().map(|(t, k)| (t.to_string(), k)).collect();
            l.sort();
            l.dedup();
            l
        })
    }))
}

//! shared helpers for the state-res / authorization checks (C06 C07 C08 C09 C20)
pub mod cases;
pub mod history;
pub mod pdu;
pub mod spec_auth;
pub mod spec_res;
pub mod tpi;
pub mod world;

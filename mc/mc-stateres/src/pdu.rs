//! A harness PDU type implementing `ruma_state_res::Event`, built from the plain-data
//! `Ev` the reference models work on.

use std::{collections::BTreeMap, sync::Arc};

use ruma_common::{
    EventId, MilliSecondsSinceUnixEpoch, OwnedEventId, OwnedRoomId, OwnedUserId, RoomId, UserId,
};
use ruma_events::TimelineEventType;
use ruma_state_res::Event;
use serde_json::{value::RawValue, Value};

/// Plain-data event: what the reference models see. Everything is a string / JSON value.
#[derive(Clone, Debug, PartialEq, Eq, Hash, PartialOrd, Ord)]
pub struct Ev {
    pub event_id: String,
    pub room_id: String,
    pub sender: String,
    pub ty: String,
    pub state_key: Option<String>,
    /// content as canonical-ish JSON text (kept as text so that `Ev` is Hash/Ord)
    pub content: String,
    pub prev_events: Vec<String>,
    pub auth_events: Vec<String>,
    pub redacts: Option<String>,
    pub ts: u64,
}

impl Ev {
    pub fn content_value(&self) -> Value {
        serde_json::from_str(&self.content).expect("harness content is valid JSON")
    }
    pub fn to_json(&self) -> Value {
        serde_json::json!({
            "event_id": self.event_id, "room_id": self.room_id, "sender": self.sender,
            "type": self.ty, "state_key": self.state_key, "content": self.content_value(),
            "prev_events": self.prev_events, "auth_events": self.auth_events,
            "redacts": self.redacts, "origin_server_ts": self.ts,
        })
    }
    pub fn from_json(v: &Value) -> Ev {
        let s = |k: &str| v[k].as_str().unwrap_or("").to_owned();
        let l = |k: &str| {
            v[k].as_array()
                .map(|a| a.iter().filter_map(|x| x.as_str().map(str::to_owned)).collect())
                .unwrap_or_default()
        };
        Ev {
            event_id: s("event_id"),
            room_id: s("room_id"),
            sender: s("sender"),
            ty: s("type"),
            state_key: v["state_key"].as_str().map(str::to_owned),
            content: v["content"].to_string(),
            prev_events: l("prev_events"),
            auth_events: l("auth_events"),
            redacts: v["redacts"].as_str().map(str::to_owned),
            ts: v["origin_server_ts"].as_u64().unwrap_or(0),
        }
    }
}

/// The real-code side PDU.
#[derive(Debug)]
pub struct Pdu {
    pub event_id: OwnedEventId,
    pub room_id: OwnedRoomId,
    pub sender: OwnedUserId,
    pub ts: MilliSecondsSinceUnixEpoch,
    pub ty: TimelineEventType,
    pub content: Box<RawValue>,
    pub state_key: Option<String>,
    pub prev_events: Vec<OwnedEventId>,
    pub auth_events: Vec<OwnedEventId>,
    pub redacts: Option<OwnedEventId>,
}

impl Pdu {
    /// Build from plain data; `None` if an identifier does not parse (the harness only
    /// builds events whose identifiers ruma accepts).
    pub fn from_ev(ev: &Ev) -> Option<Arc<Pdu>> {
        let ids = |l: &Vec<String>| -> Option<Vec<OwnedEventId>> {
            l.iter().map(|s| EventId::parse(s.as_str()).ok()).collect()
        };
        Some(Arc::new(Pdu {
            event_id: EventId::parse(ev.event_id.as_str()).ok()?,
            room_id: RoomId::parse(ev.room_id.as_str()).ok()?,
            sender: UserId::parse(ev.sender.as_str()).ok()?,
            ts: MilliSecondsSinceUnixEpoch(js_int::UInt::new(ev.ts)?),
            ty: TimelineEventType::from(ev.ty.as_str()),
            content: RawValue::from_string(ev.content.clone()).ok()?,
            state_key: ev.state_key.clone(),
            prev_events: ids(&ev.prev_events)?,
            auth_events: ids(&ev.auth_events)?,
            redacts: match &ev.redacts {
                Some(r) => Some(EventId::parse(r.as_str()).ok()?),
                None => None,
            },
        }))
    }
}

impl Event for Pdu {
    type Id = OwnedEventId;

    fn event_id(&self) -> &Self::Id {
        &self.event_id
    }
    fn room_id(&self) -> &RoomId {
        &self.room_id
    }
    fn sender(&self) -> &UserId {
        &self.sender
    }
    fn origin_server_ts(&self) -> MilliSecondsSinceUnixEpoch {
        self.ts
    }
    fn event_type(&self) -> &TimelineEventType {
        &self.ty
    }
    fn content(&self) -> &RawValue {
        &self.content
    }
    fn state_key(&self) -> Option<&str> {
        self.state_key.as_deref()
    }
    fn prev_events(&self) -> Box<dyn DoubleEndedIterator<Item = &Self::Id> + '_> {
        Box::new(self.prev_events.iter())
    }
    fn auth_events(&self) -> Box<dyn DoubleEndedIterator<Item = &Self::Id> + '_> {
        Box::new(self.auth_events.iter())
    }
    fn redacts(&self) -> Option<&Self::Id> {
        self.redacts.as_ref()
    }
}

/// A room state as the reference sees it.
pub type RefState = BTreeMap<(String, String), Ev>;

pub fn state_insert(st: &mut RefState, ev: Ev) {
    let key = (ev.ty.clone(), ev.state_key.clone().unwrap_or_default());
    st.insert(key, ev);
}

//! C20 — power-level helper predicates agree with the authorization rules.
//!
//! P-explorer: room versions 3..=11 x every power-levels content from a product of
//! {absent, below, at, above} per threshold / user entry (integer and, before v10, string
//! encodings) x actor/target memberships: each `RoomPowerLevels` helper answer must equal
//! `ruma_state_res::auth_check(..).is_ok()` on the corresponding minimal event sent by the
//! actor as a joined member, and `user_can_trigger_room_notification` must equal the
//! `sender_notification_permission` push condition.

use engine::{
    catch, parse_args, par_shards, replay_and_exit,
    spec::redaction::{redact_content, RefRedact},
    Report, Tally,
};
use mc_stateres::{
    pdu::Ev,
    world::{self, real_auth, Pl, Room, CREATOR, SENDER, TARGET},
};
use ruma_common::{
    push::{FlattenedJson, PushCondition, PushConditionPowerLevelsCtx, PushConditionRoomCtx},
    serde::Raw,
    RoomVersionId, UserId,
};
use ruma_events::{
    room::power_levels::{
        NotificationPowerLevelType, PowerLevelAction, PowerLevelUserAction, RoomPowerLevels, RoomPowerLevelsEventContent,
        SyncRoomPowerLevelsEvent,
    },
    RedactContent,
    MessageLikeEventType, StateEventType,
};
use serde_json::{json, Value};

#[derive(Clone, Copy, PartialEq, Debug)]
enum Enc {
    Int,
    Str,
    PaddedStr,
}

fn enc(e: Enc, n: i64) -> Value {
    match e {
        Enc::Int => json!(n),
        Enc::Str => json!(n.to_string()),
        Enc::PaddedStr => json!(format!(" {}{} ", if n >= 0 { "+" } else { "" }, n)),
    }
}

/// level menus; the thorough tier adds a negative threshold, 100 (the creator's default level) and more targets
fn menus(thorough: bool) -> (Vec<Option<i64>>, Vec<Option<i64>>, Vec<Option<i64>>, Vec<Option<i64>>) {
    let mut thresh = vec![None, Some(0), Some(49), Some(50), Some(51)];
    let mut actor = vec![None, Some(-1), Some(0), Some(49), Some(50), Some(51)];
    let mut target = vec![None, Some(49), Some(50), Some(51)];
    let mut udef = vec![None, Some(-1), Some(50)];
    if thorough {
        thresh.extend([Some(-1), Some(100)]);
        actor.push(Some(100));
        target.extend([Some(0), Some(100)]);
        udef.push(Some(0));
    }
    (thresh, actor, target, udef)
}

#[derive(Clone, Debug)]
struct Case {
    v: u8,
    pl: Value,
    family: &'static str,
}

fn helpers(pl: &Value) -> Option<RoomPowerLevels> {
    let c: RoomPowerLevelsEventContent = serde_json::from_value(pl.clone()).ok()?;
    Some(c.into())
}

fn room_with(v: u8, pl: &Value, target_m: Option<&str>) -> Room {
    let mut room = Room::new(v);
    room.join_rule(Some(&json!("public"))).member(SENDER, Some("join")).member(TARGET, target_m);
    room.put(world::power_levels_event(pl.clone()));
    room
}

/// the same room, but created by the acting user: with a power-levels event in the state the creator has the
/// level that event gives them, like anybody else
fn room_created_by_actor(v: u8, pl: &Value) -> Room {
    let mut room = room_with(v, pl, None);
    let mut create = world::create_event(v);
    create.sender = SENDER.to_owned();
    let mut c = create.content_value();
    if c.get("creator").is_some() {
        c["creator"] = json!(SENDER);
    }
    create.content = c.to_string();
    room.put(create);
    room
}

fn auth_ok(v: u8, room: &Room, mut e: Ev, t: &mut Tally) -> Result<bool, String> {
    world::fill_auth_events(v, &mut e, &room.state);
    e.prev_events = vec!["$prev:s1".to_owned()];
    t.transitions += 1;
    match real_auth(v, &e, &room.state).map(|r| r.result) {
        Some(Ok(r)) => Ok(r.is_ok()),
        Some(Err(p)) => Err(p.text),
        None => Err("event not constructible".into()),
    }
}

fn member(target: &str, membership: &str) -> Ev {
    world::ev("$new:s1", SENDER, "m.room.member", Some(target), json!({"membership": membership}))
}

/// The helpers as a client obtains them when the room's power-levels event has been redacted, and the
/// content the authorization rules then read (reference redaction of the content for that version):
/// (a) typed content -> `RedactContent::redact` -> `RoomPowerLevels`; (b) the redacted JSON as it
/// arrives on the wire -> `SyncRoomPowerLevelsEvent` (redacted variant) -> `power_levels()`; both must
/// be the same helper object.
fn redacted_helpers(v: u8, pl: &Value, out: &mut Vec<(String, String)>) -> Option<(RoomPowerLevels, Value)> {
    let RefRedact::Must(red) = redact_content(v, "m.room.power_levels", pl.as_object()?) else { return None };
    let red = Value::Object(red);
    let rules = RoomVersionId::try_from(v.to_string().as_str()).ok()?.rules()?;
    let typed: RoomPowerLevelsEventContent = serde_json::from_value(pl.clone()).ok()?;
    let a: RoomPowerLevels = match catch(|| typed.redact(&rules.redaction)) {
        Ok(r) => r.into(),
        Err(p) => {
            out.push(("panic/redact-content".into(), p.text));
            return None;
        }
    };
    let wire = json!({
        "type": "m.room.power_levels", "state_key": "", "event_id": "$pl:s1", "sender": CREATOR,
        "origin_server_ts": 1, "content": red,
        "unsigned": {"redacted_because": {"type": "m.room.redaction", "event_id": "$r:s1", "sender": CREATOR,
            "origin_server_ts": 2, "redacts": "$pl:s1", "content": {"redacts": "$pl:s1"}}},
    });
    match serde_json::from_value::<SyncRoomPowerLevelsEvent>(wire) {
        Ok(ev) => {
            if !matches!(ev, SyncRoomPowerLevelsEvent::Redacted(_)) {
                out.push((format!("redacted-wire/v{v}/not-the-redacted-variant"), format!("content {red}")));
            }
            let b = ev.power_levels();
            if format!("{a:?}") != format!("{b:?}") {
                out.push((
                    format!("redacted-helpers-differ/v{v}"),
                    format!("redact() gives {a:?}, the redacted event from the wire gives {b:?}; original content {pl}"),
                ));
            }
        }
        Err(e) => out.push((format!("redacted-wire/v{v}/rejected"), format!("{e}; content {red}"))),
    }
    Some((a, red))
}

fn eval(case: &Case, t: &mut Tally) -> Vec<(String, String)> {
    let mut out = vec![];
    let Some(h) = helpers(&case.pl) else {
        t.unspecified += 1;
        t.outcome("helpers", "content rejected by the typed deserializer");
        return out;
    };
    out.extend(eval_path(case, "", h, t));
    // the same questions when the power-levels event in the room state is a redacted one
    if let Some((h, red)) = redacted_helpers(case.v, &case.pl, &mut out) {
        t.outcome("path", "redacted");
        let c2 = Case { v: case.v, pl: red, family: case.family };
        out.extend(eval_path(&c2, "redacted/", h, t));
    }
    out
}

fn eval_path(case: &Case, path: &str, h: RoomPowerLevels, t: &mut Tally) -> Vec<(String, String)> {
    let mut out = vec![];
    let v = case.v;
    let actor = <&UserId>::try_from(SENDER).unwrap();
    let target = <&UserId>::try_from(TARGET).unwrap();
    let mut cmp = |name: &str, helper: bool, auth: Result<bool, String>, ctx: String, t: &mut Tally| match auth {
        Ok(a) => {
            t.outcome("agree", if a { "yes" } else { "no" });
            t.nontrivial += 1;
            if a != helper {
                out.push((
                    format!("{path}{name}/v{v}/helper-{}-auth-{}", helper, a),
                    format!("{name}: helper says {helper}, auth_check says {a}; {ctx}; power_levels {}", case.pl),
                ));
            }
        }
        Err(p) => out.push((format!("panic/{name}"), p)),
    };
    match case.family {
        "user-actions" => {
            for target_m in [Some("join"), Some("invite"), Some("leave"), None, Some("knock")] {
                let room = room_with(v, &case.pl, target_m);
                let r = catch(|| h.user_can_ban_user(actor, target));
                let Ok(hv) = r else { out.push(("panic/helper".into(), r.unwrap_err().text)); return out };
                let a = auth_ok(v, &room, member(TARGET, "ban"), t);
                cmp("user_can_do_to_user(Ban)", h.user_can_do_to_user(actor, target, PowerLevelUserAction::Ban), a.clone(), format!("target {target_m:?}"), t);
                cmp("user_can_ban_user", hv, a, format!("target {target_m:?}"), t);
            }
            {
                let room = room_with(v, &case.pl, Some("ban"));
                let a = auth_ok(v, &room, member(TARGET, "leave"), t);
                cmp("user_can_do_to_user(Unban)", h.user_can_do_to_user(actor, target, PowerLevelUserAction::Unban), a.clone(), "target banned".into(), t);
                cmp("user_can_unban_user", h.user_can_unban_user(actor, target), a, "target banned".into(), t);
                // banning an already banned user follows the ban rule too
                cmp("user_can_ban_user", h.user_can_ban_user(actor, target), auth_ok(v, &room, member(TARGET, "ban"), t), "target banned".into(), t);
            }
            for target_m in [Some("join"), Some("invite")] {
                let room = room_with(v, &case.pl, target_m);
                let a = auth_ok(v, &room, member(TARGET, "leave"), t);
                cmp("user_can_do_to_user(Kick)", h.user_can_do_to_user(actor, target, PowerLevelUserAction::Kick), a.clone(), format!("target {target_m:?}"), t);
                cmp("user_can_kick_user", h.user_can_kick_user(actor, target), a, format!("target {target_m:?}"), t);
            }
            // (an invite may be sent again to somebody who is already invited: same rule, same level)
            for target_m in [Some("leave"), None, Some("knock"), Some("invite")] {
                if target_m == Some("knock") && v < 7 {
                    continue;
                }
                let room = room_with(v, &case.pl, target_m);
                let a = auth_ok(v, &room, member(TARGET, "invite"), t);
                cmp("user_can_do_to_user(Invite)", h.user_can_do_to_user(actor, target, PowerLevelUserAction::Invite), a.clone(), format!("target {target_m:?}"), t);
                cmp("user_can_do(Invite)", h.user_can_do(actor, PowerLevelAction::Invite), a.clone(), format!("target {target_m:?}"), t);
                cmp("user_can_invite", h.user_can_invite(actor), a, format!("target {target_m:?}"), t);
            }
        }
        "send" => {
          for (room, who) in [(room_with(v, &case.pl, None), ""), (room_created_by_actor(v, &case.pl), "actor created the room; ")] {
            for ty in ["m.room.message", "m.reaction", "x.custom"] {
                let e = world::ev("$new:s1", SENDER, ty, None, json!({"body": "x"}));
                let a = auth_ok(v, &room, e, t);
                cmp(
                    "user_can_do(SendMessage)",
                    h.user_can_do(actor, PowerLevelAction::SendMessage(MessageLikeEventType::from(ty))),
                    a.clone(),
                    format!("{who}type {ty}"),
                    t,
                );
                // the level accessors must tell the same story as the predicate
                cmp(
                    "for_user>=for_message",
                    h.for_user(actor) >= h.for_message(MessageLikeEventType::from(ty)),
                    a.clone(),
                    format!("{who}type {ty}"),
                    t,
                );
                cmp("user_can_send_message", h.user_can_send_message(actor, MessageLikeEventType::from(ty)), a, format!("{who}type {ty}"), t);
            }
            for ty in ["m.room.name", "m.room.topic", "x.custom", "m.room.power_levels"] {
                // a power-levels event that changes nothing (the current content again) needs exactly the level
                // required for its type: the per-entry rules of that event type have nothing to object to
                let content = if ty == "m.room.power_levels" { case.pl.clone() } else { json!({"name": "x"}) };
                let e = world::ev("$new:s1", SENDER, ty, Some(""), content);
                let a = auth_ok(v, &room, e, t);
                cmp(
                    "user_can_do(SendState)",
                    h.user_can_do(actor, PowerLevelAction::SendState(StateEventType::from(ty))),
                    a.clone(),
                    format!("{who}type {ty}"),
                    t,
                );
                cmp(
                    "for_user>=for_state",
                    h.for_user(actor) >= h.for_state(StateEventType::from(ty)),
                    a.clone(),
                    format!("{who}type {ty}"),
                    t,
                );
                cmp("user_can_send_state", h.user_can_send_state(actor, StateEventType::from(ty)), a, format!("{who}type {ty}"), t);
            }
          }
        }
        "for-user" => {
            // effective level through a threshold sweep: auth accepts a message whose type needs L iff L <= for_user
            let level: i64 = h.for_user(actor).into();
            for l in [level - 1, level, level + 1] {
                let mut pl = case.pl.clone();
                pl["events"] = json!({"x.sweep": l});
                let room = room_with(v, &pl, None);
                let e = world::ev("$new:s1", SENDER, "x.sweep", None, json!({}));
                cmp("for_user", l <= level, auth_ok(v, &room, e, t), format!("threshold {l}, for_user {level}"), t);
            }
        }
        "notifications" => {
            let ctx = PushConditionRoomCtx {
                room_id: world::ROOM.try_into().unwrap(),
                member_count: 3u32.into(),
                user_id: CREATOR.try_into().unwrap(),
                user_display_name: "c".into(),
                power_levels: Some(PushConditionPowerLevelsCtx::from(h.clone())),
            };
            let raw: Raw<Value> = Raw::new(&json!({"sender": SENDER, "type": "m.room.message", "content": {"body": "@room"}})).unwrap();
            let cond = PushCondition::SenderNotificationPermission { key: "room".into() };
            t.transitions += 1;
            match catch(|| cond.applies(&FlattenedJson::from_raw(&raw), &ctx)) {
                Ok(push) => {
                    let helper = h.user_can_trigger_room_notification(actor);
                    t.outcome("agree", if push { "yes" } else { "no" });
                    t.nontrivial += 1;
                    // independent reading of the content (spec: default 50 for `room`, 0 for users_default)
                    let num = |v: Option<&Value>| -> Option<i64> {
                        match v {
                            Some(Value::Number(n)) => n.as_i64(),
                            Some(Value::String(s)) => s.trim().trim_start_matches('+').parse().ok(),
                            _ => None,
                        }
                    };
                    let lvl = num(case.pl.get("users").and_then(|u| u.get(SENDER)))
                        .or_else(|| num(case.pl.get("users_default")))
                        .unwrap_or(0);
                    let thr = num(case.pl.get("notifications").and_then(|n| n.get("room"))).unwrap_or(50);
                    if (lvl >= thr) != push {
                        out.push((
                            format!("{path}sender_notification_permission/v{v}/push-{push}-spec-{}", lvl >= thr),
                            format!("push condition {push}, spec reading level {lvl} vs notifications.room {thr}; power_levels {}", case.pl),
                        ));
                    }
                    let via_do = h.user_can_do(actor, PowerLevelAction::TriggerNotification(NotificationPowerLevelType::Room));
                    if via_do != helper {
                        out.push((
                            format!("user_can_do(TriggerNotification)/v{v}/dispatch-{via_do}-helper-{helper}"),
                            format!("user_can_do {via_do}, user_can_trigger_room_notification {helper}; power_levels {}", case.pl),
                        ));
                    }
                    if push != helper {
                        out.push((
                            format!("{path}user_can_trigger_room_notification/v{v}/helper-{helper}-push-{push}"),
                            format!("helper {helper}, push condition {push}; power_levels {}", case.pl),
                        ));
                    }
                }
                Err(p) => out.push(("panic/push-condition".into(), p.text)),
            }
        }
        _ => unreachable!(),
    }
    out
}

fn encs(v: u8) -> Vec<Enc> {
    if v < 10 {
        vec![Enc::Int, Enc::Str, Enc::PaddedStr]
    } else {
        vec![Enc::Int]
    }
}

fn for_cases(v: u8, family: &'static str, thorough: bool, f: &mut dyn FnMut(Case)) {
    let (thresh, actor, targetl, udefs) = menus(thorough);
    #[allow(non_snake_case)]
    let (THRESH, ACTOR, TARGETL, UDEF) = (&thresh, &actor, &targetl, &udefs);
    for e in encs(v) {
        match family {
            "user-actions" => {
                for ban in THRESH.iter().copied() {
                    for kick in THRESH.iter().copied() {
                        for invite in THRESH.iter().copied() {
                            for udef in UDEF.iter().copied() {
                                for a in ACTOR.iter().copied() {
                                    for tl in TARGETL.iter().copied() {
                                        let pl = Pl::default()
                                            .field("ban", ban.map(|n| enc(e, n)))
                                            .field("kick", kick.map(|n| enc(e, n)))
                                            .field("invite", invite.map(|n| enc(e, n)))
                                            .field("users_default", udef.map(|n| enc(e, n)))
                                            .user(SENDER, a.map(|n| enc(e, n)))
                                            .user(TARGET, tl.map(|n| enc(e, n)))
                                            .user(CREATOR, Some(enc(e, 100)));
                                        f(Case { v, pl: pl.to_value(), family });
                                    }
                                }
                            }
                        }
                    }
                }
            }
            "send" => {
                for ed in THRESH.iter().copied() {
                    for sd in THRESH.iter().copied() {
                        for udef in UDEF.iter().copied() {
                            for a in ACTOR.iter().copied() {
                                for (ety, el) in [(None, None), (Some("m.room.message"), Some(50)), (Some("m.room.name"), Some(50)), (Some("x.custom"), Some(49)), (Some("m.reaction"), Some(51)), (Some("m.room.power_levels"), Some(51)), (Some("m.room.power_levels"), Some(0))] {
                                    let pl = Pl::default()
                                        .field("events_default", ed.map(|n| enc(e, n)))
                                        .field("state_default", sd.map(|n| enc(e, n)))
                                        .field("users_default", udef.map(|n| enc(e, n)))
                                        .user(SENDER, a.map(|n| enc(e, n)))
                                        .event(ety.unwrap_or("x.none"), el.map(|n| enc(e, n)));
                                    f(Case { v, pl: pl.to_value(), family });
                                }
                            }
                        }
                    }
                }
            }
            "for-user" => {
                for udef in UDEF.iter().copied() {
                    for a in ACTOR.iter().copied() {
                        for other in [None, Some(70)] {
                            let pl = Pl::default()
                                .field("users_default", udef.map(|n| enc(e, n)))
                                .user(SENDER, a.map(|n| enc(e, n)))
                                .user(TARGET, other.map(|n| enc(e, n)));
                            f(Case { v, pl: pl.to_value(), family });
                        }
                    }
                }
            }
            "notifications" => {
                for room in THRESH.iter().copied() {
                    for udef in UDEF.iter().copied() {
                        for a in ACTOR.iter().copied() {
                            let pl = Pl::default()
                                .field("users_default", udef.map(|n| enc(e, n)))
                                .user(SENDER, a.map(|n| enc(e, n)))
                                .notification("room", room.map(|n| enc(e, n)));
                            f(Case { v, pl: pl.to_value(), family });
                        }
                    }
                }
            }
            _ => unreachable!(),
        }
    }
}

fn main() {
    let args = parse_args();
    if let Some(p) = &args.replay {
        replay_and_exit("C20", p, |c| {
            let fam = match c["family"].as_str() {
                Some("send") => "send",
                Some("for-user") => "for-user",
                Some("notifications") => "notifications",
                _ => "user-actions",
            };
            eval(&Case { v: c["v"].as_u64().unwrap_or(3) as u8, pl: c["pl"].clone(), family: fam }, &mut Tally::new())
        });
    }
    let report = Report::new("C20", "model_checking", &args);
    report.set_rule(
        "room versions 3..=11 x power_levels contents from the full product of thresholds {absent,0,49,50,51} (ban, kick, invite / \
         events_default, state_default, events[T] / notifications.room) x users_default {absent,-1,50} x actor entry {absent,-1,0,49,50,51} \
         x target entry {absent,49,50,51} x encodings {int; before v10 also \"50\" and \" +50 \"} x the target memberships each action applies \
         to: helper answer == real auth_check(..).is_ok() on the corresponding minimal event from the joined actor; for_user through a \
         threshold sweep; user_can_trigger_room_notification == sender_notification_permission push condition; every case a second \
         time with the power-levels event redacted (helpers from RedactContent::redact and from the redacted event as deserialized \
         from the wire, which must be equal; room state = reference redaction of the content for that version). state = one \
         (version, content) pair; transition = one real auth_check / push condition evaluation; non-trivial = one helper-vs-auth comparison",
    );
    report.assume("string levels from v10 are outside the property's quantifier (the auth rules reject the whole power_levels event)");
    report.require_outcomes("agree", 2);

    let thorough = args.tier.is_thorough();
    report.set("level_menus", json!(if thorough { "thresholds {absent,-1,0,49,50,51,100}, actor {absent,-1,0,49,50,51,100}, target {absent,0,49,50,51,100}, users_default {absent,-1,0,50}" } else { "thresholds {absent,0,49,50,51}, actor {absent,-1,0,49,50,51}, target {absent,49,50,51}, users_default {absent,-1,50}" }));
    let fams = ["user-actions", "send", "for-user", "notifications"];
    let shards: Vec<(u8, &'static str)> = (3..=11u8).flat_map(|v| fams.iter().map(move |f| (v, *f))).collect();
    par_shards(&report, shards.len(), |i, t| {
        let (v, fam) = shards[i];
        let mut n = 0u64;
        for_cases(v, fam, thorough, &mut |case| {
            n += 1;
            t.states += 1;
            if n % 2003 == 1 {
                t.sample(|| json!({"v": case.v, "family": case.family, "pl": case.pl}));
            }
            for (sig, detail) in eval(&case, t) {
                report.violation(&sig, || detail, || json!({"v": case.v, "family": case.family, "pl": case.pl}));
            }
        });
    });
    report.finish()
}

//! C08 — event authorization decides exactly as the spec's rules in every room version.
//!
//! P-explorer over the finite abstraction in `mc_stateres::cases` (12 rule families x room
//! versions 1..=11, each the full product of the dimensions the rule group observes); the
//! real `ruma_state_res::auth_check` runs on every triple and is compared with the
//! three-valued reference `mc_stateres::spec_auth::authorize` (DESIGN App. A.3).
//! S-part: BFS over reachable states of a 3-user room (see `bfs`).

use std::collections::{BTreeSet, HashSet, VecDeque};

use engine::{parse_args, par_shards, replay_and_exit, Report, Tally, Tier};
use mc_stateres::{
    cases::{for_family, Case, FAMILIES},
    pdu::{state_insert, Ev, RefState},
    spec_auth::{authorize, Ctx, Verdict},
    world::{self, real_auth, Pl, Room, CREATOR},
};
use serde_json::{json, Value};

fn eval(case: &Case, t: &mut Tally) -> Vec<(String, String)> {
    let mut out = vec![];
    let ctx = Ctx { v: case.v, ev: &case.ev, state: &case.state, tpi_signature_valid: case.tpi_sig_valid };
    let reference = authorize(&ctx);
    t.transitions += 1;
    let Some(real) = real_auth(case.v, &case.ev, &case.state) else {
        // identifiers ruma's parsers reject cannot be handed to auth_check at all
        t.outcome("c08", "not-constructible");
        t.unspecified += 1;
        return out;
    };
    let fam = case.family;
    match (&reference, &real.result) {
        (_, Err(p)) => out.push((format!("panic/{}/{fam}", p.file()), p.text.clone())),
        (Verdict::Unspecified(why), Ok(_)) => {
            t.unspecified += 1;
            t.outcome("c08", "unspecified");
            t.outcome("unspecified-zones", why);
        }
        (Verdict::Allow, Ok(Ok(()))) => {
            t.nontrivial += 1;
            t.outcome("c08", "allow");
            t.outcome(fam, "allow");
        }
        (Verdict::Reject(why), Ok(Err(_))) => {
            t.nontrivial += 1;
            t.outcome("c08", "reject");
            t.outcome(fam, "reject");
            t.outcome("reject-rules", why);
        }
        (Verdict::Allow, Ok(Err(msg))) => out.push((
            format!("{fam}/v{}/spec-allows-ruma-rejects/{}", case.v, short(msg)),
            format!("spec allows, ruma rejects with {msg:?}"),
        )),
        (Verdict::Reject(why), Ok(Ok(()))) => out.push((
            format!("{fam}/v{}/spec-rejects-ruma-allows/{why}", case.v),
            format!("spec rejects ({why}), ruma allows"),
        )),
    }
    out
}

/// first words of ruma's message: stable enough to class a divergence
fn short(msg: &str) -> String {
    msg.split_whitespace().take(6).collect::<Vec<_>>().join("_")
}

// ---------------------------------------------------------------------------------------
// S-part: reachable-state BFS of a 3-user room. Actions are member / power-level /
// join-rule events; an action is applied when the *implementation* accepts it, and both
// verdicts are compared at every (state, action) pair.

fn canon(state: &RefState) -> Vec<(String, String, String, String)> {
    state.iter().map(|((t, k), e)| (t.clone(), k.clone(), e.sender.clone(), e.content.clone())).collect()
}

fn bfs_actions(v: u8, depth: usize) -> Vec<Ev> {
    let users = [CREATOR, "@u:s1", "@w:s2"];
    let mut acts = vec![];
    let mut n = 0;
    let mut id = || {
        n += 1;
        format!("$a{n}-{depth}:s1")
    };
    for s in users {
        for t in users {
            for m in ["join", "invite", "leave", "ban", "knock"] {
                acts.push(world::ev(&id(), s, "m.room.member", Some(t), json!({"membership": m})));
            }
        }
        for jr in ["public", "invite", "knock", "restricted"] {
            acts.push(world::ev(&id(), s, "m.room.join_rules", Some(""), json!({"join_rule": jr})));
        }
        for (u_level, ban) in [(50, 50), (100, 50), (0, 0), (50, 100)] {
            let pl = Pl::default().user(CREATOR, Some(json!(100))).user("@u:s1", Some(json!(u_level))).field("ban", Some(json!(ban)));
            acts.push(world::ev(&id(), s, "m.room.power_levels", Some(""), pl.to_value()));
        }
        acts.push(world::ev(&id(), s, "m.room.topic", Some(""), json!({"topic": s})));
    }
    let _ = v;
    acts
}

fn bfs(report: &Report, v: u8, max_depth: usize, t: &mut Tally) {
    let mut room = Room::new(v);
    room.member(CREATOR, Some("join"));
    let mut seen: HashSet<Vec<(String, String, String, String)>> = HashSet::new();
    let mut frontier: VecDeque<(RefState, usize)> = VecDeque::new();
    seen.insert(canon(&room.state));
    frontier.push_back((room.state.clone(), 0));
    t.states += 1;
    while let Some((state, depth)) = frontier.pop_front() {
        if depth >= max_depth || report.over_budget("reachable-state BFS") {
            continue;
        }
        for mut act in bfs_actions(v, depth) {
            world::fill_auth_events(v, &mut act, &state);
            act.prev_events = vec!["$prev:s1".to_owned()];
            let case = Case { v, family: "bfs", ev: act.clone(), state: state.clone(), tpi_sig_valid: false };
            let viol = eval(&case, t);
            let mut accepted = matches!(real_auth(v, &act, &state).map(|r| r.result), Some(Ok(Ok(()))));
            for (sig, detail) in viol {
                if report.is_known_open(&sig) {
                    // resync: follow the reference after a recorded divergence
                    let ctx = Ctx { v, ev: &act, state: &state, tpi_signature_valid: false };
                    accepted = authorize(&ctx) == Verdict::Allow;
                }
                report.violation(&sig, || detail, || case.to_json());
            }
            if accepted {
                let mut next = state.clone();
                state_insert(&mut next, act);
                if seen.insert(canon(&next)) {
                    t.states += 1;
                    frontier.push_back((next, depth + 1));
                }
            }
        }
    }
}

fn main() {
    let args = parse_args();
    if let Some(p) = &args.replay {
        replay_and_exit("C08", p, |v| eval(&Case::from_json(v), &mut Tally::new()));
    }
    let report = Report::new("C08", "model_checking", &args);
    report.set_rule(
        "P: 12 rule families (create, common, member-join/invite/invite-tpi/leave/ban/knock/misc, power-levels, \
         generic, special) x room versions 1..=11, each the full product of the dimensions that rule group observes \
         (memberships incl. absent, join rules incl. unknown/malformed, levels absent/below/at/above every threshold, \
         int/string encodings, power_levels present/absent with creator/non-creator sender, federation, auth_events with/without \
         create, third-party-invite shapes with real Ed25519 signatures, every (old,new) pair per power-level slot and pairs of \
         slots); S: BFS over reachable states of a 3-user room (45 member + 12 join-rule + 12 power-level + 3 topic actions), \
         both verdicts compared at every (state, action). state = one distinct (version, state, event) triple / room state; \
         transition = one real auth_check call; non-trivial = reference answers Allow or Reject",
    );
    report.assume("reference = DESIGN.md Appendix A.3 (authorization rules v1-v11 transcribed from the spec)");
    report.assume("Unspecified zones (DESIGN §1.3) are executed but not compared: no join_rules event, malformed current power_levels/create/member events, absent power-level field compared through its default, non-plain string levels before v10");
    report.require_outcomes("c08", 3);
    for fam in FAMILIES {
        report.require_outcomes(fam, 2);
    }
    report.require_outcomes("bfs", 2);

    let shards: Vec<(&'static str, u8)> =
        FAMILIES.iter().flat_map(|f| (1..=11u8).map(move |v| (*f, v))).collect();
    let fam_counts = std::sync::Mutex::new(std::collections::BTreeMap::<String, u64>::new());
    par_shards(&report, shards.len(), |i, t| {
        let (fam, v) = shards[i];
        let mut n = 0u64;
        let mut distinct: BTreeSet<u64> = BTreeSet::new();
        for_family(args.tier, fam, v, &mut |case| {
            n += 1;
            if !distinct.insert(engine::fixed_hash(&(&case.ev, &case.state, case.tpi_sig_valid))) {
                return; // duplicate triple inside the shard
            }
            t.states += 1;
            if n % 4001 == 1 {
                t.sample(|| case.to_json());
            }
            for (sig, detail) in eval(&case, t) {
                report.violation(&sig, || detail, || case.to_json());
            }
        });
        *fam_counts.lock().unwrap().entry(fam.to_owned()).or_default() += distinct.len() as u64;
    });
    report.set("triples_per_family", json!(*fam_counts.lock().unwrap()));

    // S-part
    let depth = match args.tier {
        Tier::Quick => 4,
        Tier::Thorough => 6,
    };
    let versions: Vec<u8> = (1..=11).collect();
    par_shards(&report, versions.len(), |i, t| bfs(&report, versions[i], depth, t));
    report.set("bfs_depth", json!(depth));
    report.set("bfs_versions", Value::from(versions));
    report.finish()
}

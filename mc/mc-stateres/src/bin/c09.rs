//! C09 — auth-event selection matches the spec and authorization reads nothing else.
//!
//! Rides on the C08 triples: (1) `auth_types_for_event` as a set == spec selection;
//! (2) every `(type, state_key)` the real `auth_check` asks its `fetch_state` closure for is
//! inside the spec selection; (3) every single add / remove / replace of a state entry
//! outside the selection (pairs in the thorough tier) leaves the real verdict unchanged.

use std::collections::BTreeSet;

use engine::{parse_args, par_shards, replay_and_exit, Report, Tally, Tier};
use mc_stateres::{
    cases::{for_family, Case, FAMILIES},
    pdu::{state_insert, Ev, RefState},
    spec_auth::auth_selection,
    world::{self, real_auth, real_selection, BYSTANDER, CREATOR, SENDER, TARGET, VIA},
};
use serde_json::{json, Value};

/// Candidate state entries for perturbation: (type, key, variants of the event to put there)
fn universe() -> Vec<((String, String), Vec<Ev>)> {
    let mut u = vec![];
    for user in [BYSTANDER, TARGET, SENDER, VIA, CREATOR, "@t2:s1"] {
        let variants = ["join", "ban", "leave", "invite"]
            .iter()
            .map(|m| {
                let mut e = world::member_event(user, m);
                e.event_id = format!("$pert-{m}-{}:s1", user.trim_start_matches('@').replace(':', "-"));
                e
            })
            .collect();
        u.push((("m.room.member".to_owned(), user.to_owned()), variants));
    }
    let jr = ["public", "invite", "knock", "restricted"]
        .iter()
        .map(|r| {
            let mut e = world::join_rules_event(&json!(r));
            e.event_id = format!("$pert-jr-{r}:s1");
            e
        })
        .collect();
    u.push((("m.room.join_rules".to_owned(), String::new()), jr));
    for (ty, key, content) in [
        ("m.room.name", "", json!({"name": "n"})),
        ("m.room.topic", "", json!({"topic": "t"})),
        ("m.room.history_visibility", "", json!({"history_visibility": "joined"})),
        ("m.room.third_party_invite", "tok", json!({"display_name": "d", "key_validity_url": "https://x", "public_key": "AAAA"})),
        ("m.room.third_party_invite", "other-token", json!({"display_name": "d", "key_validity_url": "https://x", "public_key": "AAAA"})),
        ("m.room.server_acl", "", json!({"allow": [], "deny": ["*"]})),
    ] {
        let mut a = world::ev(&format!("$pert-{}-{}:s1", ty.replace('.', "-"), key), CREATOR, ty, Some(key), content.clone());
        let mut b = a.clone();
        b.event_id = format!("{}2", a.event_id.replace(":s1", ""));
        b.event_id.push_str(":s1");
        b.sender = BYSTANDER.to_owned();
        a.ts = 1;
        u.push(((ty.to_owned(), key.to_owned()), vec![a, b]));
    }
    u
}

fn verdict_label(v: u8, ev: &Ev, st: &RefState) -> Option<Result<bool, String>> {
    let r = real_auth(v, ev, st)?;
    Some(match r.result {
        Ok(Ok(())) => Ok(true),
        Ok(Err(_)) => Ok(false),
        Err(p) => Err(p.text),
    })
}

fn eval(tier: Tier, case: &Case, uni: &[((String, String), Vec<Ev>)], t: &mut Tally) -> Vec<(String, String)> {
    let mut out = vec![];
    let v = case.v;
    let fam = case.family;
    // (1) selection
    let spec_sel = auth_selection(v, &case.ev);
    t.transitions += 1;
    match real_selection(v, &case.ev) {
        None => {
            t.unspecified += 1;
            return out;
        }
        Some(Err(p)) => {
            out.push((format!("panic/{}/selection", p.file()), p.text));
            return out;
        }
        Some(Ok(real_sel)) => match (&spec_sel, &real_sel) {
            (Ok(s), Ok(r)) => {
                t.outcome("selection", &format!("{} keys", s.len()));
                if s != r {
                    let missing: Vec<_> = s.iter().filter(|k| !r.contains(k)).collect();
                    let extra: Vec<_> = r.iter().filter(|k| !s.contains(k)).collect();
                    let class = |l: &Vec<&(String, String)>| l.iter().map(|(t, _)| t.as_str()).collect::<BTreeSet<_>>().into_iter().collect::<Vec<_>>().join("+");
                    out.push((
                        format!("selection/v{v}/{fam}/missing[{}]/extra[{}]", class(&missing), class(&extra)),
                        format!("spec selects {s:?}, ruma selects {r:?}"),
                    ));
                }
            }
            (Ok(s), Err(e)) => out.push((
                format!("selection-error/v{v}/{fam}"),
                format!("spec selects {s:?}, ruma errors: {e}"),
            )),
            (Err(_), _) => {
                // malformed for the selection: executed, not compared
                t.unspecified += 1;
                t.outcome("selection", "malformed");
            }
        },
    }
    let Ok(sel) = spec_sel else { return out };

    // (2) reads within the selection
    t.transitions += 1;
    let Some(base) = real_auth(v, &case.ev, &case.state) else { return out };
    let base_label = match &base.result {
        Ok(Ok(())) => Ok(true),
        Ok(Err(_)) => Ok(false),
        Err(p) => Err(p.text.clone()),
    };
    if base_label.is_err() {
        return out; // panics are C08's / C17's business; nothing to compare against
    }
    for r in &base.reads {
        if !sel.contains(r) {
            out.push((
                format!("read-outside-selection/v{v}/{fam}/{}", r.0),
                format!("auth_check read {r:?}, selection is {sel:?}"),
            ));
        }
    }
    t.outcome("reads", &format!("{} reads", base.reads.len()));
    t.nontrivial += 1;

    // (3) perturbations outside the selection
    let mut perturbed: Vec<RefState> = vec![];
    for (key, variants) in uni {
        if sel.contains(key) {
            continue;
        }
        if case.state.contains_key(key) {
            let mut st = case.state.clone();
            st.remove(key);
            perturbed.push(st);
        }
        for var in variants {
            if case.state.get(key).map(|e| &e.content) == Some(&var.content) && case.state.get(key).map(|e| &e.sender) == Some(&var.sender) {
                continue;
            }
            let mut st = case.state.clone();
            state_insert(&mut st, var.clone());
            perturbed.push(st);
        }
    }
    let singles = perturbed.len();
    if tier.is_thorough() {
        // pairs: combine perturbations of two different keys (every 1st with every other)
        let keys: Vec<&(String, String)> = uni.iter().map(|(k, _)| k).filter(|k| !sel.contains(k)).collect();
        for (i, ka) in keys.iter().enumerate() {
            for kb in keys.iter().skip(i + 1) {
                let va = &uni.iter().find(|(k, _)| k == *ka).unwrap().1[0];
                let vb = &uni.iter().find(|(k, _)| k == *kb).unwrap().1[0];
                let mut st = case.state.clone();
                state_insert(&mut st, va.clone());
                state_insert(&mut st, vb.clone());
                perturbed.push(st);
            }
        }
    }
    for (i, st) in perturbed.iter().enumerate() {
        t.transitions += 1;
        let Some(l) = verdict_label(v, &case.ev, st) else { continue };
        if l != base_label {
            // which key differs
            let changed: Vec<String> = st
                .iter()
                .filter(|(k, e)| case.state.get(*k) != Some(*e))
                .map(|(k, _)| k.0.clone())
                .chain(case.state.keys().filter(|k| !st.contains_key(*k)).map(|k| k.0.clone()))
                .collect::<BTreeSet<_>>()
                .into_iter()
                .collect();
            out.push((
                format!("interference/v{v}/{fam}/{}", changed.join("+")),
                format!("verdict {base_label:?} became {l:?} after perturbing {changed:?} (#{i}, {} single perturbations), selection {sel:?}", singles),
            ));
            break;
        }
    }
    t.outcome("verdict", if base_label == Ok(true) { "allow" } else { "reject" });
    out
}

fn case_with_tier(v: &Value) -> Case {
    Case::from_json(v)
}

fn main() {
    let args = parse_args();
    let uni = universe();
    if let Some(p) = &args.replay {
        replay_and_exit("C09", p, |v| eval(Tier::Thorough, &case_with_tier(v), &uni, &mut Tally::new()));
    }
    let report = Report::new("C09", "model_checking", &args);
    report.set_rule(
        "every (version, state, event) triple of the C08 abstraction (12 rule families x room versions 1..=11): \
         auth_types_for_event as a set vs the spec selection; every (type,state_key) auth_check asks fetch_state for must lie in \
         the selection; every single add/remove/replace (quick) and pairs (thorough) of 15 state entries outside the selection \
         (other users' member events in 4 memberships, join_rules in 4 values where not selected, name, topic, history_visibility, \
         server_acl, two third_party_invite tokens) must leave the real verdict unchanged. state = one triple; transition = one \
         real auth_check / auth_types_for_event call; non-trivial = selection defined by the spec for that event",
    );
    report.assume("spec selection = DESIGN.md Appendix A.3 (auth events selection); events whose content is malformed for the selection are executed but not compared");
    report.require_outcomes("selection", 3);
    report.require_outcomes("verdict", 2);
    report.require_outcomes("reads", 2);

    let shards: Vec<(&'static str, u8)> = FAMILIES.iter().flat_map(|f| (1..=11u8).map(move |v| (*f, v))).collect();
    par_shards(&report, shards.len(), |i, t| {
        let (fam, v) = shards[i];
        let mut distinct: BTreeSet<u64> = BTreeSet::new();
        let mut n = 0u64;
        for_family(args.tier, fam, v, &mut |case| {
            if !distinct.insert(engine::fixed_hash(&(&case.ev, &case.state))) {
                return;
            }
            n += 1;
            // quick tier: perturb every 4th triple of the big families (selection + reads are checked on all)
            t.states += 1;
            if n % 3001 == 1 {
                t.sample(|| case.to_json());
            }
            for (sig, detail) in eval(args.tier, &case, &uni, t) {
                report.violation(&sig, || detail, || case.to_json());
            }
        });
    });
    report.finish()
}

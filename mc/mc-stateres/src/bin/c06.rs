//! C06 — state resolution is deterministic and independent of argument order and of
//! hash-container iteration order.
//!
//! Inputs: every (history, merge subset) of the C07 enumeration up to the tier's depth.
//! (P) every permutation of the state-set list, jointly and independently of the auth-chain
//! list; single set and identical sets. (D) deviation-bounded exploration of the iteration
//! order of every hash container `resolve` iterates (hook `verif_order`, cfg ruma_ruma_verif):
//! default order everywhere, then one deviation at every choice point, then two.
//! Oracle: every execution returns exactly the state map of the all-default execution.

use std::collections::BTreeSet;

use engine::{machinery_error, parse_args, par_shards, permutations, replay_and_exit, Report, Tally, Tier};
use mc_stateres::{
    history::{Action, History},
    spec_res::{resolve_real, SMap},
};
use ruma_state_res::verif_order::{set_script, take_log, ChoicePoint};
use serde_json::{json, Value};

type Outcome = Result<SMap, String>;

struct Input<'a> {
    h: &'a History,
    sets: Vec<SMap>,
    chains: Vec<BTreeSet<String>>,
}

fn run(inp: &Input<'_>, set_perm: &[usize], chain_perm: &[usize], script: &[u32], t: &mut Tally) -> Result<(Outcome, Vec<ChoicePoint>), String> {
    let sets: Vec<SMap> = set_perm.iter().map(|&i| inp.sets[i].clone()).collect();
    let chains: Vec<BTreeSet<String>> = chain_perm.iter().map(|&i| inp.chains[i].clone()).collect();
    t.transitions += 1;
    set_script(script.to_vec());
    let r = resolve_real(inp.h.v, &inp.h.store, &sets, &chains);
    let log = take_log();
    set_script(vec![]);
    match r {
        Ok(o) => Ok((o, log)),
        Err(p) => Err(p.text),
    }
}

/// Deviation-bounded DFS over iteration-order choices (the Go sketch of the brief).
#[allow(clippy::too_many_arguments)]
fn explore(
    inp: &Input<'_>,
    ident: &[usize],
    base: &Outcome,
    prefix: Vec<u32>,
    from: usize,
    budget: usize,
    t: &mut Tally,
    out: &mut Vec<(String, String)>,
    stats: &mut (u64, u64),
) {
    let (o, log) = match run(inp, ident, ident, &prefix, t) {
        Ok(x) => x,
        Err(p) => {
            out.push(("panic/resolve-under-order".into(), format!("script {prefix:?}: {p}")));
            return;
        }
    };
    // replaying a prefix must reproduce the prefix's choices
    for (i, c) in prefix.iter().enumerate() {
        match log.get(i) {
            Some(cp) if cp.choice == *c => {}
            _ => machinery_error(&format!("replay divergence: script {prefix:?} but log {log:?}")),
        }
    }
    stats.0 += 1;
    stats.1 = stats.1.max(log.len() as u64);
    if o != *base {
        let at: Vec<String> = prefix.iter().enumerate().filter(|(_, c)| **c != 0).map(|(i, c)| format!("point {i} (n={}) order {c}", log[i].len)).collect();
        out.push((
            format!("order-dependence/{}-deviations", prefix.iter().filter(|c| **c != 0).count()),
            format!("default order gives {base:?}, deviating at {at:?} gives {o:?}"),
        ));
        return;
    }
    if budget == 0 {
        return;
    }
    for i in from..log.len() {
        for alt in 1..log[i].alternatives {
            let mut s = prefix.clone();
            s.resize(i, 0);
            s.push(alt);
            explore(inp, ident, base, s, i + 1, budget - 1, t, out, stats);
        }
    }
}

fn check_input(h: &History, nodes: &[usize], deviations: usize, lean: bool, t: &mut Tally) -> Vec<(String, String)> {
    let mut out = vec![];
    let sets: Vec<SMap> = nodes.iter().map(|&i| h.nodes[i].state.clone()).collect();
    let chains: Vec<_> = sets.iter().map(|s| h.store.full_chain(s)).collect();
    let inp = Input { h, sets, chains };
    let k = nodes.len();
    let ident: Vec<usize> = (0..k).collect();
    let base = match run(&inp, &ident, &ident, &[], t) {
        Ok((o, _)) => o,
        Err(p) => return vec![("panic/resolve".into(), p)],
    };
    let conflicted = inp.sets.iter().skip(1).any(|s| *s != inp.sets[0]);
    t.outcome("input", if conflicted { "conflicting sets" } else { "identical sets" });
    if conflicted {
        t.nontrivial += 1;
    }
    // repeat: same call again
    if let Ok((again, _)) = run(&inp, &ident, &ident, &[], t) {
        if again != base {
            out.push(("nondeterministic-repeat".into(), format!("{base:?} then {again:?}")));
        }
    }
    // (lean passes run the order exploration and the argument permutations only; the other passes run everything)
    // whichever thread: the same call on a thread that has never resolved anything (the worker thread this
    // runs on has resolved thousands of other histories that reuse the same event IDs with other contents)
    if !lean {
        let fresh = std::thread::scope(|sc| {
            sc.spawn(|| {
                let mut t2 = Tally::new();
                run(&inp, &ident, &ident, &[], &mut t2).map(|x| x.0)
            })
            .join()
        });
        t.transitions += 1;
        match fresh {
            Ok(Ok(o)) => {
                if o != base {
                    out.push(("thread-dependence/fresh-thread".into(), format!("on a long-lived worker thread {base:?}, on a fresh thread {o:?}")));
                }
            }
            Ok(Err(e)) => out.push(("panic/resolve-fresh-thread".into(), e)),
            Err(_) => out.push(("panic/resolve-fresh-thread".into(), "the fresh thread panicked".into())),
        }
    }
    // an empty state set (a server that knows nothing about the room) among the others, in every position
    if k == 2 && !lean {
        let mut with_empty = Input { h, sets: inp.sets.clone(), chains: inp.chains.clone() };
        with_empty.sets.push(SMap::new());
        with_empty.chains.push(BTreeSet::new());
        let mut first: Option<(Vec<usize>, Outcome)> = None;
        // the empty set last, in the middle, first
        for p in [vec![0usize, 1, 2], vec![0, 2, 1], vec![2, 0, 1]] {
            match run(&with_empty, &p, &p, &[], t) {
                Ok((o, _)) => match &first {
                    None => first = Some((p.clone(), o)),
                    Some((p0, o0)) if *o0 != o => {
                        out.push((
                            "argument-order/with-empty-set".into(),
                            format!("sets + one empty set, arranged {p0:?}: {o0:?}; arranged {p:?}: {o:?}"),
                        ));
                        break;
                    }
                    _ => {}
                },
                Err(e) => out.push(("panic/resolve-with-empty-set".into(), e)),
            }
        }
    }
    // a store that cannot load one of the conflicted events (not received yet): still one result per collection
    if k == 2 && conflicted && !lean {
        let hidden: Option<String> = inp.sets[0].iter().find(|(key, id)| inp.sets[1].get(*key) != Some(*id)).map(|(_, id)| id.clone());
        if let Some(hidden) = hidden {
            let mut first: Option<Outcome> = None;
            for p in permutations(2) {
                let sets: Vec<SMap> = p.iter().map(|&i| inp.sets[i].clone()).collect();
                let chains: Vec<BTreeSet<String>> = p.iter().map(|&i| inp.chains[i].clone()).collect();
                t.transitions += 1;
                match mc_stateres::spec_res::resolve_real_hiding(h.v, &h.store, &hidden, &sets, &chains) {
                    Ok(o) => match &first {
                        None => first = Some(o),
                        Some(o0) if *o0 != o => {
                            out.push((
                                "argument-order/unknown-event".into(),
                                format!("store without {hidden}: sets in order {o0:?}, swapped {o:?}"),
                            ));
                        }
                        _ => {}
                    },
                    Err(p) => out.push(("panic/resolve-unknown-event".into(), p.text)),
                }
            }
        }
    }
    // (P) argument permutations: joint, and chains permuted independently
    for p in permutations(k) {
        for q in [p.clone(), ident.clone(), p.iter().rev().cloned().collect::<Vec<_>>()] {
            match run(&inp, &p, &q, &[], t) {
                Ok((o, _)) => {
                    if o != base {
                        out.push((
                            format!("argument-order/{}", if q == p { "joint" } else { "independent" }),
                            format!("sets {p:?} chains {q:?}: {o:?} vs identity order {base:?}"),
                        ));
                    }
                }
                Err(e) => out.push(("panic/resolve-permuted".into(), e)),
            }
        }
    }
    // single set and identical sets return the input
    for copies in 1..=(if lean { 0 } else { 3usize }) {
        let s = vec![inp.sets[k - 1].clone(); copies];
        let c = vec![inp.chains[k - 1].clone(); copies];
        let one = Input { h, sets: s, chains: c };
        let id: Vec<usize> = (0..copies).collect();
        match run(&one, &id, &id, &[], t) {
            Ok((Ok(o), _)) => {
                t.outcome("identical", &format!("{copies} copies"));
                if o != one.sets[0] {
                    out.push((format!("identical-sets-changed/{copies}"), format!("input {:?} output {o:?}", one.sets[0])));
                }
            }
            Ok((Err(e), _)) => out.push((format!("identical-sets-error/{copies}"), e)),
            Err(e) => out.push(("panic/resolve-identical".into(), e)),
        }
    }
    // a fork listed twice (two servers reporting the same state): still a permutation-invariant collection —
    // every arrangement of [S0, S0, S1] and of [S1, S1, S0] gives one result
    if k == 2 && conflicted && !lean {
        for twice in 0..2usize {
            let idx = [twice, twice, 1 - twice];
            let dup = Input {
                h,
                sets: idx.iter().map(|&i| inp.sets[i].clone()).collect(),
                chains: idx.iter().map(|&i| inp.chains[i].clone()).collect(),
            };
            let mut first: Option<(Vec<usize>, _)> = None;
            // the three distinct arrangements (the odd set last, in the middle, first), chains jointly and in place
            for (p, q) in [vec![0usize, 1, 2], vec![0, 2, 1], vec![2, 0, 1]].into_iter().flat_map(|p| [(p.clone(), p.clone()), (p, vec![0, 1, 2])]) {
                match run(&dup, &p, &q, &[], t) {
                    Ok((o, _)) => {
                        t.outcome("duplicated-fork", if o == base { "same as without the duplicate" } else { "differs from the two-set result" });
                        match &first {
                            None => first = Some((p.clone(), o)),
                            Some((p0, o0)) if *o0 != o => {
                                out.push((
                                    "argument-order/duplicated-fork".into(),
                                    format!("sets {idx:?} arranged {p0:?}: {o0:?}; arranged {p:?}: {o:?}"),
                                ));
                                break;
                            }
                            _ => {}
                        }
                    }
                    Err(e) => out.push(("panic/resolve-duplicated".into(), e)),
                }
            }
        }
    }
    // (D) iteration orders
    let mut stats = (0u64, 0u64);
    explore(&inp, &ident, &base, vec![], 0, deviations, t, &mut out, &mut stats);
    t.outcome("choice-points", &format!("{} per run (max)", stats.1.min(40)));
    out
}

fn subsets(cands: &[usize], max_k: usize, must: usize) -> Vec<Vec<usize>> {
    let n = cands.len();
    let mut out = vec![];
    for mask in 1u32..(1 << n) {
        let k = mask.count_ones() as usize;
        if k < 2 || k > max_k {
            continue;
        }
        let s: Vec<usize> = (0..n).filter(|i| mask & (1 << i) != 0).map(|i| cands[i]).collect();
        if s.contains(&must) {
            out.push(s);
        }
    }
    out
}

struct Explorer<'a> {
    report: &'a Report,
    templates: Vec<usize>,
    depth: usize,
    max_k: usize,
    deviations: usize,
    /// depth-3 passes over many templates: order exploration and argument permutations only
    lean: bool,
}

impl Explorer<'_> {
    fn visit(&self, h: &History, t: &mut Tally) {
        t.states += 1;
        let d = h.trail.len();
        if d > 0 {
            let last = h.nodes.len() - 1;
            for s in subsets(&h.merge_candidates(), self.max_k, last) {
                if self.report.over_budget("history DFS") {
                    return;
                }
                // two deviations only where there is something to reorder: conflicting inputs
                for (sig, detail) in check_input(h, &s, self.deviations, self.lean, t) {
                    self.report.violation(&sig, || detail, || json!({"history": h.to_json(), "merge": s}));
                }
            }
            if t.states % 499 == 1 {
                t.sample(|| json!({"trail": h.trail.iter().map(|a| a.to_json()).collect::<Vec<_>>()}));
            }
        }
        if d >= self.depth || self.report.over_budget("history DFS") {
            return;
        }
        // timestamp ties are what make tie-breaking observable: classes 1 (equal) and 2 (later)
        for a in h.actions(&self.templates, &[1, 2]) {
            if let Some(next) = h.apply(a) {
                self.visit(&next, t);
            }
        }
    }
}

fn replay(case: &Value) -> Vec<(String, String)> {
    let hj = &case["history"];
    let Some(h) = History::from_json_trail(hj) else {
        return vec![("replay/history-not-reproducible".into(), "an action of the trail is no longer accepted".into())];
    };
    let nodes: Vec<usize> = case["merge"].as_array().unwrap().iter().map(|x| x.as_u64().unwrap() as usize).collect();
    check_input(&h, &nodes, 2, false, &mut Tally::new())
}

/// records the wall time of one pass when it goes out of scope (the pass loop has several exits)
struct PassTimer(*mut Vec<f64>, std::time::Instant);
impl Drop for PassTimer {
    fn drop(&mut self) {
        // SAFETY: the vector outlives every guard (declared before the loop) and is only touched here
        unsafe { (*self.0).push((self.1.elapsed().as_secs_f64() * 10.0).round() / 10.0) }
    }
}

fn main() {
    let args = parse_args();
    if let Some(p) = &args.replay {
        replay_and_exit("C06", p, replay);
    }
    let report = Report::new("C06", "model_checking", &args);
    // two passes per tier: (depth, max state sets, deviation bound)
    // templates that create power events (power-level changes, ban, kick, join-rule changes):
    // the ones whose relative order the tie-breaking decides
    let power_templates: Vec<usize> = vec![0, 1, 2, 3, 6, 7, 8];
    let all_templates: Vec<usize> = (0..14).collect();
    let all17: Vec<usize> = (0..17).collect();
    let ab = vec!['A', 'B'];
    // (history depth, max state sets, deviation bound, templates, base rooms); room C = room A followed by an
    // abandoned, merged power-levels fork (see history.rs)
    // creator vs create-sender pass: rooms D/E (create event sent by M, creator C; room version 10), with
    // the creator's first power levels, join-rule changes by creator and by moderator, a topic
    let creator_templates: Vec<usize> = vec![14, 7, 17, 9];
    let passes: Vec<(usize, usize, usize, Vec<usize>, Vec<char>)> = match args.tier {
        Tier::Quick => vec![
            (3, 3, 1, creator_templates.clone(), vec!['E']),
            (2, 3, 1, all_templates.clone(), ab.clone()),
            (1, 3, 2, all_templates.clone(), ab.clone()),
            // (without the no-op-prone `C sets join_rules public`: this is the widest quick pass)
            (3, 2, 1, vec![0, 1, 2, 3, 6, 7], vec!['A']),
            (2, 2, 1, all17.clone(), vec!['C']),
            // a moderator's join rule that a knock cites (so it sits in the auth chains), later join rules by creator / moderator
            (3, 2, 0, vec![17, 18, 7, 19], vec!['A']),
            // every auth_events list in the opposite order (power levels before the create event)
            (2, 2, 1, power_templates.clone(), vec!['a', 'b']),
            (2, 3, 1, creator_templates.clone(), vec!['e']),
        ],
        // cheapest first, so that the wall cap (if it is ever hit) cuts only the last pass
        Tier::Thorough => vec![
            // room G: the nodes of a losing power-levels fork (and a ban made under it) are prev candidates, so the
            // inputs include conflicted sets made of power events only and an auth difference that brings back a
            // power-levels event whose key is unconflicted (measured alone: 1068 histories, 1.17e6 calls, 11 s)
            (2, 2, 1, vec![3, 6, 4, 13], vec!['G']),
            (3, 2, 1, power_templates.clone(), ab.clone()),
            (3, 2, 1, vec![0, 1, 3, 4, 6, 7, 9, 10], ab.clone()),
            (3, 2, 1, power_templates.clone(), vec!['a', 'b']),
            (3, 3, 1, creator_templates.clone(), vec!['e', 'd']),
            // (the root state is a merge candidate in rooms D / E: three-set inputs are many)
            (3, 3, 1, creator_templates.clone(), vec!['E', 'D']),
            (4, 2, 1, vec![17, 18, 7, 19, 9], vec!['A']),
            // a power-levels event under another state key next to the real ones, topics authorised under each
            (4, 2, 1, vec![21, 14, 9, 10], vec!['A']),
            // the two widest passes last, so that the wall cap (if it is hit) cuts only them
            (2, 3, 2, all_templates.clone(), ab.clone()),
            (2, 3, 1, all17.clone(), vec!['C']),
        ],
    };
    report.set_rule(&format!(
        "passes (history depth, max state sets, deviation bound, templates, base rooms) = {passes:?}. inputs: every room history reachable by appending <= depth events \
         (14 templates x prev subsets x timestamp equal/later) to the pass's base rooms (A with power levels, B without, C = A plus an abandoned merged power-levels fork, G = A plus two concurrent power-levels events and a ban under the losing one with all three usable as prev events, all room version 11; D / E = A / B with the create event sent by the moderator while content.creator is the creator, room version 10), and every subset of 2..=max nodes containing \
         the newest node. For each input: repeat call; every permutation of the state-set list with the auth-chain list permuted jointly, left in \
         place and reversed; 1-3 identical copies of one set must come back unchanged; for two conflicting sets also every arrangement of [S0,S0,S1] and [S1,S1,S0] (one result per collection); every arrangement of the sets plus one empty set; the same call on a fresh thread; deviation-bounded DFS over the iteration order of every hash \
         container resolve iterates (hook verif_order): all-default run, then every combination of <= bound deviations over the choice points \
         (all n! orders for n<=4, else reverse + adjacent swaps + rotations). Oracle: result == all-default result. state = one history; \
         transition = one real resolve call under a script; non-trivial = input with conflicting state sets"
    ));
    report.assume("threads/repeat runs can only differ through RandomState-seeded iteration order (resolve shares no state between calls), so enumerating iteration orders discharges the schedules quantifier (DESIGN §3 C06)");
    report.assume("containers with more than 4 elements are permuted by reverse / adjacent swaps / rotations only");
    report.require_outcomes("input", 1);
    report.require_outcomes("choice-points", 2);

    let mut pass_wall: Vec<f64> = vec![];
    for (depth, max_k, deviations, templates, bases) in passes.iter().cloned() {
        let pass_start = std::time::Instant::now();
        let _guard = PassTimer(&mut pass_wall as *mut Vec<f64>, pass_start);
        let mut shards: Vec<(char, Action)> = vec![];
        for &with_pl in &bases {
            let h = History::base_kind(if matches!(with_pl, 'D' | 'E' | 'd' | 'e') { 10 } else { 11 }, with_pl);
            for a in h.actions(&templates, &[1, 2]) {
                shards.push((with_pl, a));
            }
        }
        // phase 1: the depth-1 nodes (checked here) and, for deep passes, the list of accepted
        // two-action prefixes; phase 2: one shard per prefix, for load balance
        let split = depth >= 3;
        let lean = args.tier == Tier::Quick && depth >= 3 && templates.len() >= 6;
        let ex1 = Explorer { report: &report, templates: templates.clone(), depth: if split { 1 } else { depth }, max_k, deviations, lean };
        let prefixes = std::sync::Mutex::new(Vec::<(char, Action, Action)>::new());
        par_shards(&report, shards.len(), |i, t| {
            let (with_pl, a) = shards[i];
            let h = History::base_kind(if matches!(with_pl, 'D' | 'E' | 'd' | 'e') { 10 } else { 11 }, with_pl);
            if let Some(next) = h.apply(a) {
                ex1.visit(&next, t);
                if split {
                    let mut mine = vec![];
                    for b in next.actions(&templates, &[1, 2]) {
                        if next.apply(b).is_some() {
                            mine.push((with_pl, a, b));
                        }
                    }
                    prefixes.lock().unwrap().extend(mine);
                }
            }
        });
        if split {
            let mut prefixes = prefixes.into_inner().unwrap();
            prefixes.sort_by_key(|(w, a, b)| (*w, a.template, a.prev, a.ts_class, b.template, b.prev, b.ts_class));
            let ex = Explorer { report: &report, templates: templates.clone(), depth, max_k, deviations, lean };
            par_shards(&report, prefixes.len(), |i, t| {
                let (with_pl, a, b) = prefixes[i];
                let h = History::base_kind(if matches!(with_pl, 'D' | 'E' | 'd' | 'e') { 10 } else { 11 }, with_pl);
                if let Some(h2) = h.apply(a).and_then(|h1| h1.apply(b)) {
                    ex.visit(&h2, t);
                }
            });
        }
    }
    report.set("passes_depth_sets_deviations_templates", json!(passes));
    report.set("deviation_bound_completed", json!(passes.iter().map(|p| p.2).max()));
    report.set("pass_wall_s", json!(pass_wall));
    report.finish()
}

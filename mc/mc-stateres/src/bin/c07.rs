//! C07 — resolved state equals the spec's state resolution v2 result; the exposed
//! topological sort follows the spec's tie-breaking.
//!
//! S-explorer: depth-first enumeration of every room history reachable by appending up to
//! `depth` events (14 templates x every 1- or 2-element prev set among base tip + appended
//! nodes x 3 timestamp classes) to two base rooms; after every append, every 2- and 3-subset
//! of nodes that contains the new node has its states merged by the real `resolve` and by
//! the reference (`spec_res::resolve_ref`). P-explorer: all DAGs on <= 5 nodes x relabelings
//! x key assignments for `lexicographical_topological_sort` vs a naive Kahn reference.

use std::collections::BTreeSet;

use engine::{catch, parse_args, par_shards, replay_and_exit, permutations, Report, Tally, Tier};
use js_int::Int;
use mc_stateres::{
    history::{Action, History, TEMPLATES},
    spec_res::{resolve_real, resolve_ref, resolve_ref_with, Graph, SMap},
};
use ruma_common::{EventId, MilliSecondsSinceUnixEpoch, OwnedEventId};
use ruma_state_res::verif_order::HashSet as VSet;
use serde_json::{json, Value};

/// all subsets of `cands` of size 2..=max_k that contain `must` (if given)
fn subsets(cands: &[usize], max_k: usize, must: Option<usize>) -> Vec<Vec<usize>> {
    let n = cands.len();
    let mut out = vec![];
    for mask in 1u32..(1 << n) {
        let k = mask.count_ones() as usize;
        if k < 2 || k > max_k {
            continue;
        }
        let s: Vec<usize> = (0..n).filter(|i| mask & (1 << i) != 0).map(|i| cands[i]).collect();
        if let Some(m) = must {
            if !s.contains(&m) {
                continue;
            }
        }
        out.push(s);
    }
    out
}

fn diff_keys(a: &SMap, b: &SMap) -> Vec<String> {
    let mut keys: BTreeSet<String> = BTreeSet::new();
    for k in a.keys().chain(b.keys()) {
        if a.get(k) != b.get(k) {
            keys.insert(k.0.clone());
        }
    }
    keys.into_iter().collect()
}

/// Compare real and reference resolution for one merge; returns violations.
fn check_merge(h: &History, nodes: &[usize], t: &mut Tally) -> Vec<(String, String)> {
    let sets: Vec<SMap> = nodes.iter().map(|&i| h.nodes[i].state.clone()).collect();
    let chains: Vec<_> = sets.iter().map(|s| h.store.full_chain(s)).collect();
    let reference = resolve_ref(h.v, &h.store, &sets);
    t.transitions += 1;
    ruma_state_res::verif_order::set_script(vec![]);
    let real = resolve_real(h.v, &h.store, &sets, &chains);
    let room = format!("room{}", h.base_kind);
    let conflicted = sets.iter().skip(1).any(|s| *s != sets[0]);
    match real {
        Err(p) => vec![(format!("panic/{}", p.file()), p.text)],
        Ok(Err(e)) => vec![(format!("resolve-error/{room}"), format!("resolve returned Err({e})"))],
        Ok(Ok(real)) => {
            let differing = real.iter().filter(|(k, id)| sets[0].get(*k) != Some(*id)).count();
            t.outcome("merge", &format!("{} entries differ from the first set", differing.min(4)));
            if conflicted {
                t.nontrivial += 1;
            }
            if real != reference {
                let d = diff_keys(&real, &reference);
                // classify: is the divergence exactly the recorded mainline-numbering deviation?
                if real == resolve_ref_with(h.v, &h.store, &sets, 1) {
                    return vec![(
                        "resolve/mainline/no-ancestor-ties-with-oldest-mainline-event".to_owned(),
                        format!(
                            "v{} merging nodes {:?}: differs in {:?}; equals the spec algorithm with 'no mainline ancestor' ranked like the oldest mainline event",
                            h.v,
                            nodes.iter().map(|&i| h.nodes[i].id.as_str()).collect::<Vec<_>>(),
                            d
                        ),
                    )];
                }
                vec![(
                    format!("resolve/{room}/{}sets/diff[{}]", nodes.len(), d.join("+")),
                    format!(
                        "v{} merging nodes {:?}: ruma {:?} vs spec {:?}",
                        h.v,
                        nodes.iter().map(|&i| h.nodes[i].id.as_str()).collect::<Vec<_>>(),
                        d.iter().map(|k| real.iter().filter(|(kk, _)| kk.0 == *k).map(|(kk, v)| format!("{}|{}={}", kk.0, kk.1, v)).collect::<Vec<_>>()).collect::<Vec<_>>(),
                        d.iter().map(|k| reference.iter().filter(|(kk, _)| kk.0 == *k).map(|(kk, v)| format!("{}|{}={}", kk.0, kk.1, v)).collect::<Vec<_>>()).collect::<Vec<_>>(),
                    ),
                )]
            } else {
                vec![]
            }
        }
    }
}

struct Explorer<'a> {
    report: &'a Report,
    templates: Vec<usize>,
    ts_classes: Vec<u8>,
    depth: usize,
    triple_depth: usize,
}

impl Explorer<'_> {
    fn visit(&self, h: &History, t: &mut Tally, distinct: &mut BTreeSet<u64>) {
        t.states += 1;
        let d = h.trail.len();
        // canonical form for the distinct-history count: the event set without ids
        let canon: BTreeSet<(String, String, String, u64, Vec<String>)> = h
            .nodes
            .iter()
            .skip(h.base_len)
            .map(|n| {
                let e = h.store.ev(&n.id);
                (e.sender.clone(), e.ty.clone(), e.content.clone(), e.ts, e.prev_events.clone())
            })
            .collect();
        distinct.insert(engine::fixed_hash(&(h.base_len, &canon)));
        if d > 0 {
            let last = h.nodes.len() - 1;
            let max_k = if d <= self.triple_depth { 3 } else { 2 };
            for s in subsets(&h.merge_candidates(), max_k, Some(last)) {
                for (sig, detail) in check_merge(h, &s, t) {
                    self.report.violation(&sig, || detail, || json!({"history": h.to_json(), "merge": s}));
                }
            }
            if t.states % 997 == 1 {
                t.sample(|| json!({"trail": h.trail.iter().map(|a| a.to_json()).collect::<Vec<_>>()}));
            }
        }
        if d >= self.depth || self.report.over_budget("history DFS") {
            return;
        }
        for a in h.actions(&self.templates, &self.ts_classes) {
            if let Some(next) = h.apply(a) {
                self.visit(&next, t, distinct);
            }
        }
    }
}

// ---------------------------------------------------------------------------------------
// topological sort

fn eid(name: &str) -> OwnedEventId {
    EventId::parse(format!("${name}:s")).unwrap()
}

/// naive Kahn: dependencies first, among ready nodes greatest power, then earliest ts, then smallest id
fn kahn_ref(n: usize, edges: &[Vec<usize>], names: &[String], power: &[i64], ts: &[u64]) -> Vec<String> {
    let mut done = vec![false; n];
    let mut out = vec![];
    for _ in 0..n {
        let next = (0..n)
            .filter(|&i| !done[i] && edges[i].iter().all(|&j| done[j]))
            .min_by_key(|&i| (-power[i], ts[i], names[i].clone()))
            .unwrap();
        done[next] = true;
        out.push(names[next].clone());
    }
    out
}

fn sort_case(n: usize, edge_mask: u32, perm: &[usize], power: &[i64], ts: &[u64], t: &mut Tally) -> Vec<(String, String)> {
    // node i may point to any j < i; bit index enumerates (i, j) pairs
    let mut edges: Vec<Vec<usize>> = vec![vec![]; n];
    let mut bit = 0;
    for i in 0..n {
        for j in 0..i {
            if edge_mask & (1 << bit) != 0 {
                edges[i].push(j);
            }
            bit += 1;
        }
    }
    let letters = ["a", "b", "c", "d", "e"];
    let names: Vec<String> = (0..n).map(|i| format!("${}:s", letters[perm[i]])).collect();
    let graph: Graph = (0..n)
        .map(|i| (eid(letters[perm[i]]), edges[i].iter().map(|&j| eid(letters[perm[j]])).collect::<VSet<_>>()))
        .collect();
    let expected = kahn_ref(n, &edges, &names, power, ts);
    t.transitions += 1;
    ruma_state_res::verif_order::set_script(vec![]);
    let got = catch(|| {
        ruma_state_res::lexicographical_topological_sort(&graph, |id| {
            let i = names.iter().position(|x| x == id.as_str()).unwrap();
            Ok((Int::new(power[i]).unwrap(), MilliSecondsSinceUnixEpoch(js_int::UInt::new(ts[i]).unwrap())))
        })
    });
    match got {
        Err(p) => vec![(format!("panic/{}/toposort", p.file()), p.text)],
        Ok(Err(e)) => vec![("toposort/error".into(), e.to_string())],
        Ok(Ok(v)) => {
            let got: Vec<String> = v.iter().map(|x| x.to_string()).collect();
            t.outcome("toposort", &format!("first={}", got.first().map(|s| &s[1..2]).unwrap_or("-")));
            if got != expected {
                // classify by which key decided at the first divergence
                let pos = got.iter().zip(&expected).position(|(a, b)| a != b).unwrap_or(0);
                let gi = names.iter().position(|x| *x == got[pos]).unwrap();
                let ei = names.iter().position(|x| *x == expected[pos]).unwrap();
                let why = if got.len() != n {
                    "missing-nodes"
                } else if power[gi] != power[ei] {
                    "power"
                } else if ts[gi] != ts[ei] {
                    "timestamp"
                } else {
                    "event-id-or-dependency"
                };
                vec![(
                    format!("toposort/{why}"),
                    format!("n={n} edges={edges:?} names={names:?} power={power:?} ts={ts:?}: got {got:?} expected {expected:?}"),
                )]
            } else {
                vec![]
            }
        }
    }
}

fn sort_family(report: &Report, tier: Tier) {
    // n = 4: everything; n = 5: all DAGs x 10 relabelings x 96 key vectors
    let perms4 = permutations(4);
    let perms5: Vec<Vec<usize>> = permutations(5).into_iter().step_by(if tier.is_thorough() { 4 } else { 12 }).collect();
    let levels = [0i64, 50, 100];
    par_shards(report, 64, |mask, t| {
        for perm in &perms4 {
            let mut keys = vec![0usize; 4];
            engine::for_product(&[6, 6, 6, 6], &mut |v| {
                keys.copy_from_slice(v);
                let power: Vec<i64> = keys.iter().map(|k| levels[k % 3]).collect();
                let ts: Vec<u64> = keys.iter().map(|k| 1 + (*k / 3) as u64).collect();
                t.states += 1;
                for (sig, detail) in sort_case(4, mask as u32, perm, &power, &ts, t) {
                    report.violation(&sig, || detail, || json!({"sort": {"n": 4, "mask": mask, "perm": perm, "power": power, "ts": ts}}));
                }
            });
        }
    });
    par_shards(report, 1024, |mask, t| {
        for perm in &perms5 {
            for pw in 0..32u32 {
                for ts_pat in 0..3 {
                    let power: Vec<i64> = (0..5).map(|i| if pw & (1 << i) != 0 { 100 } else { 0 }).collect();
                    let ts: Vec<u64> = (0..5u64).map(|i| match ts_pat { 0 => 1, 1 => 1 + i, _ => 9 - i }).collect();
                    t.states += 1;
                    for (sig, detail) in sort_case(5, mask as u32, perm, &power, &ts, t) {
                        report.violation(&sig, || detail, || json!({"sort": {"n": 5, "mask": mask, "perm": perm, "power": power, "ts": ts}}));
                    }
                }
            }
        }
    });
}

fn replay(case: &Value) -> Vec<(String, String)> {
    let mut t = Tally::new();
    if let Some(s) = case.get("sort") {
        let l = |k: &str| -> Vec<u64> { s[k].as_array().unwrap().iter().map(|x| x.as_u64().unwrap_or(0)).collect() };
        let perm: Vec<usize> = l("perm").into_iter().map(|x| x as usize).collect();
        let power: Vec<i64> = s["power"].as_array().unwrap().iter().map(|x| x.as_i64().unwrap()).collect();
        return sort_case(s["n"].as_u64().unwrap() as usize, s["mask"].as_u64().unwrap() as u32, &perm, &power, &l("ts"), &mut t);
    }
    let hj = &case["history"];
    let Some(h) = History::from_json_trail(hj) else {
        return vec![("replay/history-not-reproducible".into(), "an action of the trail is no longer accepted".into())];
    };
    let nodes: Vec<usize> = case["merge"].as_array().unwrap().iter().map(|x| x.as_u64().unwrap() as usize).collect();
    check_merge(&h, &nodes, &mut t)
}

fn main() {
    let args = parse_args();
    if let Some(p) = &args.replay {
        replay_and_exit("C07", p, replay);
    }
    let report = Report::new("C07", "model_checking", &args);
    // passes: (templates, depth, timestamp classes, depth up to which triples are merged, versions, base rooms)
    let all: Vec<usize> = (0..14).collect();
    let all17: Vec<usize> = (0..17).collect();
    type Pass = (Vec<usize>, usize, Vec<u8>, usize, Vec<u8>, Vec<char>);
    let passes: Vec<Pass> = match args.tier {
        Tier::Quick => vec![
            (all.clone(), 3, vec![0, 1, 2], 2, vec![11], vec!['A', 'B']),
            // start from a non-initial state: room C already contains an abandoned, merged power-levels fork
            (all17.clone(), 2, vec![0, 1, 2], 2, vec![11], vec!['C']),
            // creator vs sender of the create event (legal before v11)
            (vec![14, 7, 17, 9], 3, vec![1, 2], 3, vec![10], vec!['E', 'D']),
            // knocks racing join-rule changes, in the versions that have knocking but not yet knock_restricted
            (vec![17, 18, 19, 7], 3, vec![1, 2], 2, vec![9, 7], vec!['A']),
            // an unconflicted newer join rule while an older one comes back through the auth chain of a join
            (vec![8, 20, 19, 9], 4, vec![2], 2, vec![11], vec!['F']),
            // every auth_events list in the opposite order (power levels before the create event)
            (vec![0, 1, 2, 3, 6, 7, 8], 2, vec![1, 2], 2, vec![11], vec!['a', 'b']),
            (vec![14, 7, 17, 9], 3, vec![1, 2], 2, vec![10], vec!['e']),
            // building on the losing power-levels fork: conflicted sets made of power events only, one of which
            // (from the auth difference) has the key of an unconflicted entry
            (vec![3, 6, 4, 13], 3, vec![1, 2], 2, vec![11], vec!['G']),
        ],
        // cheapest first, so that the wall cap (if it is ever hit) cuts only the last, largest pass
        Tier::Thorough => vec![
            (all.clone(), 3, vec![0, 1, 2], 3, vec![11, 6, 2], vec!['A', 'B']),
            (all17.clone(), 3, vec![0, 1, 2], 3, vec![11, 6], vec!['C']),
            (vec![14, 7, 17, 9, 3, 4], 3, vec![0, 1, 2], 3, vec![10, 6], vec!['E', 'D']),
            (vec![3, 6, 4, 13, 16], 3, vec![0, 1, 2], 3, vec![11], vec!['G']),
            (vec![17, 18, 19, 7, 8, 3], 4, vec![0, 1, 2], 3, vec![7, 8, 9, 10], vec!['A']),
            (vec![14, 15, 16, 9, 13, 11], 5, vec![2], 2, vec![11], vec!['A']),
            (vec![0, 1, 2, 3, 4, 6, 7, 9, 10, 13], 4, vec![1, 2], 2, vec![11], vec!['A', 'B']),
        ],
    };
    report.set_rule(&format!(
        "S: passes (templates of 21, depth, timestamp classes, triple depth, room versions, base rooms) = {passes:?}: every room history reachable by appending \
         <= depth events from the pass's templates (power-level changes by creator/mod, ban, kick, join, leave, join-rule changes, topic/name by \
         mod/user/creator; prev = every 1- or 2-subset of base tip + appended nodes that is not an ancestor pair; timestamp earlier than all / \
         equal to prev / later) to base room A (with power levels), B (without), G (A followed by two concurrent power-levels events and a ban under the losing one, all usable as prev events) or C (A followed by an abandoned power-levels fork, a topic under it, a competing power-levels event and a merging power-levels event); an event exists only if the real auth_check accepts it; after \
         each append every 2-subset (3-subset up to the triple depth) of {{mid-base node, base tip, appended nodes}} containing the new node is \
         merged by the real resolve and the reference. P: all DAGs on 4 nodes x 24 relabelings x 6^4 (power,ts) keys and all DAGs on 5 nodes x \
         relabelings x 96 key vectors for lexicographical_topological_sort vs naive Kahn. state = one history / one sort input; transition = one \
         real resolve / sort call; non-trivial = merge of non-identical state sets"
    ));
    report.assume("reference = DESIGN.md Appendix A.4 with the real auth_check as predicate (C08 checks the predicate)");
    report.assume("state before an event with two prev events is the reference resolution of the two states");
    report.require_outcomes("merge", 3);
    report.require_outcomes("toposort", 3);

    let distinct_total = std::sync::Mutex::new(BTreeSet::<u64>::new());
    for (templates, depth, ts_classes, triple_depth, versions, bases) in passes.iter().cloned() {
        // shards: (version, base room, first action)
        let mut shards: Vec<(u8, char, Action)> = vec![];
        for &v in &versions {
            for &kind in &bases {
                let h = History::base_kind(v, kind);
                for a in h.actions(&templates, &ts_classes) {
                    shards.push((v, kind, a));
                }
            }
        }
        let split = depth >= 3;
        let ex1 = Explorer { report: &report, templates: templates.clone(), ts_classes: ts_classes.clone(), depth: if split { 1 } else { depth }, triple_depth };
        let prefixes = std::sync::Mutex::new(Vec::<(u8, char, Action, Action)>::new());
        par_shards(&report, shards.len(), |i, t| {
            let (v, kind, a) = shards[i];
            let h = History::base_kind(v, kind);
            let mut distinct = BTreeSet::new();
            if let Some(next) = h.apply(a) {
                ex1.visit(&next, t, &mut distinct);
                if split {
                    let mut mine = vec![];
                    for b in next.actions(&templates, &ts_classes) {
                        if next.apply(b).is_some() {
                            mine.push((v, kind, a, b));
                        }
                    }
                    prefixes.lock().unwrap().extend(mine);
                }
            }
            distinct_total.lock().unwrap().extend(distinct);
        });
        if split {
            let mut prefixes = prefixes.into_inner().unwrap();
            prefixes.sort_by_key(|(v, k, a, b)| (*v, *k, a.template, a.prev, a.ts_class, b.template, b.prev, b.ts_class));
            let ex = Explorer { report: &report, templates: templates.clone(), ts_classes: ts_classes.clone(), depth, triple_depth };
            par_shards(&report, prefixes.len(), |i, t| {
                let (v, kind, a, b) = prefixes[i];
                let h = History::base_kind(v, kind);
                let mut distinct = BTreeSet::new();
                if let Some(h2) = h.apply(a).and_then(|h1| h1.apply(b)) {
                    ex.visit(&h2, t, &mut distinct);
                }
                distinct_total.lock().unwrap().extend(distinct);
            });
        }
    }
    report.set("distinct_histories_up_to_event_ids", json!(distinct_total.lock().unwrap().len()));
    report.set("passes", json!(passes));
    sort_family(&report, args.tier);
    let _ = resolve_ref;
    report.finish()
}

//! Room-history model for C06 / C07: a DAG of events grown by honest servers (an event is
//! created only if the real `auth_check` accepts it against the state at its prev events; its
//! `auth_events` come from the spec selection), with per-node state maps.

use std::collections::{BTreeMap, BTreeSet};

use serde_json::{json, Value};

use crate::{
    pdu::Ev,
    spec_auth::auth_selection,
    spec_res::{resolve_ref, SMap, Store},
    world::{real_auth, ROOM},
};

pub const C: &str = "@c:s1";
pub const M: &str = "@m:s1";
pub const U: &str = "@u:s2";
pub const Z: &str = "@z:s2";
/// a user who has never been in the room (can knock without leaving first)
pub const K: &str = "@k:s2";

#[derive(Clone)]
pub struct Node {
    pub id: String,
    /// state after this event
    pub state: SMap,
}

#[derive(Clone)]
pub struct History {
    pub v: u8,
    pub store: Store,
    pub nodes: Vec<Node>,
    pub base_len: usize,
    /// which base room: 'A' (with power levels), 'B' (without), 'C' (A plus an abandoned
    /// power-levels fork that was merged: PLX, topic under PLX, PLY, merge event PL3)
    pub base_kind: char,
    /// the actions that produced the appended part (for replay files)
    pub trail: Vec<Action>,
}

#[derive(Clone, Copy, Debug, PartialEq, Eq, Hash)]
pub struct Action {
    pub template: usize,
    /// indices into `nodes` of the prev events (1 or 2)
    pub prev: (usize, Option<usize>),
    /// 0 = earlier than everything, 1 = equal to the first prev event's, 2 = later than everything
    pub ts_class: u8,
}

impl Action {
    pub fn to_json(&self) -> Value {
        json!({"template": self.template, "template_name": TEMPLATES[self.template].0, "prev": [self.prev.0 as i64, self.prev.1.map(|x| x as i64).unwrap_or(-1)], "ts_class": self.ts_class})
    }
    pub fn from_json(v: &Value) -> Action {
        let p1 = v["prev"][1].as_i64().unwrap_or(-1);
        Action {
            template: v["template"].as_u64().unwrap_or(0) as usize,
            prev: (v["prev"][0].as_u64().unwrap_or(0) as usize, if p1 < 0 { None } else { Some(p1 as usize) }),
            ts_class: v["ts_class"].as_u64().unwrap_or(2) as u8,
        }
    }
}

fn pl_content(users: &[(&str, i64)]) -> Value {
    let mut u = serde_json::Map::new();
    for (k, l) in users {
        u.insert((*k).to_owned(), json!(l));
    }
    json!({"users": u, "events": {"m.room.topic": 0, "m.room.name": 0}})
}

/// (name, sender, type, state_key, content)
pub type Template = (&'static str, &'static str, &'static str, &'static str, fn() -> Value);

fn pl_content_with(field: &str, level: i64) -> Value {
    let mut c = pl_content(&[(C, 100), (M, 50)]);
    c[field] = json!(level);
    c
}

pub const TEMPLATES: [Template; 22] = [
    ("C promotes M to 100", C, "m.room.power_levels", "", || pl_content(&[(C, 100), (M, 100)])),
    ("C demotes M", C, "m.room.power_levels", "", || pl_content(&[(C, 100)])),
    ("M promotes U to 50", M, "m.room.power_levels", "", || pl_content(&[(C, 100), (M, 50), (U, 50)])),
    ("M bans U", M, "m.room.member", U, || json!({"membership": "ban"})),
    ("U joins", U, "m.room.member", U, || json!({"membership": "join"})),
    ("U leaves", U, "m.room.member", U, || json!({"membership": "leave"})),
    ("M kicks U", M, "m.room.member", U, || json!({"membership": "leave", "reason": "kick"})),
    ("C sets join_rules invite", C, "m.room.join_rules", "", || json!({"join_rule": "invite"})),
    ("C sets join_rules public", C, "m.room.join_rules", "", || json!({"join_rule": "public"})),
    ("M sets topic", M, "m.room.topic", "", || json!({"topic": "by m"})),
    ("U sets topic", U, "m.room.topic", "", || json!({"topic": "by u"})),
    ("U sets name", U, "m.room.name", "", || json!({"name": "by u"})),
    ("Z joins", Z, "m.room.member", Z, || json!({"membership": "join"})),
    ("C sets topic", C, "m.room.topic", "", || json!({"topic": "by c"})),
    // three power-level contents by the creator that are all legal successors of each other
    ("C sets invite level 50", C, "m.room.power_levels", "", || pl_content_with("invite", 50)),
    ("C sets kick level 75", C, "m.room.power_levels", "", || pl_content_with("kick", 75)),
    ("C sets redact level 75", C, "m.room.power_levels", "", || pl_content_with("redact", 75)),
    // a join-rule change by the moderator (needs level 50 from a power_levels event)
    ("M sets join_rules knock", M, "m.room.join_rules", "", || json!({"join_rule": "knock"})),
    // knocking exists from room version 7 (rejected by the auth rules before)
    ("K knocks", K, "m.room.member", K, || json!({"membership": "knock"})),
    // same sender as the knock rule: equal power, so the later one wins the power phase
    ("M sets join_rules invite", M, "m.room.join_rules", "", || json!({"join_rule": "invite"})),
    // a join that only a public join rule authorises (K was never invited)
    ("K joins", K, "m.room.member", K, || json!({"membership": "join"})),
    // a second power-levels state event, under a non-empty state key (unusual but valid): it is not "the" power levels
    ("C sets power_levels under state key x", C, "m.room.power_levels", "x", || pl_content_with("kick", 60)),
];

/// names for appended events: creation order and id order deliberately disagree
const NAMES: [&str; 6] = ["k3", "k1", "k4", "k0", "k2", "k5"];

fn key_of(e: &Ev) -> (String, String) {
    (e.ty.clone(), e.state_key.clone().unwrap_or_default())
}

impl History {
    fn raw_event(&self, id: &str, sender: &str, ty: &str, sk: &str, content: Value, prev: Vec<String>, ts: u64, state: &SMap) -> Ev {
        let mut e = Ev {
            event_id: id.to_owned(),
            room_id: ROOM.to_owned(),
            sender: sender.to_owned(),
            ty: ty.to_owned(),
            state_key: Some(sk.to_owned()),
            content: content.to_string(),
            prev_events: prev,
            auth_events: vec![],
            redacts: None,
            ts,
        };
        let sel = auth_selection(self.v, &e).unwrap_or_default();
        e.auth_events = sel.iter().filter_map(|k| state.get(k).cloned()).collect();
        // `auth_events` is a set: lower-case base kinds list it in the opposite order (power levels before
        // the create event) in every event of the history
        if self.base_kind.is_ascii_lowercase() {
            e.auth_events.reverse();
        }
        e
    }

    /// Is the event accepted by the real auth_check against `state`?
    fn accepted(&self, e: &Ev, state: &SMap) -> bool {
        let st: BTreeMap<(String, String), Ev> =
            state.iter().map(|(k, id)| (k.clone(), self.store.ev(id).clone())).collect();
        matches!(real_auth(self.v, e, &st).map(|r| r.result), Some(Ok(Ok(()))))
    }

    fn push(&mut self, e: Ev, mut state: SMap) {
        state.insert(key_of(&e), e.event_id.clone());
        self.nodes.push(Node { id: e.event_id.clone(), state });
        self.store.insert(e);
    }

    /// Base room. `with_power_levels = false` gives room B of the design (events without a
    /// power-level ancestor exist).
    pub fn base(v: u8, with_power_levels: bool) -> History {
        History::base_with_create_sender(v, with_power_levels, C)
    }

    /// `create_sender` other than the creator is only meaningful before room version 11, where the
    /// creator is `content.creator` (still C) and need not be the sender of the create event.
    pub fn base_with_create_sender(v: u8, with_power_levels: bool, create_sender: &'static str) -> History {
        History::base_full(v, with_power_levels, create_sender, false)
    }

    fn base_full(v: u8, with_power_levels: bool, create_sender: &'static str, reversed_auth: bool) -> History {
        let kind = if with_power_levels { 'A' } else { 'B' };
        let mut h = History {
            v,
            store: Store::default(),
            nodes: vec![],
            base_len: 0,
            base_kind: if reversed_auth { kind.to_ascii_lowercase() } else { kind },
            trail: vec![],
        };
        let mut create_content = json!({"room_version": v.to_string()});
        if v <= 10 {
            create_content["creator"] = json!(C);
        }
        let mut steps: Vec<(&str, &str, &str, &str, Value)> = vec![
            ("b0", create_sender, "m.room.create", "", create_content),
            ("b1", C, "m.room.member", C, json!({"membership": "join"})),
        ];
        if with_power_levels {
            steps.push(("b2", C, "m.room.power_levels", "", pl_content(&[(C, 100), (M, 50)])));
        }
        steps.push(("b3", C, "m.room.join_rules", "", json!({"join_rule": "public"})));
        steps.push(("b4", M, "m.room.member", M, json!({"membership": "join"})));
        steps.push(("b5", U, "m.room.member", U, json!({"membership": "join"})));
        steps.push(("b6", C, "m.room.member", Z, json!({"membership": "invite"})));
        for (i, (name, sender, ty, sk, content)) in steps.into_iter().enumerate() {
            let (prev, state) = match h.nodes.last() {
                Some(n) => (vec![n.id.clone()], n.state.clone()),
                None => (vec![], SMap::new()),
            };
            let e = h.raw_event(&format!("${name}:s1"), sender, ty, sk, content, prev, 10 * (i as u64 + 1), &state);
            assert!(h.accepted(&e, &state), "base event {name} must be authorised in v{v}");
            h.push(e, state);
        }
        h.base_len = h.nodes.len();
        h
    }

    /// Base room by kind ('A', 'B', 'C'). Room C = room A followed by: creator sets invite level
    /// (PLX) on the tip; mod sets the topic on top of PLX; creator sets kick level (PLY) on the
    /// old tip; creator sets redact level on top of both forks (a merge event). Exploration then
    /// starts from a state whose history already contains an abandoned power-levels fork.
    pub fn base_kind(v: u8, kind: char) -> History {
        match kind {
            'A' => History::base(v, true),
            'B' => History::base(v, false),
            // a / b / d / e: the same rooms with every `auth_events` list in the opposite order
            'a' => History::base_full(v, true, C, true),
            'b' => History::base_full(v, false, C, true),
            'd' | 'e' => {
                let mut h = History::base_full(v, kind == 'd', M, true);
                h.base_kind = kind;
                h
            }
            // D / E: rooms A / B whose create event was *sent* by M while `content.creator` is C
            // (legal before v11): "the creator" and "the sender of the create event" differ
            'D' | 'E' => {
                let mut h = History::base_with_create_sender(v, kind == 'D', M);
                h.base_kind = kind;
                h
            }
            // F: room A after the creator made it invite-only (so that a later "public" is a new event that only
            // the joins made under it cite)
            'F' => {
                let mut h = History::base(v, true);
                let tip = h.nodes.len() - 1;
                h = h.apply(Action { template: 7, prev: (tip, None), ts_class: 2 }).expect("room F construction must be authorised");
                h.base_len = h.nodes.len();
                h.base_kind = 'F';
                h.trail.clear();
                h
            }
            // G: room A followed by two concurrent power-levels events on the tip (PX = kick level, then PC = invite
            // level, which wins a merge by its later timestamp) and a ban of U made under PX. All three stay
            // candidates for prev_events (base_len is left at room A's), so that exploration can build on the
            // losing fork: a later event citing the ban brings PX back through the auth difference while PC is
            // unconflicted, and the conflicted set can consist of power events only.
            'G' => {
                let mut h = History::base(v, true);
                let tip = h.nodes.len() - 1;
                for (t, p) in [(15usize, tip), (14, tip), (3, tip + 1)] {
                    h = h.apply(Action { template: t, prev: (p, None), ts_class: 2 }).expect("room G construction must be authorised");
                }
                h.base_kind = 'G';
                h.trail.clear();
                h
            }
            _ => {
                let mut h = History::base(v, true);
                let tip = h.nodes.len() - 1;
                for (t, p, q) in [(14usize, tip, None), (9, tip + 1, None), (15, tip, None), (16, tip + 2, Some(tip + 3))] {
                    h = h
                        .apply(Action { template: t, prev: (p, q), ts_class: 2 })
                        .expect("room C construction must be authorised");
                }
                h.base_len = h.nodes.len();
                h.base_kind = 'C';
                h.trail.clear();
                h
            }
        }
    }

    /// candidate prev nodes: the base tip and everything appended
    pub fn prev_candidates(&self) -> Vec<usize> {
        (self.base_len - 1..self.nodes.len()).collect()
    }

    /// State before an event with the given prev nodes (resolved by the reference for 2 prevs).
    pub fn state_at(&self, prev: (usize, Option<usize>)) -> SMap {
        match prev.1 {
            None => self.nodes[prev.0].state.clone(),
            Some(b) => resolve_ref(self.v, &self.store, &[self.nodes[prev.0].state.clone(), self.nodes[b].state.clone()]),
        }
    }

    /// Try to append; `None` if an honest server would not create the event (auth fails, or a
    /// no-op that does not change the state entry's content).
    pub fn apply(&self, a: Action) -> Option<History> {
        let (_, sender, ty, sk, content) = TEMPLATES[a.template];
        let state = self.state_at(a.prev);
        // appended events are numbered over the whole history (room C's construction included)
        let k = self.nodes.iter().filter(|n| !n.id.starts_with("$b")).count();
        let id = format!("${}{}:s1", NAMES[k % NAMES.len()], if k >= NAMES.len() { (k / NAMES.len()).to_string() } else { String::new() });
        let mut prev = vec![self.nodes[a.prev.0].id.clone()];
        if let Some(b) = a.prev.1 {
            prev.push(self.nodes[b].id.clone());
        }
        let max_ts = self.store.evs.values().map(|e| e.ts).max().unwrap_or(0);
        let ts = match a.ts_class {
            0 => 5,
            1 => self.store.ev(&prev[0]).ts,
            _ => max_ts + 10,
        };
        let e = self.raw_event(&id, sender, ty, sk, content(), prev, ts, &state);
        // skip exact no-ops (same content by the same sender already in state)
        if let Some(cur) = state.get(&key_of(&e)) {
            let c = self.store.ev(cur);
            if c.content == e.content && c.sender == e.sender {
                return None;
            }
        }
        if !self.accepted(&e, &state) {
            return None;
        }
        let mut h = self.clone();
        h.push(e, state);
        h.trail.push(a);
        Some(h)
    }

    /// Every action applicable in this history (before the auth filter).
    pub fn actions(&self, templates: &[usize], ts_classes: &[u8]) -> Vec<Action> {
        let cands = self.prev_candidates();
        let mut out = vec![];
        for &t in templates {
            for (i, &p) in cands.iter().enumerate() {
                for &ts in ts_classes {
                    out.push(Action { template: t, prev: (p, None), ts_class: ts });
                }
                for &q in cands.iter().skip(i + 1) {
                    // merging a node with its own ancestor is the linear case again
                    if self.is_ancestor(p, q) || self.is_ancestor(q, p) {
                        continue;
                    }
                    for &ts in ts_classes {
                        out.push(Action { template: t, prev: (p, Some(q)), ts_class: ts });
                    }
                }
            }
        }
        out
    }

    /// is node `a` an ancestor (through prev_events) of node `b`?
    pub fn is_ancestor(&self, a: usize, b: usize) -> bool {
        let target = &self.nodes[a].id;
        let mut stack = vec![self.nodes[b].id.clone()];
        let mut seen = BTreeSet::new();
        while let Some(id) = stack.pop() {
            if &id == target {
                return true;
            }
            if seen.insert(id.clone()) {
                stack.extend(self.store.ev(&id).prev_events.iter().cloned());
            }
        }
        false
    }

    /// Nodes whose states are merged by the checks: a mid-base node, the base tip, everything appended.
    pub fn merge_candidates(&self) -> Vec<usize> {
        // node 0 = the state right after the create event: its auth chain is empty, so merging it
        // puts the create event itself into the auth difference
        // (rooms D / E only: elsewhere it would only multiply the subsets)
        let mut v = if matches!(self.base_kind, 'D' | 'E' | 'd' | 'e') { vec![0, self.base_len - 3] } else { vec![self.base_len - 3] };
        v.extend(self.base_len - 1..self.nodes.len());
        v
    }

    pub fn to_json(&self) -> Value {
        json!({
            "v": self.v,
            "base_with_power_levels": self.store.evs.contains_key("$b2:s1"),
            "base_kind": self.base_kind.to_string(),
            "trail": self.trail.iter().map(Action::to_json).collect::<Vec<_>>(),
            "events": self.nodes.iter().map(|n| self.store.ev(&n.id).to_json()).collect::<Vec<_>>(),
        })
    }

    pub fn from_json_trail(hj: &Value) -> Option<History> {
        let trail: Vec<Action> = hj["trail"].as_array()?.iter().map(Action::from_json).collect();
        let kind = match hj["base_kind"].as_str() {
            Some(k) => k.chars().next()?,
            None => if hj["base_with_power_levels"].as_bool()? { 'A' } else { 'B' },
        };
        let mut h = History::base_kind(hj["v"].as_u64()? as u8, kind);
        for a in &trail {
            h = h.apply(*a)?;
        }
        Some(h)
    }

    pub fn from_trail(v: u8, with_pl: bool, trail: &[Action]) -> Option<History> {
        let mut h = History::base(v, with_pl);
        for a in trail {
            h = h.apply(*a)?;
        }
        Some(h)
    }
}

//! Reference model of state resolution v2 (DESIGN.md Appendix A.4), written from the spec
//! text over plain data, using the *real* `auth_check` as the authorization predicate (C08
//! covers the predicate itself), plus the bridge to the real `ruma_state_res::resolve`.

use std::{
    collections::{BTreeMap, BTreeSet, HashMap},
    ops::Deref,
    sync::Arc,
};

use engine::{catch, Panicked};
use ruma_common::{EventId, OwnedEventId};
use ruma_events::StateEventType;
use ruma_state_res::{
    verif_order::{HashMap as VMap, HashSet as VSet},
    StateMap,
};
use serde_json::Value;

use crate::{
    pdu::{Ev, Pdu},
    spec_auth::{auth_selection, read_level, Lvl},
    world::auth_rules,
};

pub type SKey = (String, String);
pub type SMap = BTreeMap<SKey, String>;

#[derive(Clone, Default)]
pub struct Store {
    pub evs: BTreeMap<String, Ev>,
    pub pdus: HashMap<OwnedEventId, Arc<Pdu>>,
}

impl Store {
    pub fn insert(&mut self, ev: Ev) {
        let pdu = Pdu::from_ev(&ev).expect("harness events are constructible");
        self.pdus.insert(pdu.event_id.clone(), pdu);
        self.evs.insert(ev.event_id.clone(), ev);
    }
    pub fn ev(&self, id: &str) -> &Ev {
        &self.evs[id]
    }
    pub fn pdu(&self, id: &EventId) -> Option<Arc<Pdu>> {
        self.pdus.get(id).cloned()
    }
    pub fn pdu_s(&self, id: &str) -> Arc<Pdu> {
        self.pdus.get(<&EventId>::try_from(id).unwrap()).cloned().expect("known event")
    }

    /// all ancestors through `auth_events`, excluding the event itself
    pub fn auth_chain(&self, id: &str) -> BTreeSet<String> {
        let mut out = BTreeSet::new();
        let mut stack: Vec<&str> = self.evs[id].auth_events.iter().map(String::as_str).collect();
        while let Some(a) = stack.pop() {
            if out.insert(a.to_owned()) {
                if let Some(e) = self.evs.get(a) {
                    stack.extend(e.auth_events.iter().map(String::as_str));
                }
            }
        }
        out
    }

    /// full auth chain of a state set: union of the auth chains of its events
    pub fn full_chain(&self, state: &SMap) -> BTreeSet<String> {
        let mut out = BTreeSet::new();
        for id in state.values() {
            out.extend(self.auth_chain(id));
        }
        out
    }
}

fn key_of(e: &Ev) -> SKey {
    (e.ty.clone(), e.state_key.clone().unwrap_or_default())
}

fn is_power_event(e: &Ev) -> bool {
    match e.ty.as_str() {
        "m.room.power_levels" | "m.room.join_rules" | "m.room.create" => e.state_key.as_deref() == Some(""),
        "m.room.member" => {
            let m = e.content_value();
            matches!(m.get("membership").and_then(Value::as_str), Some("leave" | "ban"))
                && e.state_key.as_deref() != Some(e.sender.as_str())
        }
        _ => false,
    }
}

/// the power_levels event among the auth events of `e`
fn pl_auth_event<'a>(store: &'a Store, e: &Ev) -> Option<&'a Ev> {
    e.auth_events
        .iter()
        .filter_map(|a| store.evs.get(a))
        .find(|a| a.ty == "m.room.power_levels" && a.state_key.as_deref() == Some(""))
}

/// power level of the sender of `e` as seen in `e`'s own auth events
fn sender_power(v: u8, store: &Store, e: &Ev) -> i64 {
    if let Some(pl) = pl_auth_event(store, e) {
        let c = pl.content_value();
        let lvl = |x: Option<&Value>| match read_level(v, x) {
            Lvl::Int(i) => Some(i),
            _ => None,
        };
        return lvl(c.get("users").and_then(|u| u.get(&e.sender)))
            .or_else(|| lvl(c.get("users_default")))
            .unwrap_or(0);
    }
    let create = e
        .auth_events
        .iter()
        .filter_map(|a| store.evs.get(a))
        .find(|a| a.ty == "m.room.create" && a.state_key.as_deref() == Some(""));
    match create {
        Some(c) => {
            let creator = if v >= 11 {
                Some(c.sender.clone())
            } else {
                c.content_value().get("creator").and_then(Value::as_str).map(str::to_owned)
            };
            if creator.as_deref() == Some(e.sender.as_str()) {
                100
            } else {
                0
            }
        }
        None => 0,
    }
}

/// Real auth check of `e` against a state given as (type,key) -> event id.
fn auth_ok(v: u8, store: &Store, e: &Ev, auth_state: &BTreeMap<SKey, String>) -> bool {
    let rules = auth_rules(v);
    let pdu = store.pdu_s(&e.event_id);
    let real: HashMap<(StateEventType, String), Arc<Pdu>> = auth_state
        .iter()
        .map(|((t, k), id)| ((StateEventType::from(t.as_str()), k.clone()), store.pdu_s(id)))
        .collect();
    ruma_state_res::auth_check(&rules, &pdu, |ty, key| real.get(&(ty.clone(), key.to_owned())).cloned()).is_ok()
}

fn iterative_auth(v: u8, store: &Store, order: &[String], mut partial: SMap) -> SMap {
    for id in order {
        let e = store.ev(id);
        let mut auth: BTreeMap<SKey, String> = BTreeMap::new();
        for a in &e.auth_events {
            if let Some(ae) = store.evs.get(a) {
                auth.insert(key_of(ae), a.clone());
            }
        }
        let Ok(sel) = auth_selection(v, e) else { continue };
        for k in sel {
            if let Some(pid) = partial.get(&k) {
                auth.insert(k, pid.clone());
            }
        }
        if auth_ok(v, store, e, &auth) {
            partial.insert(key_of(e), id.clone());
        }
    }
    partial
}

/// Reverse topological power ordering of `nodes` (edges = auth_events inside `nodes`).
pub fn power_order(v: u8, store: &Store, nodes: &BTreeSet<String>) -> Vec<String> {
    let mut remaining: BTreeSet<String> = nodes.clone();
    let mut done: BTreeSet<String> = BTreeSet::new();
    let mut out = vec![];
    while !remaining.is_empty() {
        let ready: Vec<&String> = remaining
            .iter()
            .filter(|id| store.ev(id).auth_events.iter().all(|a| !nodes.contains(a) || done.contains(a)))
            .collect();
        let next = ready
            .into_iter()
            .min_by_key(|id| {
                let e = store.ev(id);
                (-sender_power(v, store, e), e.ts, (*id).clone())
            })
            .expect("auth graph is acyclic")
            .clone();
        remaining.remove(&next);
        done.insert(next.clone());
        out.push(next);
    }
    out
}

/// Mainline ordering of `nodes` with respect to power_levels event `p`.
pub fn mainline_order(store: &Store, nodes: &BTreeSet<String>, p: Option<&String>) -> Vec<String> {
    mainline_order_with(store, nodes, p, 0)
}

/// `no_ancestor_rank` = 0 is the specification (events without a mainline ancestor sort
/// strictly first); 1 models the recorded ruma deviation (they tie with events whose closest
/// mainline event is the oldest one) and is only used to *classify* a divergence.
pub fn mainline_order_with(store: &Store, nodes: &BTreeSet<String>, p: Option<&String>, no_ancestor_rank: usize) -> Vec<String> {
    let mut mainline: Vec<String> = vec![];
    let mut cur = p.cloned();
    while let Some(id) = cur {
        cur = pl_auth_event(store, store.ev(&id)).map(|e| e.event_id.clone());
        mainline.push(id);
    }
    // rank: 0 = no mainline ancestor (strictly first); oldest mainline event 1; newest len
    let rank = |id: &String| -> usize {
        let mut cur = Some(id.clone());
        while let Some(c) = cur {
            if let Some(idx) = mainline.iter().position(|m| *m == c) {
                return mainline.len() - idx;
            }
            cur = pl_auth_event(store, store.ev(&c)).map(|e| e.event_id.clone());
        }
        no_ancestor_rank
    };
    let mut v: Vec<String> = nodes.iter().cloned().collect();
    v.sort_by_key(|id| (rank(id), store.ev(id).ts, id.clone()));
    v
}

/// The reference resolution.
pub fn resolve_ref(v: u8, store: &Store, sets: &[SMap]) -> SMap {
    resolve_ref_with(v, store, sets, 0)
}

pub fn resolve_ref_with(v: u8, store: &Store, sets: &[SMap], no_ancestor_rank: usize) -> SMap {
    // unconflicted / conflicted
    let mut keys: BTreeSet<&SKey> = BTreeSet::new();
    for s in sets {
        keys.extend(s.keys());
    }
    let mut unconflicted = SMap::new();
    let mut conflicted: BTreeSet<String> = BTreeSet::new();
    for k in keys {
        let vals: Vec<Option<&String>> = sets.iter().map(|s| s.get(k)).collect();
        if vals.iter().all(|x| x.is_some() && *x == vals[0]) {
            unconflicted.insert(k.clone(), vals[0].unwrap().clone());
        } else {
            conflicted.extend(vals.into_iter().flatten().cloned());
        }
    }
    if conflicted.is_empty() {
        return unconflicted;
    }
    // auth difference
    let chains: Vec<BTreeSet<String>> = sets.iter().map(|s| store.full_chain(s)).collect();
    let union: BTreeSet<String> = chains.iter().flatten().cloned().collect();
    let auth_diff: BTreeSet<String> =
        union.into_iter().filter(|id| !chains.iter().all(|c| c.contains(id))).collect();
    let full: BTreeSet<String> =
        conflicted.union(&auth_diff).filter(|id| store.evs.contains_key(*id)).cloned().collect();
    // power events and their auth chains within the full conflicted set
    let mut x: BTreeSet<String> = BTreeSet::new();
    for id in &full {
        if is_power_event(store.ev(id)) {
            x.insert(id.clone());
            x.extend(store.auth_chain(id).into_iter().filter(|a| full.contains(a)));
        }
    }
    let order = power_order(v, store, &x);
    let partial = iterative_auth(v, store, &order, unconflicted.clone());
    // the rest, in mainline ordering of the resolved power levels
    let rest: BTreeSet<String> = full.difference(&x).cloned().collect();
    let p = partial.get(&("m.room.power_levels".to_owned(), String::new()));
    let order = mainline_order_with(store, &rest, p, no_ancestor_rank);
    let mut resolved = iterative_auth(v, store, &order, partial);
    for (k, id) in unconflicted {
        resolved.insert(k, id);
    }
    resolved
}

// ---------------------------------------------------------------------------------------
// the real thing

pub fn to_real_map(m: &SMap) -> StateMap<OwnedEventId> {
    m.iter()
        .map(|((t, k), id)| ((StateEventType::from(t.as_str()), k.clone()), EventId::parse(id.as_str()).unwrap()))
        .collect()
}

pub fn from_real_map(m: &StateMap<OwnedEventId>) -> SMap {
    // Deref to the std map: reading the result is not a scripted choice point
    m.deref().iter().map(|((t, k), id)| ((t.to_string(), k.clone()), id.to_string())).collect()
}

pub fn to_real_chain(c: &BTreeSet<String>) -> VSet<OwnedEventId> {
    c.iter().map(|id| EventId::parse(id.as_str()).unwrap()).collect()
}

/// Run the real `resolve` (under whatever iteration-order script is installed).
pub fn resolve_real(
    v: u8,
    store: &Store,
    sets: &[SMap],
    chains: &[BTreeSet<String>],
) -> Result<Result<SMap, String>, Panicked> {
    let rules = auth_rules(v);
    let real_sets: Vec<StateMap<OwnedEventId>> = sets.iter().map(to_real_map).collect();
    let real_chains: Vec<VSet<OwnedEventId>> = chains.iter().map(to_real_chain).collect();
    catch(|| {
        ruma_state_res::resolve(&rules, &real_sets, real_chains, |id| store.pdu(id))
            .map(|m| from_real_map(&m))
            .map_err(|e| e.to_string())
    })
}

/// `resolve_real` over a store that cannot load one event (a server that has not received it yet)
pub fn resolve_real_hiding(
    v: u8,
    store: &Store,
    hidden: &str,
    sets: &[SMap],
    chains: &[BTreeSet<String>],
) -> Result<Result<SMap, String>, Panicked> {
    let rules = auth_rules(v);
    let real_sets: Vec<StateMap<OwnedEventId>> = sets.iter().map(to_real_map).collect();
    let real_chains: Vec<VSet<OwnedEventId>> = chains.iter().map(to_real_chain).collect();
    catch(|| {
        ruma_state_res::resolve(&rules, &real_sets, real_chains, |id| if id.as_str() == hidden { None } else { store.pdu(id) })
            .map(|m| from_real_map(&m))
            .map_err(|e| e.to_string())
    })
}

pub type Graph = VMap<OwnedEventId, VSet<OwnedEventId>>;

//! C08 / C09 / (C20): the finite abstraction of (room version, state, candidate event)
//! triples, one family per rule group, each the full product of the dimensions that rule
//! group can observe (DESIGN §3 C08).

use engine::Tier;
use serde_json::{json, Value};

use crate::{
    pdu::{Ev, RefState},
    world::*,
};

#[derive(Clone, Debug)]
pub struct Case {
    pub v: u8,
    pub family: &'static str,
    pub ev: Ev,
    pub state: RefState,
    pub tpi_sig_valid: bool,
}

impl Case {
    pub fn to_json(&self) -> Value {
        json!({
            "v": self.v, "family": self.family, "event": self.ev.to_json(),
            "state": self.state.values().map(|e| e.to_json()).collect::<Vec<_>>(),
            "tpi_sig_valid": self.tpi_sig_valid,
        })
    }
    pub fn from_json(v: &Value) -> Case {
        let mut state = RefState::new();
        for e in v["state"].as_array().cloned().unwrap_or_default() {
            crate::pdu::state_insert(&mut state, Ev::from_json(&e));
        }
        Case {
            v: v["v"].as_u64().unwrap_or(1) as u8,
            family: "replay",
            ev: Ev::from_json(&v["event"]),
            state,
            tpi_sig_valid: v["tpi_sig_valid"].as_bool().unwrap_or(false),
        }
    }
}

pub const FAMILIES: [&str; 12] = [
    "create",
    "common",
    "member-join",
    "member-invite",
    "member-invite-tpi",
    "member-leave",
    "member-ban",
    "member-knock",
    "member-misc",
    "power-levels",
    "generic",
    "special",
];

const CUR: [Option<&str>; 6] = [None, Some("join"), Some("invite"), Some("leave"), Some("ban"), Some("knock")];

fn join_rules() -> Vec<Option<Value>> {
    vec![
        None,
        Some(json!("public")),
        Some(json!("invite")),
        Some(json!("knock")),
        Some(json!("restricted")),
        Some(json!("knock_restricted")),
        Some(json!("x")),
        Some(json!(5)),
    ]
}

/// level encodings: how an integer level is written into the current power levels
#[derive(Clone, Copy, PartialEq)]
enum Enc {
    Int,
    Str,
}
fn enc(e: Enc, n: i64) -> Value {
    match e {
        Enc::Int => json!(n),
        Enc::Str => json!(n.to_string()),
    }
}

/// relation of a threshold to the sender level 50: absent / below / equal / above
const REL4: [Option<i64>; 4] = [None, Some(49), Some(50), Some(51)];
const REL3: [i64; 3] = [49, 50, 51];

fn finish(v: u8, family: &'static str, mut e: Ev, room: &Room, f: &mut dyn FnMut(Case)) {
    if e.auth_events.is_empty() {
        fill_auth_events(v, &mut e, &room.state);
    }
    if e.prev_events.is_empty() && e.ty != "m.room.create" {
        e.prev_events = vec!["$prev:s1".to_owned()];
    }
    // a membership event other than a join that still carries `join_authorised_via_users_server` (copied
    // from the join content by a client, say): the rules and the selection only look at that key for joins
    let mut with_via = None;
    if e.ty == "m.room.member" {
        let mut c = e.content_value();
        let not_join = c.get("membership").and_then(Value::as_str).is_some_and(|m| m != "join");
        if not_join && c.get("join_authorised_via_users_server").is_none() {
            c["join_authorised_via_users_server"] = json!(VIA);
            let mut e2 = e.clone();
            e2.content = c.to_string();
            with_via = Some(e2);
        }
        // likewise a malformed `third_party_invite` on anything but an invite: nobody looks at it
        let mut c = e.content_value();
        let not_invite = c.get("membership").and_then(Value::as_str).is_some_and(|m| m != "invite");
        if not_invite && c.get("third_party_invite").is_none() {
            c["third_party_invite"] = json!("not an object");
            let mut e3 = e.clone();
            e3.content = c.to_string();
            f(Case { v, family, ev: e3, state: room.state.clone(), tpi_sig_valid: false });
        }
    }
    // from room version 11 the creator is the sender of the create event; a leftover `creator` field in its
    // content (a room upgraded by old software) names nobody
    if v >= 11 && e.ty != "m.room.create" {
        let key = ("m.room.create".to_owned(), String::new());
        if let Some(create) = room.state.get(&key) {
            let mut c = create.content_value();
            if c.get("creator").is_none() {
                c["creator"] = json!(if create.sender == SENDER { TARGET } else { SENDER });
                let mut st = room.state.clone();
                let mut create2 = create.clone();
                create2.content = c.to_string();
                st.insert(key, create2);
                f(Case { v, family, ev: e.clone(), state: st, tpi_sig_valid: false });
            }
        }
    }
    // the same question when the sender is the room's creator: with a power-levels event in the state the
    // creator has the level that event gives them (their entry or users_default), nothing more
    if e.ty != "m.room.create" && room.state.contains_key(&("m.room.power_levels".to_owned(), String::new())) {
        let key = ("m.room.create".to_owned(), String::new());
        if let Some(create) = room.state.get(&key) {
            if create.sender != e.sender {
                let mut create2 = create.clone();
                create2.sender = e.sender.clone();
                let mut c = create2.content_value();
                if c.get("creator").is_some() {
                    c["creator"] = json!(e.sender);
                }
                create2.content = c.to_string();
                let mut st = room.state.clone();
                st.insert(key, create2);
                f(Case { v, family, ev: e.clone(), state: st, tpi_sig_valid: false });
            }
        }
    }
    f(Case { v, family, ev: e, state: room.state.clone(), tpi_sig_valid: false });
    if let Some(e2) = with_via {
        f(Case { v, family, ev: e2, state: room.state.clone(), tpi_sig_valid: false });
    }
}

fn member_ev(sender: &str, target: &str, content: Value) -> Ev {
    ev("$new:s1", sender, "m.room.member", Some(target), content)
}

/// How the sender gets level 50 (or its no-power-levels level).
#[derive(Clone, Copy, PartialEq, Debug)]
enum SenderPl {
    /// power_levels present, users[sender] = 50
    Entry,
    /// power_levels present, no entry, users_default = 50
    Default,
    /// power_levels present, no `users` map at all, users_default = 50
    DefaultNoUsers,
    /// no power_levels event, sender is the creator (level 100)
    AbsentCreator,
    /// no power_levels event, sender is someone else (level 0)
    AbsentOther,
}
const SENDER_PL: [SenderPl; 5] =
    [SenderPl::Entry, SenderPl::Default, SenderPl::DefaultNoUsers, SenderPl::AbsentCreator, SenderPl::AbsentOther];

fn sender_for(sp: SenderPl) -> &'static str {
    if sp == SenderPl::AbsentCreator {
        CREATOR
    } else {
        SENDER
    }
}

fn base_pl(sp: SenderPl, e: Enc) -> Option<Pl> {
    match sp {
        SenderPl::Entry => Some(Pl::default().user(SENDER, Some(enc(e, 50))).user(CREATOR, Some(enc(e, 100)))),
        SenderPl::Default => Some(Pl::default().field("users_default", Some(enc(e, 50))).user(CREATOR, Some(enc(e, 100)))),
        SenderPl::DefaultNoUsers => Some(Pl::default().field("users_default", Some(enc(e, 50)))),
        _ => None,
    }
}

pub fn for_family(tier: Tier, family: &'static str, v: u8, f: &mut dyn FnMut(Case)) {
    match family {
        "create" => fam_create(v, f),
        "common" => fam_common(v, f),
        "member-join" => fam_join(v, f),
        "member-invite" => fam_invite(v, f),
        "member-invite-tpi" => crate::tpi::fam_invite_tpi(v, f),
        "member-leave" => fam_leave(tier, v, f),
        "member-ban" => fam_ban(v, f),
        "member-knock" => fam_knock(v, f),
        "member-misc" => fam_member_misc(v, f),
        "power-levels" => fam_power_levels(tier, v, f),
        "generic" => fam_generic(tier, v, f),
        "special" => fam_special(v, f),
        _ => unreachable!(),
    }
}

// ---------------------------------------------------------------------------------------

fn fam_create(v: u8, f: &mut dyn FnMut(Case)) {
    for prev in [vec![], vec!["$x:s1".to_owned()]] {
        for (room_id, sender) in [("!r:s1", "@c:s1"), ("!r:s2", "@c:s1"), ("!r:s1", "@c:s2"), ("!r:s1:8448", "@c:s1:8448"), ("!r:s1", "@c:s1:8448")] {
            for creator in [None, Some(json!("@c:s1")), Some(json!("@other:s9")), Some(json!(5)), Some(Value::Null), Some(json!("not a user"))] {
                for extra in [false, true] {
                    let mut c = serde_json::Map::new();
                    if let Some(cr) = &creator {
                        c.insert("creator".into(), cr.clone());
                    }
                    if extra {
                        c.insert("room_version".into(), json!(v.to_string()));
                        c.insert("m.federate".into(), json!(false));
                    }
                    let mut e = ev("$create:s1", sender, "m.room.create", Some(""), Value::Object(c));
                    e.room_id = room_id.to_owned();
                    e.prev_events = prev.clone();
                    f(Case { v, family: "create", ev: e, state: RefState::new(), tpi_sig_valid: false });
                }
            }
        }
    }
}

/// three representative events for the rules every event passes through
fn representative_events(sender: &str) -> Vec<Ev> {
    vec![
        ev("$new:s1", sender, "m.room.message", None, json!({"body": "x", "msgtype": "m.text"})),
        member_ev(sender, sender, json!({"membership": "join"})),
        ev("$new:s1", sender, "m.room.topic", Some(""), json!({"topic": "t"})),
        ev("$new:s1", sender, "m.room.power_levels", Some(""), json!({"users": {CREATOR: 100}})),
        // types with a rule of their own that ends in "allow" (aliases in v1-5) or that is decided
        // late (redaction): the common rules must have been applied before those
        ev("$new:s1", sender, "m.room.aliases", Some(sender.split_once(':').map(|x| x.1).unwrap_or("")), json!({"aliases": []})),
        {
            let mut e = ev("$new:s1", sender, "m.room.redaction", None, json!({"redacts": "$old:s1"}));
            e.redacts = Some("$old:s1".to_owned());
            e
        },
    ]
}

fn fam_common(v: u8, f: &mut dyn FnMut(Case)) {
    for create_in_state in [true, false] {
        for create_in_auth in [true, false] {
            for federate in [None, Some(json!(true)), Some(json!(false)), Some(json!("no"))] {
                for sender in [CREATOR, "@c2:s2", "@c3:s1:8448"] {
                    for e in representative_events(sender) {
                        let mut room = Room::new(v);
                        if let Some(fed) = &federate {
                            let mut c = create_event(v);
                            let mut cv = c.content_value();
                            cv["m.federate"] = fed.clone();
                            c.content = cv.to_string();
                            room.put(c);
                        }
                        room.member(sender, Some("join")).join_rule(Some(&json!("public")));
                        // sender has level 100 either way
                        room.pl(Some(&Pl::default().user(CREATOR, Some(json!(100))).user(sender, Some(json!(100)))));
                        let mut e = e.clone();
                        fill_auth_events(v, &mut e, &room.state);
                        if !create_in_auth {
                            e.auth_events.retain(|id| id != "$create:s1");
                            if e.auth_events.is_empty() {
                                e.auth_events.push("$unrelated:s1".to_owned());
                            }
                        }
                        if !create_in_state {
                            room.state.remove(&("m.room.create".to_owned(), String::new()));
                        }
                        finish(v, "common", e, &room, f);
                    }
                }
            }
        }
    }
}

#[derive(Clone, Copy, PartialEq, Debug)]
enum Via {
    Absent,
    JoinedEnough,
    JoinedEqual,
    JoinedNotEnough,
    Left,
    NoMemberEvent,
    Invited,
    InvalidString,
    NonString,
    Null,
    NoPlCreator,
    NoPlOther,
}
const VIAS: [Via; 12] = [
    Via::Absent,
    Via::JoinedEnough,
    Via::JoinedEqual,
    Via::JoinedNotEnough,
    Via::Left,
    Via::NoMemberEvent,
    Via::Invited,
    Via::InvalidString,
    Via::NonString,
    Via::Null,
    Via::NoPlCreator,
    Via::NoPlOther,
];

fn fam_join(v: u8, f: &mut dyn FnMut(Case)) {
    for sender_is_target in [true, false] {
        for cur in CUR {
            for jr in join_rules() {
                for prev_shape in 0..5 {
                    for target_is_creator in [false, true] {
                        for via in VIAS {
                            let restricted_like = matches!(jr.as_ref().and_then(|j| j.as_str()), Some("restricted" | "knock_restricted"));
                            if !restricted_like && !matches!(via, Via::Absent | Via::JoinedEnough | Via::InvalidString) {
                                continue;
                            }
                            let target = if target_is_creator { CREATOR } else { TARGET };
                            let sender = if sender_is_target { target } else { SENDER };
                            let mut room = Room::new(v);
                            room.join_rule(jr.as_ref());
                            room.member(target, cur);
                            if !sender_is_target {
                                room.member(sender, Some("join"));
                            }
                            let mut content = json!({"membership": "join"});
                            let via_user = if via == Via::NoPlCreator { CREATOR } else { VIA };
                            match via {
                                Via::Absent => {}
                                Via::InvalidString => content["join_authorised_via_users_server"] = json!("not-a-user"),
                                Via::NonString => content["join_authorised_via_users_server"] = json!(5),
                                Via::Null => content["join_authorised_via_users_server"] = Value::Null,
                                _ => content["join_authorised_via_users_server"] = json!(via_user),
                            }
                            // power levels: invite threshold 50, authorising user around it
                            let via_level = match via {
                                Via::JoinedEnough | Via::Left | Via::NoMemberEvent | Via::Invited => Some(51),
                                Via::JoinedEqual => Some(50),
                                Via::JoinedNotEnough => Some(49),
                                _ => None,
                            };
                            if !matches!(via, Via::NoPlCreator | Via::NoPlOther) {
                                // ban/kick deliberately on the other side of the threshold
                                let pl = Pl::default()
                                    .field("invite", Some(json!(50)))
                                    .field("ban", Some(json!(if via_level == Some(49) { 40 } else { 60 })))
                                    .field("kick", Some(json!(if via_level == Some(49) { 40 } else { 60 })))
                                    .user(CREATOR, Some(json!(100)))
                                    .user(VIA, via_level.map(|l| json!(l)));
                                room.pl(Some(&pl));
                            }
                            match via {
                                Via::JoinedEnough | Via::JoinedEqual | Via::JoinedNotEnough | Via::NoPlOther => {
                                    room.member(VIA, Some("join"));
                                }
                                Via::NoPlCreator => {
                                    if target != CREATOR {
                                        room.member(CREATOR, Some("join"));
                                    }
                                }
                                Via::Left => {
                                    room.member(VIA, Some("leave"));
                                }
                                Via::Invited => {
                                    room.member(VIA, Some("invite"));
                                }
                                _ => {}
                            }
                            let mut e = member_ev(sender, target, content);
                            e.prev_events = match prev_shape {
                                0 => vec!["$create:s1".to_owned()],
                                1 => vec!["$create:s1".to_owned(), "$other:s1".to_owned()],
                                2 => vec!["$other:s1".to_owned()],
                                3 => vec!["$other:s1".to_owned(), "$create:s1".to_owned()],
                                // no previous event at all: "the only previous event is the create event" is false
                                _ => vec![],
                            };
                            if prev_shape == 4 {
                                // `finish` would supply a previous event
                                fill_auth_events(v, &mut e, &room.state);
                                f(Case { v, family: "member-join", ev: e, state: room.state.clone(), tpi_sig_valid: false });
                                continue;
                            }
                            finish(v, "member-join", e, &room, f);
                        }
                    }
                }
            }
        }
    }
}

fn fam_invite(v: u8, f: &mut dyn FnMut(Case)) {
    for sp in SENDER_PL {
        for sender_m in CUR {
            for target_m in CUR {
                for sender_is_target in [false, true] {
                    for e in [Enc::Int, Enc::Str] {
                        for invite in REL4 {
                            if sp as u8 >= SenderPl::AbsentCreator as u8 && (invite.is_some() || e == Enc::Str) {
                                continue;
                            }
                            for users_default_low in [false, true] {
                                if users_default_low && sp != SenderPl::Entry {
                                    continue;
                                }
                                let sender = sender_for(sp);
                                let target = if sender_is_target { sender } else { TARGET };
                                let mut room = Room::new(v);
                                room.join_rule(Some(&json!("invite")));
                                room.member(sender, sender_m);
                                if !sender_is_target {
                                    room.member(target, target_m);
                                }
                                if let Some(mut pl) = base_pl(sp, e) {
                                    // the other thresholds sit on the opposite side
                                    let other = if invite == Some(51) { 40 } else { 60 };
                                    pl = pl.field("invite", invite.map(|n| enc(e, n))).field("ban", Some(enc(e, other))).field("kick", Some(enc(e, other)));
                                    if invite.is_none() {
                                        // default invite level 0: put the sender at -1 / 0 through users_default variants
                                        if users_default_low {
                                            pl = pl.user(SENDER, Some(enc(e, -1)));
                                        }
                                    }
                                    room.pl(Some(&pl));
                                }
                                let ev = member_ev(sender, target, json!({"membership": "invite"}));
                                finish(v, "member-invite", ev, &room, f);
                            }
                        }
                    }
                }
            }
        }
    }
}

fn fam_leave(tier: Tier, v: u8, f: &mut dyn FnMut(Case)) {
    // own leave
    for cur in CUR {
        for jr in [Some(json!("public")), Some(json!("knock"))] {
            let mut room = Room::new(v);
            room.join_rule(jr.as_ref()).member(SENDER, cur);
            room.pl(Some(&Pl::default().user(CREATOR, Some(json!(100)))));
            finish(v, "member-leave", member_ev(SENDER, SENDER, json!({"membership": "leave"})), &room, f);
        }
    }
    // kick / unban
    let encs: &[Enc] = if tier.is_thorough() { &[Enc::Int, Enc::Str] } else { &[Enc::Int] };
    for sp in SENDER_PL {
        for sender_m in CUR {
            for target_m in CUR {
                for &e in encs {
                    for ban in REL4 {
                        for kick in REL4 {
                            for target_level in [None, Some(49), Some(50), Some(51)] {
                                let no_pl = sp as u8 >= SenderPl::AbsentCreator as u8;
                                if no_pl && (ban.is_some() || kick.is_some() || target_level.is_some() || e == Enc::Str) {
                                    continue;
                                }
                                let sender = sender_for(sp);
                                let mut room = Room::new(v);
                                room.join_rule(Some(&json!("public")));
                                room.member(sender, sender_m).member(TARGET, target_m);
                                if let Some(mut pl) = base_pl(sp, e) {
                                    pl = pl
                                        .field("ban", ban.map(|n| enc(e, n)))
                                        .field("kick", kick.map(|n| enc(e, n)))
                                        .field("invite", Some(enc(e, 90)))
                                        .user(TARGET, target_level.map(|n| enc(e, n)));
                                    room.pl(Some(&pl));
                                }
                                finish(v, "member-leave", member_ev(sender, TARGET, json!({"membership": "leave"})), &room, f);
                            }
                        }
                    }
                }
            }
        }
    }
    // no-power-levels room: target is the creator (level 100) or not
    for target in [CREATOR, TARGET] {
        for sender in [CREATOR, SENDER] {
            if sender == target {
                continue;
            }
            let mut room = Room::new(v);
            room.member(sender, Some("join")).member(target, Some("join"));
            finish(v, "member-leave", member_ev(sender, target, json!({"membership": "leave"})), &room, f);
        }
    }
}

fn fam_ban(v: u8, f: &mut dyn FnMut(Case)) {
    for sp in SENDER_PL {
        for sender_m in CUR {
            for target_m in CUR {
                for sender_is_target in [false, true] {
                    for e in [Enc::Int, Enc::Str] {
                        for ban in REL4 {
                            for target_level in [None, Some(49), Some(50), Some(51)] {
                                let no_pl = sp as u8 >= SenderPl::AbsentCreator as u8;
                                if no_pl && (ban.is_some() || target_level.is_some() || e == Enc::Str) {
                                    continue;
                                }
                                if sender_is_target && target_level.is_some() {
                                    continue;
                                }
                                let sender = sender_for(sp);
                                let target = if sender_is_target { sender } else { TARGET };
                                let mut room = Room::new(v);
                                room.join_rule(Some(&json!("public")));
                                room.member(sender, sender_m);
                                if !sender_is_target {
                                    room.member(target, target_m);
                                }
                                if let Some(mut pl) = base_pl(sp, e) {
                                    let other = if ban == Some(51) { 40 } else { 60 };
                                    pl = pl
                                        .field("ban", ban.map(|n| enc(e, n)))
                                        .field("kick", Some(enc(e, other)))
                                        .field("invite", Some(enc(e, other)));
                                    if !sender_is_target {
                                        pl = pl.user(TARGET, target_level.map(|n| enc(e, n)));
                                    }
                                    room.pl(Some(&pl));
                                }
                                finish(v, "member-ban", member_ev(sender, target, json!({"membership": "ban"})), &room, f);
                            }
                        }
                    }
                }
            }
        }
    }
}

fn fam_knock(v: u8, f: &mut dyn FnMut(Case)) {
    for jr in join_rules() {
        for sender_is_target in [true, false] {
            for cur in CUR {
                for sender_m in [Some("join"), None] {
                    if sender_is_target && sender_m.is_none() {
                        continue;
                    }
                    let target = TARGET;
                    let sender = if sender_is_target { TARGET } else { SENDER };
                    let mut room = Room::new(v);
                    room.join_rule(jr.as_ref()).member(target, cur);
                    if !sender_is_target {
                        room.member(sender, sender_m);
                    }
                    room.pl(Some(&Pl::default().user(CREATOR, Some(json!(100))).user(SENDER, Some(json!(100)))));
                    finish(v, "member-knock", member_ev(sender, target, json!({"membership": "knock"})), &room, f);
                }
            }
        }
    }
}

fn fam_member_misc(v: u8, f: &mut dyn FnMut(Case)) {
    let contents = [
        json!({}),
        json!({"membership": "x"}),
        json!({"membership": ""}),
        json!({"membership": 5}),
        json!({"membership": null}),
        json!({"membership": "JOIN"}),
        json!({"membership": "join", "extra": 1}),
    ];
    for c in contents {
        for state_key in [Some(SENDER), Some(TARGET), None, Some(""), Some("not-a-user"), Some("@:s1")] {
            for cur in [None, Some("join"), Some("invite")] {
                let mut room = Room::new(v);
                room.join_rule(Some(&json!("public"))).member(SENDER, cur);
                room.pl(Some(&Pl::default().user(CREATOR, Some(json!(100))).user(SENDER, Some(json!(100)))));
                let mut e = member_ev(SENDER, "", c.clone());
                e.state_key = state_key.map(str::to_owned);
                finish(v, "member-misc", e, &room, f);
            }
        }
    }
}

// ---------------------------------------------------------------------------------------
// power levels

/// value encodings for the *new* power_levels content
fn new_encodings(n: i64) -> Vec<Value> {
    vec![json!(n), json!(n.to_string()), json!(format!(" +{n} ")), json!(n as f64 + 0.5), json!(n as f64), json!(true), Value::Null, json!([n]), json!({})]
}

const PL_SCALARS: [&str; 7] = ["users_default", "events_default", "state_default", "ban", "redact", "kick", "invite"];

/// the 11 independently varied "slots" of a power_levels content
#[derive(Clone, Copy, PartialEq, Debug)]
enum Slot {
    Scalar(usize),
    Event,
    Notification,
    UserOther,
    UserSelf,
}

fn slots() -> Vec<Slot> {
    let mut s: Vec<Slot> = (0..7).map(Slot::Scalar).collect();
    s.extend([Slot::Event, Slot::Notification, Slot::UserOther, Slot::UserSelf]);
    s
}

fn set_slot(pl: Pl, slot: Slot, v: Option<Value>) -> Pl {
    match slot {
        Slot::Scalar(i) => pl.field(PL_SCALARS[i], v),
        Slot::Event => pl.event("m.room.name", v),
        Slot::Notification => pl.notification("room", v),
        Slot::UserOther => pl.user(TARGET, v),
        Slot::UserSelf => pl.user(SENDER, v),
    }
}

fn fam_power_levels(tier: Tier, v: u8, f: &mut dyn FnMut(Case)) {
    // The sender has level 50 through users_default = 50 unless the slot under test is the
    // sender's own entry or users_default itself (then through the other mechanism).
    let base = |slot: Slot| -> Pl {
        let mut pl = Pl::default().user(CREATOR, Some(json!(100))).event("m.room.power_levels", Some(json!(50)));
        match slot {
            Slot::Scalar(0) => pl = pl.user(SENDER, Some(json!(50))),
            Slot::UserSelf => pl = pl.field("users_default", Some(json!(50))),
            _ => pl = pl.user(SENDER, Some(json!(50))),
        }
        pl
    };
    let mk_room = |old: &Pl| {
        let mut room = Room::new(v);
        room.join_rule(Some(&json!("public"))).member(SENDER, Some("join")).member(TARGET, Some("join"));
        room.pl(Some(old));
        room
    };
    let pl_event = |new: &Pl| ev("$new:s1", SENDER, "m.room.power_levels", Some(""), new.to_value());

    // (a) single-slot variation: (old, new) in {absent, 49, 50, 51}^2
    for slot in slots() {
        for old in REL4 {
            for new in REL4 {
                let mut old_pl = base(slot);
                let mut new_pl = base(slot);
                // for UserSelf with an explicit entry the sender's level comes from the entry
                old_pl = set_slot(old_pl, slot, old.map(|n| json!(n)));
                new_pl = set_slot(new_pl, slot, new.map(|n| json!(n)));
                if slot == Slot::Scalar(0) {
                    // users_default varies; sender keeps an explicit entry of 50
                }
                let room = mk_room(&old_pl);
                finish(v, "power-levels", pl_event(&new_pl), &room, f);
            }
        }
    }
    // (a') the same single-slot variation with the sender at level 40 (users entry), so that the
    // defaults 50 of ban/kick/redact/state_default lie above the sender (reaches the zone where an
    // absent field is compared through its default)
    for slot in slots() {
        if matches!(slot, Slot::UserSelf | Slot::Scalar(0)) {
            continue;
        }
        for old in [None, Some(39), Some(40), Some(41), Some(50)] {
            for new in [None, Some(39), Some(40), Some(41), Some(50)] {
                let b = Pl::default().user(CREATOR, Some(json!(100))).event("m.room.power_levels", Some(json!(40))).user(SENDER, Some(json!(40)));
                let old_pl = set_slot(b.clone(), slot, old.map(|n| json!(n)));
                let new_pl = set_slot(b, slot, new.map(|n| json!(n)));
                let room = mk_room(&old_pl);
                finish(v, "power-levels", pl_event(&new_pl), &room, f);
            }
        }
    }
    // (b) pairs of slots: {unchanged, legal change, illegal change, removal, addition} each
    let changes: [(Option<i64>, Option<i64>); 6] = [
        (Some(40), Some(40)),
        (Some(40), Some(45)),
        (Some(40), Some(60)),
        (Some(40), None),
        (None, Some(45)),
        (Some(60), Some(40)),
    ];
    let all = slots();
    for (i, a) in all.iter().enumerate() {
        for b in all.iter().skip(i + 1) {
            if matches!((a, b), (Slot::Scalar(0), Slot::UserSelf)) {
                continue;
            }
            for ca in changes {
                for cb in changes {
                    let mut old_pl = base(*a);
                    let mut new_pl = base(*a);
                    if *b == Slot::UserSelf || *a == Slot::UserSelf {
                        // the sender's own entry is under test: level comes from it, use 50-based changes
                    }
                    old_pl = set_slot(set_slot(old_pl, *a, ca.0.map(|n| json!(n))), *b, cb.0.map(|n| json!(n)));
                    new_pl = set_slot(set_slot(new_pl, *a, ca.1.map(|n| json!(n))), *b, cb.1.map(|n| json!(n)));
                    let room = mk_room(&old_pl);
                    finish(v, "power-levels", pl_event(&new_pl), &room, f);
                }
            }
        }
    }
    // (c) encodings of the new content, per slot; with and without a previous power_levels event
    for slot in slots() {
        for (k, val) in new_encodings(50).into_iter().enumerate() {
            for has_prev in [true, false] {
                if !tier.is_thorough() && k >= 6 && !has_prev {
                    continue;
                }
                let old_pl = base(slot);
                let new_pl = set_slot(base(slot), slot, Some(val.clone()));
                let mut room = mk_room(&old_pl);
                if !has_prev {
                    room.state.remove(&("m.room.power_levels".to_owned(), String::new()));
                    // without power levels only the creator may send state
                    let mut e = pl_event(&new_pl);
                    e.sender = CREATOR.to_owned();
                    room.member(CREATOR, Some("join"));
                    finish(v, "power-levels", e, &room, f);
                } else {
                    finish(v, "power-levels", pl_event(&new_pl), &room, f);
                }
            }
        }
    }
    // (d) shapes: users / events / notifications not objects, malformed user keys
    for (field, val) in [
        ("users", json!([])),
        ("users", json!("x")),
        ("users", json!({"not-a-user": 1})),
        ("users", json!({"@ok:s1": 1, "nouser": 1})),
        ("users", json!({"@t:s1": "50"})),
        ("users", json!({"@t:s1": " 50 "})),
        ("users", json!({"@t:s1": 1.5})),
        ("events", json!([])),
        ("events", json!("x")),
        ("events", json!({"m.room.name": "50"})),
        ("events", json!({"m.room.name": 1.5})),
        ("notifications", json!([])),
        ("notifications", json!({"room": "50"})),
        ("notifications", json!({"room": []})),
    ] {
        for has_prev in [true, false] {
            let old_pl = base(Slot::Event);
            let mut newv = base(Slot::Event).to_value();
            if field == "users" {
                // keep sender + creator entries unless the whole value is replaced by a non-object
                if let (Value::Object(extra), Some(Value::Object(u))) = (&val, newv.get_mut("users")) {
                    for (k, x) in extra {
                        u.insert(k.clone(), x.clone());
                    }
                } else {
                    newv["users"] = val.clone();
                }
            } else {
                newv[field] = val.clone();
            }
            let mut room = mk_room(&old_pl);
            let mut e = ev("$new:s1", SENDER, "m.room.power_levels", Some(""), newv);
            if !has_prev {
                room.state.remove(&("m.room.power_levels".to_owned(), String::new()));
                e.sender = CREATOR.to_owned();
                room.member(CREATOR, Some("join"));
            }
            finish(v, "power-levels", e, &room, f);
        }
    }
    // (e) string-encoded current levels (allowed before v10)
    for slot in slots() {
        for (old, new) in [(49, 50), (50, 51), (51, 50), (50, 50)] {
            let old_pl = set_slot(base(slot), slot, Some(json!(old.to_string())));
            let new_pl = set_slot(base(slot), slot, Some(json!(new)));
            let room = mk_room(&old_pl);
            finish(v, "power-levels", pl_event(&new_pl), &room, f);
        }
    }
    // (f) removing / adding whole maps
    for (drop_users, drop_events, drop_notifications) in [(true, false, false), (false, true, false), (false, false, true), (true, true, true)] {
        for high in [40, 60] {
            let old_pl = base(Slot::Event).event("m.room.name", Some(json!(high))).notification("room", Some(json!(high))).user(TARGET, Some(json!(high)));
            let mut new_pl = old_pl.clone();
            if drop_users {
                new_pl.users = None;
            }
            if drop_events {
                new_pl.events = None;
            }
            if drop_notifications {
                new_pl.notifications = None;
            }
            for swap in [false, true] {
                let (o, n) = if swap { (&new_pl, &old_pl) } else { (&old_pl, &new_pl) };
                let room = mk_room(o);
                finish(v, "power-levels", pl_event(n), &room, f);
            }
        }
    }
}

// ---------------------------------------------------------------------------------------

fn fam_generic(tier: Tier, v: u8, f: &mut dyn FnMut(Case)) {
    let types: &[(&str, Option<&str>)] = &[
        ("m.room.message", None),
        ("m.room.name", Some("")),
        ("m.room.topic", Some("")),
        ("x.custom", None),
        ("x.custom.state", Some("k")),
        ("m.room.third_party_invite", Some("tok")),
        ("m.room.redaction", None),
        ("m.room.aliases", Some("s1")),
        ("m.room.join_rules", Some("")),
    ];
    let encs: &[Enc] = if tier.is_thorough() { &[Enc::Int, Enc::Str] } else { &[Enc::Int] };
    for (ty, sk) in types {
        for sp in SENDER_PL {
            for sender_m in CUR {
                for &e in encs {
                    for ev_level in REL4 {
                        for state_default in REL4 {
                            for events_default in REL4 {
                                for invite in [None, Some(51)] {
                                    let no_pl = sp as u8 >= SenderPl::AbsentCreator as u8;
                                    if no_pl && (ev_level.is_some() || state_default.is_some() || events_default.is_some() || invite.is_some() || e == Enc::Str) {
                                        continue;
                                    }
                                    if invite.is_some() && *ty != "m.room.third_party_invite" {
                                        continue;
                                    }
                                    let sender = sender_for(sp);
                                    let mut room = Room::new(v);
                                    room.join_rule(Some(&json!("public"))).member(sender, sender_m);
                                    if let Some(mut pl) = base_pl(sp, e) {
                                        pl = pl
                                            .event(ty, ev_level.map(|n| enc(e, n)))
                                            .field("state_default", state_default.map(|n| enc(e, n)))
                                            .field("events_default", events_default.map(|n| enc(e, n)))
                                            .field("invite", invite.map(|n| enc(e, n)))
                                            .field("redact", Some(enc(e, 10)));
                                        room.pl(Some(&pl));
                                    }
                                    let mut new = ev("$new:s1", sender, ty, *sk, json!({"k": "v"}));
                                    if *ty == "m.room.redaction" {
                                        new.redacts = Some("$victim:s1".to_owned());
                                    }
                                    finish(v, "generic", new, &room, f);
                                }
                            }
                        }
                    }
                }
            }
        }
    }
    // state_key naming users
    for state_key in [Some(SENDER), Some(TARGET), Some("@"), Some("@x"), Some("x@"), Some(""), None] {
        for ty in ["x.custom", "m.room.name", "m.room.power_levels_not"] {
            let mut room = Room::new(v);
            room.join_rule(Some(&json!("public"))).member(SENDER, Some("join"));
            room.pl(Some(&Pl::default().user(SENDER, Some(json!(100)))));
            finish(v, "generic", ev("$new:s1", SENDER, ty, state_key, json!({})), &room, f);
        }
    }
}

fn fam_special(v: u8, f: &mut dyn FnMut(Case)) {
    // aliases (special-cased in v1-5)
    for state_key in [Some("s1"), Some("s2"), Some(""), None, Some("s1:8448")] {
        for sender in [SENDER, "@s:s2", "@s:s1:8448"] {
            for sender_m in [Some("join"), None, Some("ban")] {
                for level in [0, 100] {
                    let mut room = Room::new(v);
                    room.join_rule(Some(&json!("public"))).member(sender, sender_m);
                    room.pl(Some(&Pl::default().user(sender, Some(json!(level))).user(CREATOR, Some(json!(100)))));
                    finish(v, "special", ev("$new:s1", sender, "m.room.aliases", state_key, json!({"aliases": []})), &room, f);
                }
            }
        }
    }
    // redaction (special-cased in v1-2)
    for redact in REL4 {
        for (event_id, redacts) in [
            ("$new:s1", Some("$victim:s1")),
            ("$new:s1", Some("$victim:s2")),
            ("$new:s2", Some("$victim:s1")),
            ("$new:s1:8448", Some("$victim:s1")),
            ("$new:s1", None),
        ] {
            for sender_m in [Some("join"), Some("leave")] {
                for events_default in [None, Some(51)] {
                    let mut room = Room::new(v);
                    room.join_rule(Some(&json!("public"))).member(SENDER, sender_m);
                    let pl = Pl::default()
                        .user(SENDER, Some(json!(50)))
                        .user(CREATOR, Some(json!(100)))
                        .field("redact", redact.map(|n| json!(n)))
                        .field("events_default", events_default.map(|n| json!(n)));
                    room.pl(Some(&pl));
                    let mut e = ev(event_id, SENDER, "m.room.redaction", None, json!({"reason": "x"}));
                    e.redacts = redacts.map(str::to_owned);
                    finish(v, "special", e, &room, f);
                }
            }
        }
    }
}

//! Third-party-invite family: `m.room.member` invites carrying `third_party_invite.signed`,
//! signed with fixed Ed25519 keys (deterministic seeds, no RNG).

use ruma_common::{serde::Base64, CanonicalJsonObject, CanonicalJsonValue};
use ruma_signatures::{sign_json, Ed25519KeyPair};
use serde_json::{json, Value};

use crate::{cases::Case, pdu::Ev, world::*};

/// PKCS#8 v1 document for an Ed25519 private key seed.
pub fn pkcs8_v1(seed: [u8; 32]) -> Vec<u8> {
    let mut d = vec![0x30, 0x2e, 0x02, 0x01, 0x00, 0x30, 0x05, 0x06, 0x03, 0x2b, 0x65, 0x70, 0x04, 0x22, 0x04, 0x20];
    d.extend_from_slice(&seed);
    d
}

pub fn keypair(n: u8) -> Ed25519KeyPair {
    let mut seed = [n; 32];
    seed[0] = 0x42;
    Ed25519KeyPair::from_der(&pkcs8_v1(seed), "1".to_owned()).expect("fixed key pair")
}

fn public_key_b64(kp: &Ed25519KeyPair) -> String {
    Base64::<ruma_common::serde::base64::Standard, _>::new(kp.public_key().to_vec()).encode()
}

fn signed_object(kp: &Ed25519KeyPair, mxid: Option<&str>, token: Option<Value>) -> Value {
    let mut obj = CanonicalJsonObject::new();
    if let Some(m) = mxid {
        obj.insert("mxid".into(), CanonicalJsonValue::String(m.to_owned()));
    }
    if let Some(t) = token {
        obj.insert("token".into(), CanonicalJsonValue::try_from(t).unwrap());
    }
    sign_json("idserver", kp, &mut obj).expect("sign");
    serde_json::to_value(&obj).unwrap()
}

pub const N_SHAPES: usize = 20;

pub fn fam_invite_tpi(v: u8, f: &mut dyn FnMut(Case)) {
    let kp1 = keypair(1);
    let kp2 = keypair(2);
    let cur = [None, Some("join"), Some("invite"), Some("leave"), Some("ban"), Some("knock")];
    for shape in 0..N_SHAPES {
        for target_m in cur {
            for sender_m in [Some("join"), None] {
                for invite_level in [0, 60] {
                  // a user redeeming a third-party invite addressed to themself: sender == state_key
                  for self_invite in [false, true] {
                    if self_invite && (sender_m.is_none() || invite_level == 60) {
                        continue;
                    }
                    let target: &str = if self_invite { SENDER } else { TARGET };
                    let mut room = Room::new(v);
                    room.join_rule(Some(&json!("invite")));
                    if self_invite {
                        room.member(SENDER, target_m);
                    } else {
                        room.member(SENDER, sender_m).member(target, target_m);
                    }
                    room.pl(Some(&Pl::default().user(SENDER, Some(json!(50))).user(CREATOR, Some(json!(100))).field("invite", Some(json!(invite_level)))));
                    let mut valid = false;
                    let mut signed = signed_object(&kp1, Some(target), Some(json!("tok")));
                    let mut tpi_state_sender = SENDER;
                    let mut tpi_state_key = "tok";
                    let mut tpi_content = json!({"display_name": "x", "key_validity_url": "https://x", "public_key": public_key_b64(&kp1)});
                    let mut tpi: Value;
                    match shape {
                        0 => valid = true,
                        1 => {
                            valid = true;
                            tpi_content = json!({"display_name": "x", "key_validity_url": "https://x", "public_key": public_key_b64(&kp2),
                                "public_keys": [{"public_key": public_key_b64(&kp2)}, {"public_key": public_key_b64(&kp1)}]});
                        }
                        2 => {
                            // content altered after signing
                            signed["extra"] = json!("tampered");
                        }
                        3 => {
                            tpi_content["public_key"] = json!(public_key_b64(&kp2));
                        }
                        4 | 5 | 6 | 7 | 15 => {}
                        8 => tpi_state_key = "other-token",
                        9 => tpi_state_sender = CREATOR,
                        10 => {
                            signed.as_object_mut().unwrap().remove("signatures");
                        }
                        11 => {
                            signed["signatures"] = json!({"idserver": "not an object"});
                        }
                        14 => {
                            tpi_content["public_key"] = json!("***not base64***");
                        }
                        17 => {
                            // the signing key only in `public_key`, the list holds another key
                            valid = true;
                            tpi_content["public_keys"] = json!([{"public_key": public_key_b64(&kp2)}]);
                        }
                        18 => {
                            // the signing key only in the list, `public_key` is another key
                            valid = true;
                            tpi_content["public_key"] = json!(public_key_b64(&kp2));
                            tpi_content["public_keys"] = json!([{"public_key": public_key_b64(&kp1), "key_validity_url": "https://x"}]);
                        }
                        19 => {
                            valid = true;
                            tpi_content["public_keys"] = json!([]);
                        }
                        16 => {
                            // valid signature plus an unrelated invalid one first
                            valid = true;
                            signed["signatures"]["aaa"] = json!({"ed25519:0": "AAAA"});
                        }
                        _ => {}
                    }
                    tpi = json!({"display_name": "x", "signed": signed});
                    match shape {
                        4 => tpi = json!({"display_name": "x"}),
                        5 => tpi["signed"] = signed_object(&kp1, Some(target), None),
                        6 => tpi["signed"] = signed_object(&kp1, None, Some(json!("tok"))),
                        7 => tpi["signed"] = signed_object(&kp1, Some(BYSTANDER), Some(json!("tok"))),
                        12 => tpi = json!("a string"),
                        13 => tpi = Value::Null,
                        15 => tpi["signed"] = signed_object(&kp1, Some(target), Some(json!(5))),
                        _ => {}
                    }
                    room.put(ev("$tpi:s1", tpi_state_sender, "m.room.third_party_invite", Some(tpi_state_key), tpi_content));
                    let mut e: Ev = ev("$new:s1", SENDER, "m.room.member", Some(target), json!({"membership": "invite", "third_party_invite": tpi}));
                    fill_auth_events(v, &mut e, &room.state);
                    e.prev_events = vec!["$prev:s1".to_owned()];
                    f(Case { v, family: "member-invite-tpi", ev: e, state: room.state.clone(), tpi_sig_valid: valid });
                  }
                }
            }
        }
    }
}

//! Reference model of the Matrix authorization rules for room versions 1..=11
//! (DESIGN.md Appendix A.3), written from the specification text over plain JSON data.
//! Three-valued: `Allow` / `Reject` / `Unspecified` (zones fixed in DESIGN §1.3).

use serde_json::Value;

use crate::pdu::{Ev, RefState};

#[derive(Clone, Copy, Debug, PartialEq, Eq)]
pub enum Verdict {
    Allow,
    Reject(&'static str),
    Unspecified(&'static str),
}

impl Verdict {
    pub fn label(&self) -> &'static str {
        match self {
            Verdict::Allow => "allow",
            Verdict::Reject(_) => "reject",
            Verdict::Unspecified(_) => "unspecified",
        }
    }
}

use Verdict::*;

/// Early-return helper: `Err(verdict)` ends the decision.
type Step<T> = Result<T, Verdict>;

pub fn server_of(id: &str) -> Option<&str> {
    id.find(':').map(|i| &id[i + 1..])
}

/// A level value as the rules of version `v` read it.
#[derive(Clone, Copy, Debug, PartialEq, Eq)]
pub enum Lvl {
    Absent,
    Int(i64),
    /// present, and definitely not acceptable in this version
    Bad,
    /// present, spec silent on how to read it in this version
    Unclear,
}

const JS_MAX: i64 = 9_007_199_254_740_991;

pub fn read_level(v: u8, val: Option<&Value>) -> Lvl {
    match val {
        None => Lvl::Absent,
        Some(Value::Number(n)) => match n.as_i64() {
            Some(i) if (-JS_MAX..=JS_MAX).contains(&i) && !n.is_f64() => Lvl::Int(i),
            _ => {
                if v >= 10 {
                    Lvl::Bad
                } else {
                    Lvl::Unclear
                }
            }
        },
        Some(Value::String(s)) => {
            if v >= 10 {
                Lvl::Bad
            } else {
                // a plain decimal string is "a string that is an integer"; anything fancier
                // (whitespace, plus sign) is what Python's int() takes but the spec text does
                // not spell out
                let digits = s.strip_prefix('-').unwrap_or(s);
                if !digits.is_empty() && digits.len() <= 15 && digits.bytes().all(|b| b.is_ascii_digit()) {
                    Lvl::Int(s.parse().unwrap())
                } else {
                    Lvl::Unclear
                }
            }
        }
        Some(_) => {
            if v >= 10 {
                Lvl::Bad
            } else {
                Lvl::Unclear
            }
        }
    }
}

pub const INT_FIELDS: [(&str, i64); 7] = [
    ("users_default", 0),
    ("events_default", 0),
    ("state_default", 50),
    ("ban", 50),
    ("redact", 50),
    ("kick", 50),
    ("invite", 0),
];

/// Parsed view of a power_levels content.
#[derive(Clone, Debug, Default)]
pub struct PlView {
    pub fields: Vec<(&'static str, Lvl)>,
    pub events: Option<Vec<(String, Lvl)>>,
    pub events_shape_bad: bool,
    pub notifications: Option<Vec<(String, Lvl)>>,
    pub notifications_shape_bad: bool,
    pub users: Option<Vec<(String, Lvl)>>,
    pub users_shape_bad: bool,
}

fn read_map(v: u8, val: Option<&Value>) -> (Option<Vec<(String, Lvl)>>, bool) {
    match val {
        None => (None, false),
        Some(Value::Object(m)) => {
            (Some(m.iter().map(|(k, x)| (k.clone(), read_level(v, Some(x)))).collect()), false)
        }
        Some(_) => (None, true),
    }
}

pub fn pl_view(v: u8, content: &Value) -> PlView {
    let fields = INT_FIELDS.iter().map(|(f, _)| (*f, read_level(v, content.get(*f)))).collect();
    let (events, events_shape_bad) = read_map(v, content.get("events"));
    let (notifications, notifications_shape_bad) = read_map(v, content.get("notifications"));
    let (users, users_shape_bad) = read_map(v, content.get("users"));
    PlView {
        fields,
        events,
        events_shape_bad,
        notifications,
        notifications_shape_bad,
        users,
        users_shape_bad,
    }
}

impl PlView {
    /// Is every value this view holds a clean integer (or absent)?
    fn wellformed(&self) -> bool {
        let ok = |l: &Lvl| matches!(l, Lvl::Absent | Lvl::Int(_));
        self.fields.iter().all(|(_, l)| ok(l))
            && !self.events_shape_bad
            && !self.notifications_shape_bad
            && !self.users_shape_bad
            && self.events.iter().flatten().all(|(_, l)| ok(l))
            && self.notifications.iter().flatten().all(|(_, l)| ok(l))
            && self.users.iter().flatten().all(|(k, l)| ok(l) && valid_user_id(k))
    }
    fn field(&self, name: &str) -> Option<i64> {
        self.fields.iter().find(|(f, _)| *f == name).and_then(|(_, l)| match l {
            Lvl::Int(i) => Some(*i),
            _ => None,
        })
    }
    fn field_or_default(&self, name: &str) -> i64 {
        self.field(name).unwrap_or_else(|| INT_FIELDS.iter().find(|(f, _)| *f == name).unwrap().1)
    }
    fn map_get(m: &Option<Vec<(String, Lvl)>>, k: &str) -> Option<i64> {
        m.iter().flatten().find(|(kk, _)| kk == k).and_then(|(_, l)| match l {
            Lvl::Int(i) => Some(*i),
            _ => None,
        })
    }
}

/// Minimal user-id validity as far as the rules need it (sigil, colon, non-empty server).
pub fn valid_user_id(s: &str) -> bool {
    s.starts_with('@')
        && s.len() <= 255
        && match s.find(':') {
            Some(i) => i + 1 < s.len(),
            None => false,
        }
}

pub struct Ctx<'a> {
    pub v: u8,
    pub ev: &'a Ev,
    pub state: &'a RefState,
    /// Harness knowledge: does some signature in `third_party_invite.signed` verify against
    /// some public key of the matching m.room.third_party_invite state event? (The reference
    /// does not re-implement Ed25519; the case builder knows what it signed.)
    pub tpi_signature_valid: bool,
}

impl Ctx<'_> {
    fn get(&self, ty: &str, key: &str) -> Option<&Ev> {
        self.state.get(&(ty.to_owned(), key.to_owned()))
    }

    /// current power levels (None = no event); Err(Unspecified) if the event in state is malformed
    fn current_pl(&self) -> Step<Option<PlView>> {
        match self.get("m.room.power_levels", "") {
            None => Ok(None),
            Some(e) => {
                let c = e.content_value();
                if !c.is_object() {
                    return Err(Unspecified("malformed current power_levels"));
                }
                let p = pl_view(self.v, &c);
                if !p.wellformed() {
                    return Err(Unspecified("malformed current power_levels"));
                }
                Ok(Some(p))
            }
        }
    }

    fn create(&self) -> Step<&Ev> {
        self.get("m.room.create", "").ok_or(Reject("no create event"))
    }

    fn creator(&self) -> Step<String> {
        let create = self.create()?;
        if self.v >= 11 {
            Ok(create.sender.clone())
        } else {
            match create.content_value().get("creator") {
                Some(Value::String(s)) if valid_user_id(s) => Ok(s.clone()),
                _ => Err(Unspecified("malformed current create event (creator)")),
            }
        }
    }

    fn user_level(&self, pl: &Option<PlView>, user: &str) -> Step<i64> {
        match pl {
            Some(p) => Ok(PlView::map_get(&p.users, user).unwrap_or_else(|| p.field_or_default("users_default"))),
            None => {
                let creator = self.creator()?;
                Ok(if creator == user { 100 } else { 0 })
            }
        }
    }

    fn level_of(&self, pl: &Option<PlView>, field: &str) -> i64 {
        match pl {
            Some(p) => p.field_or_default(field),
            None => INT_FIELDS.iter().find(|(f, _)| *f == field).unwrap().1,
        }
    }

    /// membership of a user in the current state: "leave" when there is no event
    fn membership(&self, user: &str) -> Step<String> {
        match self.get("m.room.member", user) {
            None => Ok("leave".to_owned()),
            Some(e) => match e.content_value().get("membership") {
                Some(Value::String(s)) => Ok(s.clone()),
                _ => Err(Unspecified("malformed member event in state")),
            },
        }
    }

    fn join_rule(&self) -> Step<String> {
        match self.get("m.room.join_rules", "") {
            None => Err(Unspecified("no join_rules event in state")),
            Some(e) => match e.content_value().get("join_rule") {
                Some(Value::String(s)) => Ok(s.clone()),
                _ => Err(Unspecified("malformed join_rules event in state")),
            },
        }
    }
}

pub fn authorize(ctx: &Ctx<'_>) -> Verdict {
    match authorize_inner(ctx) {
        Ok(v) | Err(v) => v,
    }
}

fn authorize_inner(ctx: &Ctx<'_>) -> Step<Verdict> {
    let v = ctx.v;
    let ev = ctx.ev;
    let content = ev.content_value();

    // 1. m.room.create
    if ev.ty == "m.room.create" {
        if !ev.prev_events.is_empty() {
            return Err(Reject("create has prev events"));
        }
        match (server_of(&ev.room_id), server_of(&ev.sender)) {
            (Some(a), Some(b)) if a == b => {}
            _ => return Err(Reject("room id server != sender server")),
        }
        if v <= 10 {
            match content.get("creator") {
                None => return Err(Reject("no creator")),
                Some(Value::String(_)) => {}
                Some(_) => return Err(Unspecified("creator present but not a string")),
            }
        }
        return Ok(Allow);
    }

    // 2. create event must be among the auth events
    let create = ctx.create()?;
    if !ev.auth_events.contains(&create.event_id) {
        return Err(Reject("create event not in auth_events"));
    }

    // 3. m.federate
    let federate = match create.content_value().get("m.federate") {
        None => true,
        Some(Value::Bool(b)) => *b,
        Some(_) => return Err(Unspecified("malformed current create event (m.federate)")),
    };
    if !federate && server_of(&ev.sender) != server_of(&create.sender) {
        return Err(Reject("not federated"));
    }

    // 4. aliases special case v1-5
    if v <= 5 && ev.ty == "m.room.aliases" {
        return match (&ev.state_key, server_of(&ev.sender)) {
            (Some(k), Some(s)) if k == s => Ok(Allow),
            _ => Err(Reject("aliases state_key != sender server")),
        };
    }

    // 5. member
    if ev.ty == "m.room.member" {
        return member(ctx, &content);
    }

    // 6. sender must be joined
    if ctx.membership(&ev.sender)? != "join" {
        return Err(Reject("sender not joined"));
    }

    let pl = ctx.current_pl()?;
    let sender_level = ctx.user_level(&pl, &ev.sender)?;

    // 7. third_party_invite event
    if ev.ty == "m.room.third_party_invite" {
        return if sender_level >= ctx.level_of(&pl, "invite") {
            Ok(Allow)
        } else {
            Err(Reject("tpi event: level < invite"))
        };
    }

    // 8. required level for the type
    let required = match &pl {
        Some(p) => PlView::map_get(&p.events, &ev.ty).unwrap_or_else(|| {
            p.field_or_default(if ev.state_key.is_some() { "state_default" } else { "events_default" })
        }),
        None => {
            if ev.state_key.is_some() {
                50
            } else {
                0
            }
        }
    };
    if required > sender_level {
        return Err(Reject("required level > sender level"));
    }

    // 9. state_key naming another user
    if let Some(k) = &ev.state_key {
        if k.starts_with('@') && *k != ev.sender {
            return Err(Reject("state_key names another user"));
        }
    }

    // 10. power levels
    if ev.ty == "m.room.power_levels" {
        return power_levels(ctx, &content, &pl, sender_level);
    }

    // 11. redaction special case v1-2
    if v <= 2 && ev.ty == "m.room.redaction" {
        if sender_level >= ctx.level_of(&pl, "redact") {
            return Ok(Allow);
        }
        return match &ev.redacts {
            None => Err(Unspecified("redaction without redacts")),
            Some(r) => {
                if server_of(r).is_some() && server_of(r) == server_of(&ev.event_id) {
                    Ok(Allow)
                } else if server_of(r).is_none() || server_of(&ev.event_id).is_none() {
                    Err(Unspecified("event id without domain in v1-2"))
                } else {
                    Err(Reject("redaction: level < redact and different domain"))
                }
            }
        };
    }

    Ok(Allow)
}

fn member(ctx: &Ctx<'_>, content: &Value) -> Step<Verdict> {
    let v = ctx.v;
    let ev = ctx.ev;
    let Some(target) = ev.state_key.as_deref() else {
        return Err(Reject("member without state_key"));
    };
    if !valid_user_id(target) {
        return Err(Unspecified("member state_key is not a user id"));
    }
    let membership = match content.get("membership") {
        None => return Err(Reject("member without membership")),
        Some(Value::String(s)) => s.as_str(),
        Some(_) => return Err(Unspecified("membership not a string")),
    };
    let create = ctx.create()?;

    match membership {
        "join" => {
            let creator = ctx.creator()?;
            if ev.prev_events.len() == 1 && ev.prev_events[0] == create.event_id && target == creator {
                return Ok(Allow);
            }
            if ev.sender != target {
                return Err(Reject("join: sender != target"));
            }
            let cur = ctx.membership(target)?;
            if cur == "ban" {
                return Err(Reject("join: banned"));
            }
            let jr = ctx.join_rule()?;
            if (jr == "invite" || (v >= 7 && jr == "knock")) && (cur == "invite" || cur == "join") {
                return Ok(Allow);
            }
            if (v >= 8 && jr == "restricted") || (v >= 10 && jr == "knock_restricted") {
                if cur == "join" || cur == "invite" {
                    return Ok(Allow);
                }
                let via = match content.get("join_authorised_via_users_server") {
                    None => return Err(Reject("restricted join without authorising user")),
                    Some(Value::String(s)) if valid_user_id(s) => s.as_str(),
                    Some(Value::Null) => return Err(Unspecified("authorising user null")),
                    Some(_) => return Err(Reject("authorising user is not a user id")),
                };
                if ctx.membership(via)? != "join" {
                    return Err(Reject("authorising user not joined"));
                }
                let pl = ctx.current_pl()?;
                return if ctx.user_level(&pl, via)? >= ctx.level_of(&pl, "invite") {
                    Ok(Allow)
                } else {
                    Err(Reject("authorising user lacks invite power"))
                };
            }
            if jr == "public" {
                Ok(Allow)
            } else {
                Err(Reject("join: join rule does not allow"))
            }
        }
        "invite" => {
            match content.get("third_party_invite") {
                None => {}
                Some(Value::Null) => return Err(Unspecified("third_party_invite null")),
                Some(tpi) => {
                    if ctx.membership(target)? == "ban" {
                        return Err(Reject("tpi: target banned"));
                    }
                    let Some(signed) = tpi.get("signed") else {
                        return Err(Reject("tpi: no signed"));
                    };
                    let (Some(mxid), Some(token)) = (
                        signed.get("mxid").and_then(Value::as_str),
                        signed.get("token").and_then(Value::as_str),
                    ) else {
                        return Err(Reject("tpi: no mxid/token"));
                    };
                    if mxid != target {
                        return Err(Reject("tpi: mxid != target"));
                    }
                    let Some(tpi_ev) = ctx.get("m.room.third_party_invite", token) else {
                        return Err(Reject("tpi: no matching state event"));
                    };
                    if tpi_ev.sender != ev.sender {
                        return Err(Reject("tpi: sender mismatch"));
                    }
                    return if ctx.tpi_signature_valid {
                        Ok(Allow)
                    } else {
                        Err(Reject("tpi: no valid signature"))
                    };
                }
            }
            if ctx.membership(&ev.sender)? != "join" {
                return Err(Reject("invite: sender not joined"));
            }
            let cur = ctx.membership(target)?;
            if cur == "join" || cur == "ban" {
                return Err(Reject("invite: target joined or banned"));
            }
            let pl = ctx.current_pl()?;
            if ctx.user_level(&pl, &ev.sender)? >= ctx.level_of(&pl, "invite") {
                Ok(Allow)
            } else {
                Err(Reject("invite: level < invite"))
            }
        }
        "leave" => {
            let sender_m = ctx.membership(&ev.sender)?;
            if ev.sender == target {
                return if sender_m == "invite" || sender_m == "join" || (v >= 7 && sender_m == "knock") {
                    Ok(Allow)
                } else {
                    Err(Reject("leave: not invited/joined/knocking"))
                };
            }
            if sender_m != "join" {
                return Err(Reject("kick: sender not joined"));
            }
            let pl = ctx.current_pl()?;
            let sender_level = ctx.user_level(&pl, &ev.sender)?;
            if ctx.membership(target)? == "ban" && sender_level < ctx.level_of(&pl, "ban") {
                return Err(Reject("unban: level < ban"));
            }
            if sender_level >= ctx.level_of(&pl, "kick") && ctx.user_level(&pl, target)? < sender_level {
                Ok(Allow)
            } else {
                Err(Reject("kick: not enough power"))
            }
        }
        "ban" => {
            if ctx.membership(&ev.sender)? != "join" {
                return Err(Reject("ban: sender not joined"));
            }
            let pl = ctx.current_pl()?;
            let sender_level = ctx.user_level(&pl, &ev.sender)?;
            if sender_level >= ctx.level_of(&pl, "ban") && ctx.user_level(&pl, target)? < sender_level {
                Ok(Allow)
            } else {
                Err(Reject("ban: not enough power"))
            }
        }
        "knock" if v >= 7 => {
            let jr = ctx.join_rule()?;
            if !(jr == "knock" || (v >= 10 && jr == "knock_restricted")) {
                return Err(Reject("knock: join rule does not allow"));
            }
            if ev.sender != target {
                return Err(Reject("knock: sender != target"));
            }
            let cur = ctx.membership(&ev.sender)?;
            if cur != "ban" && cur != "invite" && cur != "join" {
                Ok(Allow)
            } else {
                Err(Reject("knock: banned/invited/joined"))
            }
        }
        _ => Err(Reject("unknown membership")),
    }
}

fn power_levels(
    ctx: &Ctx<'_>,
    content: &Value,
    current: &Option<PlView>,
    sender_level: i64,
) -> Step<Verdict> {
    let v = ctx.v;
    let new = pl_view(v, content);

    // validation of the new content
    for (_, l) in &new.fields {
        match l {
            Lvl::Bad => return Err(Reject("pl: scalar field not an integer")),
            Lvl::Unclear => return Err(Unspecified("pl: scalar field encoding unclear before v10")),
            _ => {}
        }
    }
    for (shape_bad, map, name) in [
        (new.events_shape_bad, &new.events, "events"),
        (new.notifications_shape_bad, &new.notifications, "notifications"),
    ] {
        let _ = name;
        if shape_bad {
            return Err(if v >= 10 { Reject("pl: map not an object") } else { Unspecified("pl: map shape before v10") });
        }
        for (_, l) in map.iter().flatten() {
            match l {
                Lvl::Bad => return Err(Reject("pl: map value not an integer")),
                Lvl::Unclear => return Err(Unspecified("pl: map value encoding unclear before v10")),
                _ => {}
            }
        }
    }
    if new.users_shape_bad {
        return Err(Reject("pl: users not an object"));
    }
    for (k, l) in new.users.iter().flatten() {
        if !valid_user_id(k) {
            return Err(Reject("pl: users key not a user id"));
        }
        match l {
            Lvl::Bad => return Err(Reject("pl: users value not an integer")),
            // spec: "values that are integers (or a string that is an integer)"
            Lvl::Unclear => {
                return Err(match content["users"][k.as_str()] {
                    Value::String(_) => Unspecified("pl: users string not plainly an integer"),
                    _ => Reject("pl: users value not an integer"),
                })
            }
            _ => {}
        }
    }

    let Some(cur) = current else {
        return Ok(Allow);
    };

    // scalar fields
    for (f, default) in INT_FIELDS {
        let old = cur.field(f);
        let newv = new.field(f);
        if old == newv {
            continue;
        }
        // The value of an unspecified field is its specified default ("Defaults to 50 if
        // unspecified"), so an added or removed field is compared through that default. (An earlier
        // version of this reference left this case Unspecified because Synapse skips absent sides;
        // the spec text defines the value of an absent key, so the literal reading is used.)
        if old.unwrap_or(default) > sender_level || newv.unwrap_or(default) > sender_level {
            return Err(Reject("pl: scalar field change above sender level"));
        }
    }

    // events / notifications
    let mut maps = vec![(&cur.events, &new.events)];
    if v >= 6 {
        maps.push((&cur.notifications, &new.notifications));
    }
    for (old_m, new_m) in maps {
        let mut keys: Vec<&String> =
            old_m.iter().flatten().map(|(k, _)| k).chain(new_m.iter().flatten().map(|(k, _)| k)).collect();
        keys.sort();
        keys.dedup();
        for k in keys {
            let o = PlView::map_get(old_m, k);
            let n = PlView::map_get(new_m, k);
            if o == n {
                continue;
            }
            if o.is_some_and(|o| o > sender_level) || n.is_some_and(|n| n > sender_level) {
                return Err(Reject("pl: map entry change above sender level"));
            }
        }
    }

    // users
    let mut keys: Vec<&String> =
        cur.users.iter().flatten().map(|(k, _)| k).chain(new.users.iter().flatten().map(|(k, _)| k)).collect();
    keys.sort();
    keys.dedup();
    for k in keys {
        let o = PlView::map_get(&cur.users, k);
        let n = PlView::map_get(&new.users, k);
        if o == n {
            continue;
        }
        if *k != ctx.ev.sender && o.is_some_and(|o| o >= sender_level) {
            return Err(Reject("pl: changing user at or above sender level"));
        }
        if n.is_some_and(|n| n > sender_level) {
            return Err(Reject("pl: new user level above sender level"));
        }
    }
    Ok(Allow)
}

/// Auth-event selection (spec "auth events selection"): the set of (type, state_key) pairs.
/// `Err` = the content is malformed for the selection (ruma returns an error there).
pub fn auth_selection(v: u8, ev: &Ev) -> Result<Vec<(String, String)>, &'static str> {
    if ev.ty == "m.room.create" {
        return Ok(vec![]);
    }
    let mut out = vec![
        ("m.room.create".to_owned(), String::new()),
        ("m.room.power_levels".to_owned(), String::new()),
        ("m.room.member".to_owned(), ev.sender.clone()),
    ];
    if ev.ty == "m.room.member" {
        let Some(target) = &ev.state_key else { return Err("no state_key") };
        out.push(("m.room.member".to_owned(), target.clone()));
        let content = ev.content_value();
        let membership = match content.get("membership") {
            Some(Value::String(s)) => s.clone(),
            _ => return Err("no membership"),
        };
        if matches!(membership.as_str(), "join" | "invite" | "knock") {
            out.push(("m.room.join_rules".to_owned(), String::new()));
        }
        if membership == "invite" {
            match content.get("third_party_invite") {
                None | Some(Value::Null) => {}
                Some(tpi) => match tpi.get("signed").and_then(|s| s.get("token")).and_then(Value::as_str) {
                    Some(token) => out.push(("m.room.third_party_invite".to_owned(), token.to_owned())),
                    None => return Err("tpi without token"),
                },
            }
        }
        if membership == "join" && v >= 8 {
            match content.get("join_authorised_via_users_server") {
                None | Some(Value::Null) => {}
                Some(Value::String(s)) if valid_user_id(s) => out.push(("m.room.member".to_owned(), s.clone())),
                Some(_) => return Err("authorising user malformed"),
            }
        }
    }
    out.sort();
    out.dedup();
    Ok(out)
}

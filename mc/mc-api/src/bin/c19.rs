//! C19 — string-valued protocol enums are lossless and forward compatible.
//!
//! P-explorer (DESIGN.md §3 C19): a generic `check::<T>()` instantiated for every string enum
//! the harness lists (`src/c19_table.rs`: StringEnum derives of ruma-common, ruma-events and the
//! API crates under the harness feature set, the seven macro-generated event-type enums,
//! TagName, RoomVersionId). Inputs per type: every spec spelling (with the expected variant as
//! a `matches!` pattern), declared aliases, every single-edit mutant over `a M . _ - *` plus
//! case flips, every string of ≤ 4 symbols over those six, the empty string, wildcard prefixes
//! × 40 suffixes (thorough: ≤ 6 symbols and all double edits).

use std::{cmp::Ordering, collections::HashSet, fmt::Debug};

use engine::{catch, par_shards, parse_args, replay_and_exit, Report, Tally, Tier};
use serde::{de::DeserializeOwned, Serialize};
use serde_json::{json, Value};

/// what the generic check needs from a string enum
pub trait StrEnum: Clone + Debug + Serialize + DeserializeOwned + 'static {
    /// `PartialEq::eq` where the type has it
    fn eq(_a: &Self, _b: &Self) -> Option<bool> {
        None
    }
    /// `T::from(&str)`; `None` = the (validated) type refuses the string
    fn from_s(s: &str) -> Option<Self>;
    /// the same conversion from an owned `String` (a separate impl in most types)
    fn from_owned(s: String) -> Option<Self>;
    /// the string form (`AsRef<str>`, or `to_string` for the event-type enums)
    fn text(&self) -> String;
    fn display(&self) -> String;
    /// is this the hidden fallback variant?
    fn is_custom(&self) -> bool;
    /// `Ord::cmp` where the type has it
    fn ord(_a: &Self, _b: &Self) -> Option<Ordering> {
        None
    }
    /// for a spec spelling: does `v` match the variant the spec spelling belongs to?
    fn variant_ok(s: &str, v: &Self) -> Option<bool>;
    /// for wildcard variants: the suffix the value carries
    fn wildcard_suffix(&self) -> Option<String> {
        None
    }
}

const SYMBOLS: [&str; 6] = ["a", "M", ".", "_", "-", "*"];

pub struct Entry {
    pub name: &'static str,
    pub has_ord: bool,
    pub spellings: &'static [&'static str],
    /// (alias, canonical spelling)
    pub aliases: &'static [(&'static str, &'static str)],
    /// wildcard prefixes (`m.secret_storage.key.`)
    pub prefixes: &'static [&'static str],
    pub run: fn(&Entry, Tier, &Report, &mut Tally),
    pub replay: fn(&Entry, &Value) -> Vec<(String, String)>,
}

/// implement [`StrEnum`] for a `StringEnum` / `FromString` derive
macro_rules! se {
    ($ty:path, $name:literal, $ord:tt, $eq:tt, { $($s:literal => $v:ident),* $(,)? }, aliases { $($al:literal => $can:literal),* $(,)? }) => {{
        use $ty as T;
        impl StrEnum for T {
            fn from_s(s: &str) -> Option<Self> { Some(T::from(s)) }
            fn from_owned(s: String) -> Option<Self> { Some(T::from(s)) }
            fn text(&self) -> String { AsRef::<str>::as_ref(self).to_owned() }
            fn display(&self) -> String { self.to_string() }
            #[allow(deprecated)]
            fn is_custom(&self) -> bool { matches!(self, T::_Custom(..)) }
            se!(@ord $ord);
            se!(@eq $eq);
            #[allow(deprecated, unreachable_patterns)]
            fn variant_ok(s: &str, v: &Self) -> Option<bool> {
                match s { $($s => Some(matches!(v, T::$v)),)* _ => None }
            }
        }
        Entry {
            name: $name, has_ord: se!(@has $ord), spellings: &[$($s),*], aliases: &[$(($al, $can)),*], prefixes: &[],
            run: run::<T>, replay: replay::<T>,
        }
    }};
    (@ord ord) => { fn ord(a: &Self, b: &Self) -> Option<Ordering> { Some(Ord::cmp(a, b)) } };
    (@ord noord) => {};
    (@eq eq) => { fn eq(a: &Self, b: &Self) -> Option<bool> { Some(a == b) } };
    (@eq noeq) => {};
    (@has ord) => { true };
    (@has noord) => { false };
}

/// the macro-generated event-type enums: no `AsRef<str>`, string form = `to_string()`
macro_rules! ev {
    ($ty:path, $name:literal, { $($s:literal => $v:ident),* $(,)? }, aliases { $($al:literal => $can:literal),* $(,)? },
     wildcard { $($p:literal => $wv:ident),* $(,)? }, missing { $($ms:literal),* $(,)? }) => {{
        use $ty as T;
        impl StrEnum for T {
            fn from_s(s: &str) -> Option<Self> { Some(T::from(s)) }
            fn from_owned(s: String) -> Option<Self> { Some(T::from(s)) }
            fn text(&self) -> String { self.to_string() }
            fn display(&self) -> String { format!("{self}") }
            #[allow(deprecated)]
            fn is_custom(&self) -> bool { matches!(self, T::_Custom(..)) }
            fn ord(a: &Self, b: &Self) -> Option<Ordering> { Some(Ord::cmp(a, b)) }
            fn eq(a: &Self, b: &Self) -> Option<bool> { Some(a == b) }
            #[allow(deprecated, unreachable_patterns)]
            fn variant_ok(s: &str, v: &Self) -> Option<bool> {
                // `missing`: event types of the spec for which the tree has no variant at all
                match s { $($s => Some(matches!(v, T::$v)),)* $($ms => Some(false),)* _ => None }
            }
            #[allow(unreachable_patterns)]
            fn wildcard_suffix(&self) -> Option<String> {
                match self { $(T::$wv(s) => Some(s.clone()),)* _ => None }
            }
        }
        Entry {
            name: $name, has_ord: true, spellings: &[$($s,)* $($ms),*], aliases: &[$(($al, $can)),*], prefixes: &[$($p),*],
            run: run::<T>, replay: replay::<T>,
        }
    }};
}

include!("../c19_table.rs");

// ---------------------------------------------------------------------------------------
// inputs

#[derive(Clone, Copy, Debug, PartialEq, Eq, Hash)]
enum Class {
    Spec,
    Alias,
    CaseFlip,
    Edit,
    Edit2,
    Short,
    Empty,
    Wildcard,
    Long,
}

impl Class {
    fn as_str(self) -> &'static str {
        match self {
            Class::Spec => "spec",
            Class::Alias => "alias",
            Class::CaseFlip => "case-flip",
            Class::Edit => "single-edit",
            Class::Edit2 => "double-edit",
            Class::Short => "short",
            Class::Empty => "empty",
            Class::Wildcard => "wildcard",
            Class::Long => "long",
        }
    }
}

fn flip(c: char) -> Option<char> {
    if c.is_ascii_lowercase() {
        Some(c.to_ascii_uppercase())
    } else if c.is_ascii_uppercase() {
        Some(c.to_ascii_lowercase())
    } else {
        None
    }
}

/// every single edit of `s`: delete / insert one of the six symbols / substitute by one of the
/// six symbols at every position; (case flips separately)
fn single_edits(s: &str) -> Vec<String> {
    let chars: Vec<char> = s.chars().collect();
    let mut out = vec![];
    for i in 0..chars.len() {
        let mut d = chars.clone();
        d.remove(i);
        out.push(d.into_iter().collect());
    }
    for i in 0..=chars.len() {
        for sym in SYMBOLS {
            let mut d: String = chars[..i].iter().collect();
            d.push_str(sym);
            d.extend(&chars[i..]);
            out.push(d);
        }
    }
    for i in 0..chars.len() {
        for sym in SYMBOLS {
            if chars[i].to_string() != sym {
                let mut d: String = chars[..i].iter().collect();
                d.push_str(sym);
                d.extend(&chars[i + 1..]);
                out.push(d);
            }
        }
    }
    out
}

fn case_flips(s: &str) -> Vec<String> {
    let chars: Vec<char> = s.chars().collect();
    let mut out = vec![];
    for i in 0..chars.len() {
        if let Some(f) = flip(chars[i]) {
            let mut d = chars.clone();
            d[i] = f;
            out.push(d.into_iter().collect());
        }
    }
    // whole-string case changes: the classic "lower-cases its input" slip
    out.push(s.to_ascii_uppercase());
    out.push(s.to_ascii_lowercase());
    out
}

fn wildcard_suffixes() -> Vec<String> {
    let mut v = mc_api::strings_upto(&["a", ".", "*", "M"], 2); // 21
    v.extend(
        [
            "abc", "key", "Key", "a.b.c", "a*b", "**", ".*", "*.", "m.secret_storage.key.a", "0", "00000000", " ",
            "a b", "é", "_", "-", "a_b-c", "A", "aaaaaaaaaaaaaaaaaaaaaaaaaaaaaaaa",
        ]
        .iter()
        .map(|s| (*s).to_owned()),
    );
    v
}

fn inputs(e: &Entry, tier: Tier) -> Vec<(String, Class)> {
    let mut seen = HashSet::new();
    let mut out = vec![];
    let mut push = |s: String, c: Class, out: &mut Vec<(String, Class)>| {
        if seen.insert(s.clone()) {
            out.push((s, c));
        }
    };
    for s in e.spellings {
        push((*s).to_owned(), Class::Spec, &mut out);
    }
    for (a, _) in e.aliases {
        push((*a).to_owned(), Class::Alias, &mut out);
    }
    push(String::new(), Class::Empty, &mut out);
    for p in e.prefixes {
        for suf in wildcard_suffixes() {
            push(format!("{p}{suf}"), Class::Wildcard, &mut out);
        }
    }
    let seeds: Vec<String> =
        e.spellings.iter().map(|s| (*s).to_owned()).chain(e.aliases.iter().map(|(a, _)| (*a).to_owned())).chain(e.prefixes.iter().map(|p| (*p).to_owned())).collect();
    for s in &seeds {
        for m in case_flips(s) {
            push(m, Class::CaseFlip, &mut out);
        }
    }
    for s in &seeds {
        for m in single_edits(s) {
            push(m, Class::Edit, &mut out);
        }
    }
    for s in mc_api::strings_upto(&SYMBOLS, tier.pick(4, 6)) {
        push(s, Class::Short, &mut out);
    }
    // numeric spellings (room versions, VoIP versions): the same number written differently is a different string
    for sp in e.spellings.iter().filter(|sp| !sp.is_empty() && sp.chars().all(|c| c.is_ascii_digit())) {
        for m in [format!("0{sp}"), format!("00{sp}"), format!("+{sp}"), format!("{sp}.0"), format!(" {sp}"), format!("{sp} "), format!("{sp}e0")] {
            push(m, Class::Edit, &mut out);
        }
    }
    // lengths around the only length limit a string enum has (room versions: 32 code points), in bytes and
    // in code points, and long values
    for n in [31usize, 32, 33, 255, 256] {
        push("a".repeat(n), Class::Long, &mut out);
        push("é".repeat(n), Class::Long, &mut out);
        push(format!("{}.x", "v".repeat(n.saturating_sub(2))), Class::Long, &mut out);
    }
    if tier.is_thorough() {
        for s in &seeds {
            for m in single_edits(s) {
                for m2 in single_edits(&m) {
                    push(m2, Class::Edit2, &mut out);
                }
            }
        }
    }
    out
}

// ---------------------------------------------------------------------------------------
// oracle

/// value identity: `==` where the type has it, else string form + custom-ness
fn same<T: StrEnum>(a: &T, b: &T) -> bool {
    T::eq(a, b).unwrap_or_else(|| a.text() == b.text() && a.is_custom() == b.is_custom())
}

fn same_opt<T: StrEnum>(a: Option<&T>, b: &T) -> bool {
    a.is_some_and(|a| same(a, b))
}

/// the string a value built from `s` must show: `s`, or the canonical spelling of an alias
fn expected_text<'a>(e: &'a Entry, s: &'a str) -> &'a str {
    e.aliases.iter().find(|(a, _)| *a == s).map_or(s, |(_, c)| *c)
}

fn eval_input<T: StrEnum>(e: &Entry, s: &str, class: Class, t: &mut Tally) -> Vec<(String, String)> {
    let ty = e.name;
    let c = class.as_str();
    let mut out = vec![];
    t.transitions += 1;
    let v = match catch(|| T::from_s(s)) {
        Err(p) => return vec![(format!("panic/{}/{ty}", p.file()), format!("{ty}::from({s:?}): {}", p.text))],
        Ok(None) => {
            // only the validated types (RoomVersionId) may refuse, and never a spec spelling
            t.outcome("convert", "refused");
            if class == Class::Spec {
                out.push((format!("variant/{ty}/{s}"), format!("{ty}: spec spelling {s:?} is refused")));
            } else if !(ty == "RoomVersionId"
                && (s.is_empty() || s.chars().count() > 32 || !s.chars().all(|ch| ch.is_ascii_alphanumeric() || ch == '.' || ch == '-')))
            {
                // the grammar of a room version ID (spec, "Room versions"): 1 to 32 code points out of
                // letters, digits, `.` and `-`; nothing inside it may be refused
                out.push((format!("refused/{ty}/{c}"), format!("{ty}: {s:?} ({} code points) is refused", s.chars().count())));
            }
            return out;
        }
        Ok(Some(v)) => v,
    };
    // the owned-String entry point must give the same value
    t.transitions += 1;
    match catch(|| T::from_owned(s.to_owned())) {
        Err(p) => out.push((format!("panic/{}/{ty}", p.file()), format!("{ty}::from(String {s:?}): {}", p.text))),
        Ok(None) => out.push((format!("owned-form/{ty}/{c}"), format!("{ty}: &str {s:?} is accepted, the owned String is refused"))),
        Ok(Some(o)) => {
            if format!("{o:?}") != format!("{v:?}") || T::eq(&o, &v) == Some(false) {
                out.push((format!("owned-form/{ty}/{c}"), format!("{ty}: from(&str {s:?}) = {v:?}, from(String) = {o:?}")));
            }
        }
    }
    let exp = expected_text(e, s);
    let text = v.text();
    if text != exp {
        out.push((format!("roundtrip/{ty}/{c}"), format!("{ty}::from({s:?}) shows {text:?}, expected {exp:?}")));
    }
    t.outcome("variant", if v.is_custom() { "custom" } else { "dedicated" });
    match class {
        Class::Spec => {
            if v.is_custom() || T::variant_ok(s, &v) != Some(true) {
                out.push((
                    format!("variant/{ty}/{s}"),
                    format!("{ty}::from({s:?}) = {v:?} (custom={}) is not the dedicated variant", v.is_custom()),
                ));
            }
        }
        Class::Alias => {
            let canon = T::from_s(exp);
            if v.is_custom() || !same_opt(canon.as_ref(), &v) {
                out.push((format!("alias/{ty}/{s}"), format!("{ty}::from({s:?}) = {v:?} differs from from({exp:?}) = {canon:?}")));
            }
        }
        Class::Wildcard => {
            let p = e.prefixes.iter().find(|p| s.starts_with(**p)).copied().unwrap_or("");
            let suffix = &s[p.len()..];
            if v.is_custom() || v.wildcard_suffix().as_deref() != Some(suffix) {
                out.push((
                    format!("wildcard/{ty}/{p}"),
                    format!("{ty}::from({s:?}) = {v:?}: suffix {:?}, expected {suffix:?}", v.wildcard_suffix()),
                ));
            }
        }
        _ => {}
    }
    // idempotence
    t.transitions += 1;
    match catch(|| T::from_s(&text)) {
        Err(p) => out.push((format!("panic/{}/{ty}", p.file()), p.text)),
        Ok(again) => {
            if !same_opt(again.as_ref(), &v) || again.as_ref().map(StrEnum::text).as_deref() != Some(text.as_str()) {
                out.push((format!("idempotent/{ty}/{c}"), format!("from({s:?}) = {v:?} but from(its text {text:?}) = {again:?}")));
            }
        }
    }
    // serde agrees with the string conversion (Value path = owned string, text path = borrowed)
    t.transitions += 3;
    match catch(|| serde_json::to_value(&v)) {
        Err(p) => out.push((format!("panic/{}/{ty}", p.file()), p.text)),
        Ok(Ok(Value::String(j))) if j == exp => {}
        Ok(other) => out.push((format!("serde-ser/{ty}/{c}"), format!("{ty}::from({s:?}) serializes to {other:?}, expected {exp:?}"))),
    }
    match catch(|| serde_json::from_value::<T>(Value::String(s.to_owned()))) {
        Err(p) => out.push((format!("panic/{}/{ty}", p.file()), p.text)),
        Ok(Ok(d)) if same(&d, &v) => {}
        Ok(other) => out.push((format!("serde-de/{ty}/{c}"), format!("deserializing {s:?} gives {other:?}, from() gives {v:?}"))),
    }
    let json_text = serde_json::to_string(s).expect("string to JSON");
    match catch(|| serde_json::from_str::<T>(&json_text)) {
        Err(p) => out.push((format!("panic/{}/{ty}", p.file()), p.text)),
        Ok(Ok(d)) if same(&d, &v) => {}
        Ok(other) => out.push((format!("serde-de-str/{ty}/{c}"), format!("parsing {json_text} gives {other:?}, from() gives {v:?}"))),
    }
    // Display
    let d = v.display();
    if d != text {
        out.push((format!("display/{ty}/{c}"), format!("{ty}::from({s:?}): Display {d:?} != text {text:?}")));
    }
    out
}

/// `==` and `cmp` against the string form, pivot × input
fn eval_pair<T: StrEnum>(e: &Entry, p: &str, s: &str, t: &mut Tally) -> Vec<(String, String)> {
    let ty = e.name;
    let mut out = vec![];
    let (Some(a), Some(b)) = (T::from_s(p), T::from_s(s)) else { return out };
    let (ta, tb) = (expected_text(e, p), expected_text(e, s));
    t.transitions += 1;
    let eq = T::eq(&a, &b);
    if eq.is_some_and(|eq| eq != (ta == tb)) {
        out.push((format!("eq/{ty}"), format!("{ty}: from({p:?}) == from({s:?}) is {eq:?}, the strings {ta:?} / {tb:?} say {}", ta == tb)));
    }
    if let Some(o) = T::ord(&a, &b) {
        t.transitions += 1;
        t.outcome("cmp", match o { Ordering::Less => "less", Ordering::Equal => "equal", Ordering::Greater => "greater" });
        let so = ta.cmp(tb);
        if o != so {
            out.push((format!("ord/{ty}"), format!("{ty}: from({p:?}).cmp(from({s:?})) = {o:?}, the strings compare {so:?}")));
        }
        if eq.is_some_and(|eq| (o == Ordering::Equal) != eq) {
            out.push((format!("ord-eq/{ty}"), format!("{ty}: cmp = {o:?} but == is {eq:?} for {p:?} / {s:?}")));
        }
    }
    out
}

fn pivots(e: &Entry) -> Vec<String> {
    let mut v: Vec<String> = e.spellings.iter().map(|s| (*s).to_owned()).collect();
    v.extend(e.aliases.iter().map(|(a, _)| (*a).to_owned()));
    v.extend(e.prefixes.iter().flat_map(|p| [format!("{p}a"), format!("{p}b.c")]));
    v.extend(["", "a", "M", "m.", "~zz"].iter().map(|s| (*s).to_owned()));
    v
}

fn run<T: StrEnum>(e: &Entry, tier: Tier, report: &Report, t: &mut Tally) {
    let ins = inputs(e, tier);
    for (n, (s, class)) in ins.iter().enumerate() {
        t.states += 1;
        t.nontrivial += 1;
        for (sig, detail) in eval_input::<T>(e, s, *class, t) {
            report.violation(&sig, || detail, || json!({"type": e.name, "input": s, "class": class.as_str()}));
        }
        if n % 997 == 3 {
            t.sample(|| json!({"type": e.name, "input": s, "class": class.as_str()}));
        }
    }
    // pairs: every pivot × every input (known spellings first, so that the recorded example of
    // an ordering defect is between two spec spellings); double edits take no part
    let piv = pivots(e);
    for known_first in [true, false] {
        for p in &piv {
            for (s, class) in &ins {
                if *class == Class::Edit2 || matches!(class, Class::Spec | Class::Alias) != known_first {
                    continue;
                }
                for (sig, detail) in eval_pair::<T>(e, p, s, t) {
                    report.violation(&sig, || detail, || json!({"type": e.name, "pivot": p, "input": s}));
                }
            }
        }
    }
}

fn replay<T: StrEnum>(e: &Entry, case: &Value) -> Vec<(String, String)> {
    let mut t = Tally::new();
    let s = case["input"].as_str().unwrap_or("");
    if let Some(p) = case["pivot"].as_str() {
        return eval_pair::<T>(e, p, s, &mut t);
    }
    let class = match case["class"].as_str().unwrap_or("") {
        "spec" => Class::Spec,
        "alias" => Class::Alias,
        "case-flip" => Class::CaseFlip,
        "single-edit" => Class::Edit,
        "double-edit" => Class::Edit2,
        "short" => Class::Short,
        "wildcard" => Class::Wildcard,
        _ => Class::Empty,
    };
    eval_input::<T>(e, s, class, &mut t)
}

fn main() {
    let args = parse_args();
    let reg = registry();
    if let Some(p) = &args.replay {
        replay_and_exit("C19", p, |case| {
            let Some(e) = reg.iter().find(|e| Some(e.name) == case["type"].as_str()) else {
                engine::machinery_error("replay: unknown type")
            };
            (e.replay)(e, case)
        });
    }
    let tier = args.tier;
    let report = Report::new("C19", "model_checking", &args);
    report.set_rule(&format!(
        "{n} string enum types (StringEnum / FromString derives of ruma-common, ruma-events and the API crates under the harness \
         feature set, the 7 macro-generated event-type enums, TagName, RoomVersionId) x inputs per type: every spec spelling ({nsp} \
         in total, each with its expected variant as a matches! pattern), declared aliases, every single-character case flip and \
         whole-string upper/lower casing, every single edit (delete / insert / substitute over the 6 symbols {SYMBOLS:?}) of every \
         spelling, alias and wildcard prefix, every string of <= {len} symbols over the 6 symbols, the empty string, each wildcard \
         prefix x 40 suffixes{double}; per input: from -> text identity (alias -> canonical), dedicated variant for spec spellings, \
         idempotence, serde (Value and text) == string conversion, Display == text; pairs: every pivot (spellings, aliases, 5 \
         unknown strings) x every input: `==` == string equality, cmp == string cmp where T: Ord. state = one (type, input); \
         transition = one conversion / comparison call",
        n = reg.len(),
        nsp = reg.iter().map(|e| e.spellings.len()).sum::<usize>(),
        len = tier.pick(4, 6),
        double = tier.pick("", "; every double edit of every spelling"),
    ));
    report.assume("spelling table: hand-written from the spec for the event-type enums; for the StringEnum derives generated once from the variant names with an independent implementation of the rename rules, reviewed against the spec, frozen in src/c19_table.rs");
    report.assume("RoomVersionId is the one validated string enum: a refusal is accepted only outside the grammar of room version IDs (empty, more than 32 code points, a character other than letters / digits / `.` / `-`)");
    report.require_outcomes("variant", 2);
    report.require_outcomes("cmp", 3);
    par_shards(&report, reg.len(), |i, t| {
        let e = &reg[i];
        (e.run)(e, tier, &report, t);
    });
    report.set("types", json!(reg.iter().map(|e| e.name).collect::<Vec<_>>()));
    report.set("types_with_ord", json!(reg.iter().filter(|e| e.has_ord).count()));
    report.set("spec_spellings", json!(reg.iter().map(|e| e.spellings.len()).sum::<usize>()));
    report.finish()
}

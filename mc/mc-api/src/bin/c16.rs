//! C16 — endpoint requests / responses survive the HTTP wire format; method, authorization
//! header and path are the ones the metadata prescribes for the supported versions.
//!
//! P-explorer, four parts (DESIGN.md §3 C16):
//!  (a) synthetic endpoints declared here with ruma's own `request` / `response` / `metadata!`
//!      macros, one per field-attribute kind; every field takes every string of ≤ 3 (quick ≤ 2)
//!      symbols of `mc_api::ALPHABET`; round trip through "standard routing" (mc_api::route);
//!  (b) a fixed list of real endpoints, path parameters over the same alphabet;
//!  (c) version selection: every subset of MatrixVersion × every real endpoint history ×
//!      synthetic histories against the reference semantics below (`ref_select`);
//!  (d) Metadata::authorization_header per AuthScheme × SendAccessToken, and XMatrix.

#![allow(clippy::type_complexity)]

use std::{
    fmt::{Debug, Display},
    sync::{
        atomic::{AtomicU64, Ordering::Relaxed},
        Mutex,
    },
};

use engine::{catch, par_shards, parse_args, replay_and_exit, Report, Tally, Tier};
use mc_api::{
    cold_values, endpoints::all_endpoint_metadata, route_any, strings_upto, values_of, Msg, Slot, ALPHABET, FK,
    FV,
};
use ruma_common::{
    api::{
        error::IntoHttpError, request, response, AuthScheme, IncomingRequest, IncomingResponse,
        MatrixVersion, Metadata, OutgoingRequest, OutgoingResponse, SendAccessToken, VersionHistory,
        VersioningDecision,
    },
    metadata,
    serde::Base64,
    OwnedServerName, OwnedServerSigningKeyId,
};
use ruma_federation_api::authentication::XMatrix;
use serde::{Deserialize, Serialize};
use serde_json::{json, Value};

const BASE: &str = "https://h.example";
const VERSIONS: &[MatrixVersion] = &[MatrixVersion::V1_1];
const TOKEN: SendAccessToken<'static> = SendAccessToken::Appservice("tok");

#[derive(Clone, Debug)]
pub struct Fail {
    stage: &'static str,
    detail: String,
}

fn fail(stage: &'static str, detail: String) -> Option<Fail> {
    Some(Fail { stage, detail })
}

// ---------------------------------------------------------------------------------------
// generic round trips

/// request → http → route (+ percent-decode) → request → http; `norm` is the value identity.
fn rt_request<R, N>(req: R, tok: SendAccessToken<'_>, norm: impl Fn(&R) -> N, t: &mut Tally) -> Option<Fail>
where
    R: OutgoingRequest + IncomingRequest + Clone,
    N: PartialEq + Debug,
{
    let meta = <R as OutgoingRequest>::METADATA;
    let n0 = norm(&req);
    let req_as = req.clone();
    t.transitions += 1;
    let http1 = match catch(|| req.try_into_http_request::<Vec<u8>>(BASE, tok, VERSIONS)) {
        Err(p) => return fail("panic-encode", p.text),
        Ok(Err(_)) => {
            // "for every field content the encoder accepts": a refusal is not a violation
            t.outcome("request-encode", "rejected");
            return None;
        }
        Ok(Ok(r)) => r,
    };
    t.outcome("request-encode", "accepted");
    let m1 = Msg::of_request(&http1);
    t.outcome("path-encoding", if http1.uri().path().contains('%') { "escaped" } else { "verbatim" });
    if http1.method() != meta.method {
        return fail("method", format!("{} instead of {}", http1.method(), meta.method));
    }
    let path = http1.uri().path().to_owned();
    let Some(caps) = route_any(meta.history.all_paths(), &path) else {
        t.outcome("route", "no-match");
        return fail("route-no-match", format!("{n0:?} sent as {}", m1.show()));
    };
    t.outcome("route", "match");
    t.transitions += 1;
    let back = match catch(|| R::try_from_http_request(http1, &caps)) {
        Err(p) => return fail("panic-decode", p.text),
        Ok(Err(e)) => return fail("decode-error", format!("{n0:?} sent as {} : {e}", m1.show())),
        Ok(Ok(b)) => b,
    };
    let n1 = norm(&back);
    if n1 != n0 {
        return fail("value-changed", format!("{n0:?} sent as {} arrives as {n1:?}", m1.show()));
    }
    t.transitions += 1;
    match catch(|| back.try_into_http_request::<Vec<u8>>(BASE, tok, VERSIONS)) {
        Err(p) => fail("panic-encode", p.text),
        Ok(Err(e)) => fail("reencode-error", format!("{n0:?}: {e}")),
        Ok(Ok(r)) => {
            let m2 = Msg::of_request(&r);
            if m2 != m1 {
                fail("reencode-differs", format!("{} vs {}", m1.show(), m2.show()))
            } else {
                appservice_variant(req_as, tok, &m1, t)
            }
        }
    }
}

/// The application-service form of the same request (identity assertion): the same message with exactly
/// one query parameter `user_id=<the asserted user>` appended after the request's own query.
fn appservice_variant<R: OutgoingRequest>(req: R, tok: SendAccessToken<'_>, plain: &Msg, t: &mut Tally) -> Option<Fail> {
    use ruma_common::api::OutgoingRequestAppserviceExt;
    const AS_USER: &str = "@_as&bot=1 +x:h.example:8448";
    let user = <&ruma_common::UserId>::try_from(AS_USER).unwrap_or_else(|e| engine::machinery_error(&format!("{AS_USER}: {e}")));
    t.transitions += 1;
    let http = match catch(|| req.try_into_http_request_with_user_id::<Vec<u8>>(BASE, tok, user, VERSIONS)) {
        Err(p) => return fail("appservice/panic-encode", p.text),
        Ok(Err(e)) => return fail("appservice/encode-error", format!("plain form {} but with user_id: {e}", plain.show())),
        Ok(Ok(r)) => r,
    };
    let m = Msg::of_request(&http);
    t.outcome("appservice-variant", "encoded");
    let sep = if plain.uri.contains('?') { '&' } else { '?' };
    let ok = m.head == plain.head
        && m.headers == plain.headers
        && m.body == plain.body
        && m.uri.strip_prefix(plain.uri.as_str()).and_then(|rest| rest.strip_prefix(sep)).and_then(|q| q.strip_prefix("user_id=")).is_some_and(|v| {
            !v.contains('&') && !v.contains('#') && mc_api::percent_decode(&v.replace('+', " ")).as_deref() == Some(AS_USER)
        });
    if ok {
        None
    } else {
        fail("appservice/not-plain-plus-user_id", format!("plain {} ; with user_id {}", plain.show(), m.show()))
    }
}

fn rt_response<R, N>(resp: R, norm: impl Fn(&R) -> N, t: &mut Tally) -> Option<Fail>
where
    R: OutgoingResponse + IncomingResponse + Clone,
    N: PartialEq + Debug,
{
    let n0 = norm(&resp);
    t.transitions += 1;
    let http1 = match catch(|| resp.try_into_http_response::<Vec<u8>>()) {
        Err(p) => return fail("panic-encode", p.text),
        Ok(Err(_)) => {
            t.outcome("response-encode", "rejected");
            return None;
        }
        Ok(Ok(r)) => r,
    };
    t.outcome("response-encode", "accepted");
    let m1 = Msg::of_response(&http1);
    t.transitions += 1;
    let back = match catch(|| R::try_from_http_response(http1)) {
        Err(p) => return fail("panic-decode", p.text),
        Ok(Err(e)) => return fail("decode-error", format!("{n0:?} sent as {} : {e}", m1.show())),
        Ok(Ok(b)) => b,
    };
    let n1 = norm(&back);
    if n1 != n0 {
        return fail("value-changed", format!("{n0:?} sent as {} arrives as {n1:?}", m1.show()));
    }
    t.transitions += 1;
    match catch(|| back.try_into_http_response::<Vec<u8>>()) {
        Err(p) => fail("panic-encode", p.text),
        Ok(Err(e)) => fail("reencode-error", format!("{n0:?}: {e}")),
        Ok(Ok(r)) => {
            let m2 = Msg::of_response(&r);
            if m2 != m1 {
                fail("reencode-differs", format!("{} vs {}", m1.show(), m2.show()))
            } else {
                None
            }
        }
    }
}

// ---------------------------------------------------------------------------------------
// (a) synthetic endpoints. Field names carry the field kind: p* path, q query scalar, qo query
// Option, qv query Vec, qa / qm query_all struct / map, h / ho header required / optional,
// b / bo / bd / bv body string / Option / default+skip / Vec, nb newtype body, rb raw body.

/// struct used as `query_all` value and as newtype `body`
#[derive(Clone, Debug, PartialEq, Serialize, Deserialize)]
pub struct Two {
    pub x: String,
    #[serde(skip_serializing_if = "Option::is_none")]
    pub y: Option<String>,
}

impl Slot for Two {
    const KIND: FK = FK::List;
    fn from_fv(v: &FV) -> Self {
        match v {
            FV::L(l) => Two { x: l.first().cloned().unwrap_or_default(), y: l.get(1).cloned() },
            _ => Two { x: String::new(), y: None },
        }
    }
    fn to_fv(&self) -> FV {
        FV::L(std::iter::once(self.x.clone()).chain(self.y.clone()).collect())
    }
}

/// one enumerated endpoint (synthetic or real): field names / kinds and the round-trip evaluator
pub struct Ep {
    name: String,
    /// "syn-req" | "syn-resp" | "real"
    group: &'static str,
    names: Vec<String>,
    kinds: Vec<FK>,
    eval: Box<dyn Fn(&[FV], &mut Tally) -> Option<Fail> + Sync + Send>,
}

macro_rules! fields {
    ($ty:ident, $part:ident, { $($f:ident : $t:ty),* }) => {
        pub const NAMES: &[&str] = &[$(stringify!($f)),*];
        pub fn kinds() -> Vec<FK> { vec![$(<$t as Slot>::KIND),*] }
        #[allow(unused_assignments, unused_mut, unused_variables)]
        pub fn build(v: &[FV]) -> $ty {
            let mut i = 0;
            $( let $f = <$t as Slot>::from_fv(&v[i]); i += 1; )*
            $ty { $($f),* }
        }
        pub fn to_fv(r: &$ty) -> Vec<FV> { vec![$(r.$f.to_fv()),*] }
        pub fn ep() -> Ep {
            Ep {
                name: module_path!().to_owned(),
                group: concat!("syn-", stringify!($part)),
                names: NAMES.iter().map(|s| (*s).to_owned()).collect(),
                kinds: kinds(),
                eval: Box::new(eval),
            }
        }
    };
}

macro_rules! syn_req {
    ($m:ident, $method:ident, $auth:ident, { $($hist:tt)* }, { $( $(#[$a:meta])* $f:ident : $t:ty ),* $(,)? }) => {
        pub mod $m {
            use super::*;
            const METADATA: Metadata = metadata! {
                method: $method, rate_limited: false, authentication: $auth,
                history: { $($hist)* }
            };
            #[request]
            pub struct Request { $( $(#[$a])* pub $f: $t ),* }
            #[response]
            pub struct Response {}
            fields!(Request, req, { $($f: $t),* });
            pub fn eval(v: &[FV], t: &mut Tally) -> Option<Fail> {
                rt_request(build(v), TOKEN, to_fv, t)
            }
        }
    };
}

macro_rules! syn_resp {
    ($m:ident, { $( $(#[$a:meta])* $f:ident : $t:ty ),* $(,)? }) => {
        pub mod $m {
            use super::*;
            const METADATA: Metadata = metadata! {
                method: GET, rate_limited: false, authentication: None,
                history: { unstable => "/_syn/resp", }
            };
            #[request]
            pub struct Request {}
            #[response]
            pub struct Response { $( $(#[$a])* pub $f: $t ),* }
            fields!(Response, resp, { $($f: $t),* });
            pub fn eval(v: &[FV], t: &mut Tally) -> Option<Fail> {
                rt_response(build(v), to_fv, t)
            }
        }
    };
}

use http::header::{CONTENT_DISPOSITION, CONTENT_TYPE, ETAG, IF_MATCH, IF_NONE_MATCH, LOCATION};

syn_req!(path1, GET, None, { 1.0 => "/_syn/r0/p1/:p1", 1.1 => "/_syn/v3/p1/:p1", }, {
    #[ruma_api(path)] p1: String,
});
syn_req!(path2, GET, AccessToken, { unstable => "/_syn/u/p2/:p1/mid/:p2", 1.1 => "/_syn/v1/p2/:p1/mid/:p2", }, {
    #[ruma_api(path)] p1: String,
    #[ruma_api(path)] p2: String,
});
syn_req!(path3, PUT, AccessTokenOptional, { unstable => "/_syn/p3/:p1/:p2/:p3", }, {
    #[ruma_api(path)] p1: String,
    #[ruma_api(path)] p2: String,
    #[ruma_api(path)] p3: String,
});
syn_req!(query, GET, None, { 1.1 => "/_syn/q", }, {
    #[ruma_api(query)] q: String,
    #[ruma_api(query)] #[serde(skip_serializing_if = "Option::is_none")] qo: Option<String>,
    #[ruma_api(query)] #[serde(default, skip_serializing_if = "<[_]>::is_empty")] qv: Vec<String>,
});
syn_req!(query_all, GET, None, { 1.1 => "/_syn/qa", }, {
    #[ruma_api(query_all)] qa: Two,
});
syn_req!(query_map, GET, None, { 1.1 => "/_syn/qm", }, {
    #[ruma_api(query_all)] qm: Vec<(String, String)>,
});
syn_req!(header, PUT, AppserviceToken, { 1.1 => "/_syn/h", }, {
    #[ruma_api(header = IF_MATCH)] h: String,
    #[ruma_api(header = IF_NONE_MATCH)] ho: Option<String>,
    b: String,
});
syn_req!(body, PUT, AppserviceTokenOptional, { 1.1 => "/_syn/b", }, {
    b: String,
    #[serde(skip_serializing_if = "Option::is_none")] bo: Option<String>,
    #[serde(default, skip_serializing_if = "String::is_empty")] bd: String,
    #[serde(default)] bv: Vec<String>,
});
syn_req!(newtype_body, POST, ServerSignatures, { 1.1 => "/_syn/nb", }, {
    #[ruma_api(body)] nb: Two,
});
syn_req!(newtype_body_nullable, POST, None, { 1.1 => "/_syn/nbn", }, {
    #[ruma_api(body)] nbn: Option<Vec<String>>,
});
syn_req!(raw_body, PUT, None, { 1.1 => "/_syn/rb/:p1", }, {
    #[ruma_api(path)] p1: String,
    #[ruma_api(header = CONTENT_TYPE)] h: String,
    #[ruma_api(raw_body)] rb: Vec<u8>,
});
syn_req!(mixed, POST, AccessToken, { 1.0 => "/_syn/r0/mx/:p1", 1.1 => "/_syn/v3/mx/:p1", }, {
    #[ruma_api(path)] p1: String,
    #[ruma_api(query)] q: String,
    #[ruma_api(header = IF_MATCH)] ho: Option<String>,
    b: String,
});

/// response declared with `#[response(status = ...)]`: the status the encoder writes is the
/// declared one and the decoder accepts what the encoder wrote (same round trip as above)
macro_rules! syn_resp_status {
    ($m:ident, $status:ident, { $( $(#[$a:meta])* $f:ident : $t:ty ),* $(,)? }) => {
        pub mod $m {
            use super::*;
            const METADATA: Metadata = metadata! {
                method: GET, rate_limited: false, authentication: None,
                history: { unstable => "/_syn/resp_status", }
            };
            #[request]
            pub struct Request {}
            #[response(status = $status)]
            pub struct Response { $( $(#[$a])* pub $f: $t ),* }
            fields!(Response, resp, { $($f: $t),* });
            pub fn eval(v: &[FV], t: &mut Tally) -> Option<Fail> {
                let r = build(v);
                if let Ok(Ok(h)) = catch(|| r.clone().try_into_http_response::<Vec<u8>>()) {
                    t.outcome("response-status", h.status().as_str());
                    if h.status() != http::StatusCode::$status {
                        return fail(
                            "status-override-ignored",
                            format!("declared {} but encoded {}", http::StatusCode::$status, h.status()),
                        );
                    }
                }
                rt_response(r, to_fv, t)
            }
        }
    };
}

syn_resp_status!(resp_found, FOUND, {
    #[ruma_api(header = LOCATION)] ho: Option<String>,
});
syn_resp_status!(resp_created, CREATED, {
    #[ruma_api(header = LOCATION)] h: String,
    b: String,
});
syn_resp_status!(resp_see_other, SEE_OTHER, {
    #[ruma_api(header = LOCATION)] h: String,
    #[serde(skip_serializing_if = "Option::is_none")] bo: Option<String>,
});

syn_resp!(resp_body, {
    b: String,
    #[serde(skip_serializing_if = "Option::is_none")] bo: Option<String>,
    #[serde(default, skip_serializing_if = "String::is_empty")] bd: String,
    #[serde(default)] bv: Vec<String>,
});
syn_resp!(resp_header, {
    #[ruma_api(header = LOCATION)] h: String,
    #[ruma_api(header = ETAG)] ho: Option<String>,
    b: String,
});
syn_resp!(resp_raw, {
    #[ruma_api(header = CONTENT_TYPE)] h: String,
    #[ruma_api(raw_body)] rb: Vec<u8>,
});
syn_resp!(resp_cd, {
    #[ruma_api(header = CONTENT_DISPOSITION)] ho: Option<ruma_common::http_headers::ContentDisposition>,
    #[ruma_api(raw_body)] rb: Vec<u8>,
});
syn_resp!(resp_newtype, {
    #[ruma_api(body)] nb: Two,
});

fn syn_endpoints() -> Vec<Ep> {
    vec![
        path1::ep(),
        path2::ep(),
        path3::ep(),
        query::ep(),
        query_all::ep(),
        query_map::ep(),
        header::ep(),
        body::ep(),
        newtype_body::ep(),
        newtype_body_nullable::ep(),
        raw_body::ep(),
        mixed::ep(),
        resp_body::ep(),
        resp_header::ep(),
        resp_raw::ep(),
        resp_newtype::ep(),
        resp_cd::ep(),
        resp_found::ep(),
        resp_created::ep(),
        resp_see_other::ep(),
    ]
}

fn simplest(kind: FK) -> FV {
    match kind {
        FK::Str => FV::S(String::new()),
        FK::Opt => FV::Absent,
        FK::List => FV::L(vec![]),
    }
}

/// delta-minimise a failing case (same stage must persist); deterministic
fn minimize(kinds: &[FK], mut case: Vec<FV>, stage: &str, eval: &dyn Fn(&[FV]) -> Option<Fail>) -> Vec<FV> {
    loop {
        let mut changed = false;
        for i in 0..case.len() {
            'cands: for cand in case[i].shrinks(kinds[i]) {
                let mut c2 = case.clone();
                c2[i] = cand;
                if eval(&c2).is_some_and(|f| f.stage == stage) {
                    case = c2;
                    changed = true;
                    break 'cands;
                }
            }
        }
        if !changed {
            return case;
        }
    }
}

fn render_min(names: &[String], kinds: &[FK], case: &[FV]) -> String {
    let parts: Vec<String> = case
        .iter()
        .enumerate()
        .filter(|(i, v)| **v != simplest(kinds[*i]))
        .map(|(i, v)| format!("{}={}", names[i], v.show()))
        .collect();
    if parts.is_empty() {
        "<all-empty>".into()
    } else {
        parts.join(";")
    }
}

/// minimal failing cases already found, per (endpoint, stage): a later failing case that embeds
/// one of them is counted under the same signature without being minimised again (the minimal
/// case of any other defect is itself enumerated and embeds none of them)
static MINIMA: Mutex<Vec<(String, &'static str, Vec<FV>, String)>> = Mutex::new(Vec::new());

fn ep_sig(ep: &Ep, case: &[FV], f: &Fail) -> String {
    {
        let known = MINIMA.lock().unwrap();
        for (name, stage, min, sig) in known.iter() {
            if *name == ep.name && *stage == f.stage && min.iter().zip(case).all(|(m, c)| mc_api::embeds(m, c)) {
                return sig.clone();
            }
        }
    }
    let ev = |c: &[FV]| (ep.eval)(c, &mut Tally::new());
    let min = minimize(&ep.kinds, case.to_vec(), f.stage, &ev);
    let rendered = render_min(&ep.names, &ep.kinds, &min);
    let sig = if ep.group == "real" {
        format!("real/{}/{}/{}", ep.name, f.stage, rendered)
    } else {
        // path / query / header handling lives in shared code: one class for every synthetic
        // endpoint; the field name carries the field kind
        format!("{}/{}/{}", ep.group, f.stage, rendered)
    };
    MINIMA.lock().unwrap().push((ep.name.clone(), f.stage, min, sig.clone()));
    sig
}

/// one unit of work: the product of `dims` (one value list per field) minus the cases another
/// shard already produces
struct Shard {
    ep: usize,
    dims: Vec<Vec<FV>>,
    hot: Vec<usize>,
    is_cold: Vec<Vec<bool>>,
}

impl Shard {
    fn skip(&self, ix: &[usize]) -> bool {
        match self.hot.as_slice() {
            // a case whose hot value is itself a cold value was already produced with hot = 0
            [h] => *h > 0 && self.is_cold[*h][ix[*h]],
            // pairs: both must be beyond the cold set, otherwise a single-hot shard has it
            hs => hs.iter().any(|h| self.is_cold[*h][ix[*h]]),
        }
    }
    fn for_each(&self, f: &mut dyn FnMut(Vec<FV>)) {
        let radices: Vec<usize> = self.dims.iter().map(Vec::len).collect();
        engine::for_product(&radices, &mut |ix| {
            if !self.skip(ix) {
                f(ix.iter().enumerate().map(|(i, &j)| self.dims[i][j].clone()).collect());
            }
        });
    }
}

/// the cases of one endpoint: each field in turn is "hot" (every string of ≤ `len` symbols)
/// while the others cycle through the cold set; thorough additionally every pair of fields hot
/// at ≤ 2 symbols
fn ep_shards(e: usize, ep: &Ep, tier: Tier) -> Vec<Shard> {
    const CHUNK: usize = 128;
    let len = tier.pick(2, 3);
    let k = ep.kinds.len();
    let cold: Vec<Vec<FV>> = ep.kinds.iter().map(|kd| cold_values(*kd, k)).collect();
    let mut out = vec![];
    let mut push = |hot: Vec<usize>, hot_vals: Vec<Vec<FV>>| {
        // chunk the first hot dimension
        for chunk in hot_vals[0].chunks(CHUNK) {
            let mut dims = cold.clone();
            dims[hot[0]] = chunk.to_vec();
            for (n, h) in hot.iter().enumerate().skip(1) {
                dims[*h] = hot_vals[n].clone();
            }
            let is_cold = (0..k).map(|i| dims[i].iter().map(|v| cold[i].contains(v)).collect()).collect();
            out.push(Shard { ep: e, dims, hot: hot.clone(), is_cold });
        }
    };
    for h in 0..k {
        push(vec![h], vec![values_of(ep.kinds[h], len)]);
    }
    if tier.is_thorough() {
        for a in 0..k {
            for b in a + 1..k {
                push(vec![a, b], vec![values_of(ep.kinds[a], 2), values_of(ep.kinds[b], 2)]);
            }
        }
    }
    if k == 0 {
        out.push(Shard { ep: e, dims: vec![], hot: vec![0], is_cold: vec![] });
    }
    out
}

// ---------------------------------------------------------------------------------------
// (b) real endpoints

fn real_ep(name: &str, n_args: usize, eval: Box<dyn Fn(&[FV], &mut Tally) -> Option<Fail> + Sync + Send>) -> Ep {
    Ep {
        name: name.to_owned(),
        group: "real",
        names: (0..n_args).map(|i| format!("arg{i}")).collect(),
        kinds: vec![FK::Str; n_args],
        eval,
    }
}

fn strs(v: &[FV]) -> Vec<String> {
    v.iter().map(|x| <String as Slot>::from_fv(x)).collect()
}

fn real<R>(name: &'static str, n_args: usize, build: impl Fn(&[String]) -> Option<R> + Sync + Send + 'static) -> Ep
where
    R: OutgoingRequest + IncomingRequest + Clone + Debug,
{
    real_ep(
        name,
        n_args,
        Box::new(move |a, t| match catch(|| build(&strs(a))) {
            Err(p) => fail("panic-build", p.text),
            Ok(None) => {
                t.outcome("real-build", "id-rejected");
                None
            }
            Ok(Some(r)) => {
                t.outcome("real-build", "built");
                rt_request(r, TOKEN, |r| format!("{r:?}"), t)
            }
        }),
    )
}

fn real_resp<R>(name: &'static str, n_args: usize, build: impl Fn(&[String]) -> Option<R> + Sync + Send + 'static) -> Ep
where
    R: OutgoingResponse + IncomingResponse + Clone + Debug,
{
    real_ep(
        name,
        n_args,
        Box::new(move |a, t| match catch(|| build(&strs(a))) {
            Err(p) => fail("panic-build", p.text),
            Ok(None) => {
                t.outcome("real-build", "id-rejected");
                None
            }
            Ok(Some(r)) => {
                t.outcome("real-build", "built");
                rt_response(r, |r| format!("{r:?}"), t)
            }
        }),
    )
}

mod ids {
    use ruma_common::*;
    pub fn room(s: &str) -> Option<OwnedRoomId> {
        RoomId::parse(format!("!{s}:h.example")).ok()
    }
    pub fn user(s: &str) -> Option<OwnedUserId> {
        UserId::parse(format!("@{s}:h.example")).ok()
    }
    pub fn event(s: &str) -> Option<OwnedEventId> {
        EventId::parse(format!("${s}")).ok()
    }
    pub fn alias(s: &str) -> Option<OwnedRoomAliasId> {
        RoomAliasId::parse(format!("#{s}:h.example")).ok()
    }
    pub fn room_or_alias(s: &str) -> Option<OwnedRoomOrAliasId> {
        RoomOrAliasId::parse(format!("#{s}:h.example")).ok()
    }
    pub fn server(s: &str) -> Option<OwnedServerName> {
        ServerName::parse(s).ok().or_else(|| ServerName::parse(format!("a{}.example", s.len())).ok())
    }
    pub fn txn(s: &str) -> OwnedTransactionId {
        s.into()
    }
    pub fn device(s: &str) -> OwnedDeviceId {
        s.into()
    }
}

fn real_endpoints() -> Vec<Ep> {
    use ids::*;
    use ruma_appservice_api as a;
    use ruma_client_api as c;
    use ruma_common::serde::Raw;
    use ruma_federation_api as f;
    use ruma_identity_service_api as i;
    use ruma_push_gateway_api as p;
    fn raw<T>(s: &str) -> Raw<T> {
        Raw::from_json(serde_json::value::RawValue::from_string(s.to_owned()).unwrap())
    }
    vec![
        // ---- client-server
        real("client/state/get_state_events_for_key", 3, |v| {
            Some(c::state::get_state_events_for_key::v3::Request::new(room(&v[0])?, v[1].as_str().into(), v[2].clone()))
        }),
        real("client/state/send_state_event", 3, |v| {
            Some(c::state::send_state_event::v3::Request::new_raw(
                room(&v[0])?,
                v[1].as_str().into(),
                v[2].clone(),
                raw(r#"{"k":"v"}"#),
            ))
        }),
        real("client/message/send_message_event", 3, |v| {
            Some(c::message::send_message_event::v3::Request::new_raw(
                room(&v[0])?,
                txn(&v[1]),
                v[2].as_str().into(),
                raw(r#"{"body":"x"}"#),
            ))
        }),
        real("client/room/get_room_event", 2, |v| {
            Some(c::room::get_room_event::v3::Request::new(room(&v[0])?, event(&v[1])?))
        }),
        real("client/alias/get_alias", 1, |v| Some(c::alias::get_alias::v3::Request::new(alias(&v[0])?))),
        real("client/alias/create_alias", 2, |v| {
            Some(c::alias::create_alias::v3::Request::new(alias(&v[0])?, room(&v[1])?))
        }),
        real("client/membership/join_room_by_id_or_alias", 1, |v| {
            let mut r = c::membership::join_room_by_id_or_alias::v3::Request::new(room_or_alias(&v[0])?);
            r.via = vec![server("h.example")?, server("b.example:8448")?];
            Some(r)
        }),
        real("client/profile/get_display_name", 1, |v| {
            Some(c::profile::get_display_name::v3::Request::new(user(&v[0])?))
        }),
        real("client/profile/set_display_name", 2, |v| {
            Some(c::profile::set_display_name::v3::Request::new(user(&v[0])?, Some(v[1].clone())))
        }),
        real("client/config/set_global_account_data", 2, |v| {
            Some(c::config::set_global_account_data::v3::Request::new_raw(
                user(&v[0])?,
                v[1].as_str().into(),
                raw(r#"{"k":1}"#),
            ))
        }),
        real("client/tag/create_tag", 3, |v| {
            Some(c::tag::create_tag::v3::Request::new(user(&v[0])?, room(&v[1])?, v[2].clone(), Default::default()))
        }),
        real("client/device/get_device", 1, |v| Some(c::device::get_device::v3::Request::new(device(&v[0])))),
        real("client/filter/get_filter", 2, |v| {
            Some(c::filter::get_filter::v3::Request::new(user(&v[0])?, v[1].clone()))
        }),
        real("client/authenticated_media/get_content_as_filename", 2, |v| {
            Some(c::authenticated_media::get_content_as_filename::v1::Request::new(
                v[0].clone(),
                server("h.example")?,
                v[1].clone(),
            ))
        }),
        real("client/push/get_pushrule", 2, |v| {
            Some(c::push::get_pushrule::v3::Request::new(v[0].as_str().into(), v[1].clone()))
        }),
        real("client/redact/redact_event", 3, |v| {
            Some(c::redact::redact_event::v3::Request::new(room(&v[0])?, event(&v[1])?, txn(&v[2])))
        }),
        real("client/backup/get_backup_keys_for_session", 3, |v| {
            Some(c::backup::get_backup_keys_for_session::v3::Request::new(v[0].clone(), room(&v[1])?, v[2].clone()))
        }),
        real("client/typing/create_typing_event", 2, |v| {
            Some(c::typing::create_typing_event::v3::Request::new(
                user(&v[0])?,
                room(&v[1])?,
                c::typing::create_typing_event::v3::Typing::No,
            ))
        }),
        real("client/relations/get_relating_events_with_rel_type_and_event_type", 3, |v| {
            Some(c::relations::get_relating_events_with_rel_type_and_event_type::v1::Request::new(
                room(&v[0])?,
                event("e")?,
                v[1].as_str().into(),
                v[2].as_str().into(),
            ))
        }),
        real("client/directory/get_room_visibility", 1, |v| {
            Some(c::directory::get_room_visibility::v3::Request::new(room(&v[0])?))
        }),
        real("client/receipt/create_receipt", 3, |v| {
            Some(c::receipt::create_receipt::v3::Request::new(room(&v[0])?, v[1].as_str().into(), event(&v[2])?))
        }),
        real("client/to_device/send_event_to_device", 2, |v| {
            Some(c::to_device::send_event_to_device::v3::Request::new_raw(
                v[0].as_str().into(),
                txn(&v[1]),
                Default::default(),
            ))
        }),
        real("client/room/report_content", 2, |v| {
            Some(c::room::report_content::v3::Request::new(room(&v[0])?, event(&v[1])?, None, Some(v[1].clone())))
        }),
        real("client/threads/get_threads", 1, |v| Some(c::threads::get_threads::v1::Request::new(room(&v[0])?))),
        real("client/space/get_hierarchy", 1, |v| Some(c::space::get_hierarchy::v1::Request::new(room(&v[0])?))),
        real("client/search/search_events", 1, |v| {
            let mut cat = c::search::search_events::v3::Categories::new();
            cat.room_events = Some(c::search::search_events::v3::Criteria::new(v[0].clone()));
            Some(c::search::search_events::v3::Request::new(cat))
        }),
        real("client/directory/get_public_rooms_filtered", 1, |v| {
            let mut r = c::directory::get_public_rooms_filtered::v3::Request::new();
            r.since = Some(v[0].clone());
            Some(r)
        }),
        real("client/message/get_message_events", 1, |v| {
            Some(c::message::get_message_events::v3::Request::new(room(&v[0])?, ruma_common::api::Direction::Backward))
        }),
        real("client/context/get_context", 2, |v| {
            Some(c::context::get_context::v3::Request::new(room(&v[0])?, event(&v[1])?))
        }),
        real_resp("client/search/search_events#response", 1, |v| {
            let mut res = c::search::search_events::v3::SearchResult::new();
            res.rank = Some(1.0);
            let mut cat = c::search::search_events::v3::ResultCategories::new();
            cat.room_events.results = vec![res];
            cat.room_events.next_batch = Some(v[0].clone());
            Some(c::search::search_events::v3::Response::new(cat))
        }),
        real_resp("client/profile/get_display_name#response", 1, |v| {
            Some(c::profile::get_display_name::v3::Response::new(Some(v[0].clone())))
        }),
        real_resp("client/filter/create_filter#response", 1, |v| {
            Some(c::filter::create_filter::v3::Response::new(v[0].clone()))
        }),
        // ---- federation
        real("federation/event/get_event", 1, |v| Some(f::event::get_event::v1::Request::new(event(&v[0])?))),
        real("federation/membership/prepare_join_event", 2, |v| {
            let mut r = f::membership::prepare_join_event::v1::Request::new(room(&v[0])?, user(&v[1])?);
            r.ver = vec![ruma_common::RoomVersionId::V1, ruma_common::RoomVersionId::V11];
            Some(r)
        }),
        real("federation/backfill/get_backfill", 2, |v| {
            Some(f::backfill::get_backfill::v1::Request::new(
                room(&v[0])?,
                vec![event(&v[1])?, event("b")?],
                js_int::uint!(5),
            ))
        }),
        real("federation/query/get_room_information", 1, |v| {
            Some(f::query::get_room_information::v1::Request::new(alias(&v[0])?))
        }),
        real("federation/transactions/send_transaction_message", 1, |v| {
            Some(f::transactions::send_transaction_message::v1::Request::new(
                txn(&v[0]),
                server("h.example")?,
                ruma_common::MilliSecondsSinceUnixEpoch(js_int::uint!(1)),
            ))
        }),
        real("federation/device/get_devices", 1, |v| Some(f::device::get_devices::v1::Request::new(user(&v[0])?))),
        real("federation/event/get_room_state_ids", 2, |v| {
            Some(f::event::get_room_state_ids::v1::Request::new(event(&v[0])?, room(&v[1])?))
        }),
        real("federation/query/get_profile_information", 1, |v| {
            Some(f::query::get_profile_information::v1::Request::new(user(&v[0])?))
        }),
        real("federation/authenticated_media/get_content", 1, |v| {
            Some(f::authenticated_media::get_content::v1::Request::new(v[0].clone()))
        }),
        real("federation/space/get_hierarchy", 1, |v| Some(f::space::get_hierarchy::v1::Request::new(room(&v[0])?))),
        real("federation/directory/get_public_rooms", 1, |v| {
            let mut r = f::directory::get_public_rooms::v1::Request::new();
            // (an empty `since` is the query-Option class already covered by the synthetic `qo`)
            r.since = (!v[0].is_empty()).then(|| v[0].clone());
            Some(r)
        }),
        real("federation/directory/get_public_rooms_filtered", 1, |v| {
            let mut r = f::directory::get_public_rooms_filtered::v1::Request::new();
            r.since = Some(v[0].clone());
            Some(r)
        }),
        // ---- appservice
        real("appservice/query/query_user_id", 1, |v| Some(a::query::query_user_id::v1::Request::new(user(&v[0])?))),
        real("appservice/query/query_room_alias", 1, |v| {
            Some(a::query::query_room_alias::v1::Request::new(alias(&v[0])?))
        }),
        real("appservice/event/push_events", 1, |v| {
            Some(a::event::push_events::v1::Request::new(txn(&v[0]), vec![]))
        }),
        real("appservice/thirdparty/get_protocol", 1, |v| {
            Some(a::thirdparty::get_protocol::v1::Request::new(v[0].clone()))
        }),
        real("appservice/thirdparty/get_user_for_protocol", 1, |v| {
            Some(a::thirdparty::get_user_for_protocol::v1::Request::new(v[0].clone()))
        }),
        // ---- identity service
        real("identity/keys/get_public_key", 1, |v| {
            Some(i::keys::get_public_key::v2::Request::new(
                ruma_common::OwnedServerSigningKeyId::try_from(format!("{}:1", v[0])).ok()?,
            ))
        }),
        real("identity/association/check_3pid_validity", 2, |v| {
            Some(i::association::check_3pid_validity::v2::Request::new(
                ruma_common::OwnedSessionId::try_from(v[0].as_str()).ok()?,
                ruma_common::OwnedClientSecret::try_from(v[1].as_str()).ok()?,
            ))
        }),
        real("identity/tos/accept_terms_of_service", 2, |v| {
            Some(i::tos::accept_terms_of_service::v2::Request::new(vec![v[0].clone(), v[1].clone()]))
        }),
        real_resp("identity/lookup/get_hash_parameters#response", 1, |v| {
            Some(i::lookup::get_hash_parameters::v2::Response::new(v[0].clone(), vec![v[0].as_str().into()]))
        }),
        // ---- push gateway
        real("push-gateway/send_event_notification", 2, |v| {
            let dev = p::send_event_notification::v1::Device::new(v[0].clone(), v[1].clone());
            Some(p::send_event_notification::v1::Request::new(p::send_event_notification::v1::Notification::new(
                vec![dev],
            )))
        }),
        real_resp("push-gateway/send_event_notification#response", 2, |v| {
            Some(p::send_event_notification::v1::Response::new(vec![v[0].clone(), v[1].clone()]))
        }),
    ]
}

// ---------------------------------------------------------------------------------------
// (c) version selection

/// every MatrixVersion the tree knows, oldest first: the enum is non_exhaustive, so the variants
/// are discovered through the public string conversion (`r0.5.0` = 1.0, `v1.N`)
fn all_versions() -> Vec<MatrixVersion> {
    let mut v = vec![MatrixVersion::try_from("r0.5.0").expect("legacy version")];
    for minor in 1..64 {
        if let Ok(x) = MatrixVersion::try_from(format!("v1.{minor}").as_str()) {
            v.push(x);
        }
    }
    v
}

/// reference view of a history: ranks are indices into `all_versions()`
#[derive(Clone, Debug)]
struct Hist {
    kind: &'static str, // "real" | "syn"
    name: String,
    unstable: Vec<&'static str>,
    stable: Vec<(usize, &'static str)>,
    deprecated: Option<usize>,
    removed: Option<usize>,
    meta: Metadata,
}

#[derive(Clone, Debug, PartialEq)]
enum RefSel {
    Stable(usize, &'static str),
    Unstable(&'static str),
    Removed,
    NoUnstable,
    /// the version set mixes versions below and at/above `removed` and the strict reading
    /// ("newest stable path a version that still has the endpoint offers") differs from ruma's
    /// documented one (any version counts) — DESIGN §1.3
    Unspecified,
}

/// Reference semantics (property text + DESIGN §3 C16): error iff every given version is at or
/// after `removed`; else the newest stable path some given version offers; else the last
/// unstable path; else an error.
fn ref_select(h: &Hist, set: &[usize]) -> RefSel {
    let alive: Vec<usize> = set.iter().copied().filter(|v| h.removed.is_none_or(|r| *v < r)).collect();
    if h.removed.is_some() && alive.is_empty() {
        return RefSel::Removed;
    }
    let newest_for = |vs: &[usize]| -> Option<usize> {
        let max = vs.iter().copied().max()?;
        (0..h.stable.len()).rev().find(|&i| h.stable[i].0 <= max)
    };
    let strict = newest_for(&alive);
    let lenient = newest_for(set);
    if strict != lenient {
        return RefSel::Unspecified;
    }
    match strict {
        Some(i) => RefSel::Stable(i, h.stable[i].1),
        None => match h.unstable.last() {
            Some(u) => RefSel::Unstable(u),
            None => RefSel::NoUnstable,
        },
    }
}

fn hist_shape(h: &Hist) -> String {
    format!(
        "u{}s{}{}{}",
        h.unstable.len(),
        h.stable.len(),
        if h.deprecated.is_some() { "d" } else { "" },
        if h.removed.is_some() { "r" } else { "" }
    )
}

fn subst(path: &str) -> String {
    let mut n = 0;
    let mut out = String::from(BASE);
    for seg in path.split('/').skip(1) {
        out.push('/');
        if seg.starts_with(':') {
            out.push_str(&format!("x{n}"));
            n += 1;
        } else {
            out.push_str(seg);
        }
    }
    out
}

/// evaluate one (history, version set); returns (sig, detail) per violation
fn eval_version(h: &Hist, all: &[MatrixVersion], mask: u32, t: &mut Tally) -> Vec<(String, String)> {
    let set: Vec<usize> = (0..all.len()).filter(|i| mask & (1 << i) != 0).collect();
    let mut out = eval_version_in_order(h, all, &set, "", t);
    // the supported versions are a set: the order in which the caller lists them must not matter
    if set.len() >= 2 {
        let mut desc = set.clone();
        desc.reverse();
        out.extend(eval_version_in_order(h, all, &desc, "/listed-newest-first", t));
    }
    if set.len() >= 3 {
        let mut rot = set.clone();
        rot.rotate_left(1);
        out.extend(eval_version_in_order(h, all, &rot, "/listed-newest-in-the-middle", t));
    }
    out
}

fn eval_version_in_order(h: &Hist, all: &[MatrixVersion], set: &[usize], order: &str, t: &mut Tally) -> Vec<(String, String)> {
    let versions: Vec<MatrixVersion> = set.iter().map(|i| all[*i]).collect();
    let n_args = h.meta.history.all_paths().next().map_or(0, |p| p.split('/').filter(|s| s.starts_with(':')).count());
    let arg_strings: Vec<String> = (0..n_args).map(|i| format!("x{i}")).collect();
    let args: Vec<&dyn Display> = arg_strings.iter().map(|s| s as &dyn Display).collect();
    let exp = ref_select(h, set);
    let mut out = vec![];
    t.transitions += 2;
    let got = catch(|| h.meta.make_endpoint_url(&versions, BASE, &args, ""));
    let decision = catch(|| h.meta.history.versioning_decision_for(&versions));
    let describe = || {
        format!(
            "{} [{}] unstable={:?} stable={:?} deprecated={:?} removed={:?} versions={:?}",
            h.name, h.kind, h.unstable, h.stable, h.deprecated, h.removed, versions
        )
    };
    let got = match got {
        Err(p) => {
            out.push((format!("version/{}/{}/panic{order}", h.kind, hist_shape(h)), format!("{}: {}", describe(), p.text)));
            return out;
        }
        Ok(g) => g,
    };
    let got_kind = match &got {
        Ok(url) => {
            if let Some(i) = h.stable.iter().position(|(_, p)| subst(p) == *url) {
                if i + 1 == h.stable.len() { "stable-last".to_owned() } else { format!("stable-{i}") }
            } else if h.unstable.last().is_some_and(|u| subst(u) == *url) {
                "unstable-last".into()
            } else if h.unstable.iter().any(|u| subst(u) == *url) {
                "unstable-older".into()
            } else {
                "other-url".into()
            }
        }
        Err(IntoHttpError::EndpointRemoved(v)) => {
            if h.removed.map(|r| all[r]) == Some(*v) { "removed".into() } else { "removed-wrong-version".into() }
        }
        Err(IntoHttpError::NoUnstablePath) => "no-unstable".into(),
        Err(_) => "other-error".into(),
    };
    let exp_kind = match &exp {
        RefSel::Stable(i, _) => {
            if i + 1 == h.stable.len() { "stable-last".to_owned() } else { format!("stable-{i}") }
        }
        RefSel::Unstable(_) => "unstable-last".into(),
        RefSel::Removed => "removed".into(),
        RefSel::NoUnstable => "no-unstable".into(),
        RefSel::Unspecified => "unspecified".into(),
    };
    t.outcome("version-select", &exp_kind.split('-').next().unwrap_or("").to_owned());
    if exp == RefSel::Unspecified {
        t.unspecified += 1;
        return out;
    }
    t.nontrivial += 1;
    if got_kind != exp_kind {
        out.push((
            format!("version/{}/{}/expected-{exp_kind}/got-{got_kind}{order}", h.kind, hist_shape(h)),
            format!("{}: expected {exp:?}, make_endpoint_url returned {got:?}", describe()),
        ));
    }
    // the public decision function must tell the same story
    match decision {
        Err(p) => out.push((format!("version/{}/{}/decision-panic{order}", h.kind, hist_shape(h)), p.text)),
        Ok(d) => {
            let ge_any = |r: Option<usize>| r.is_some_and(|r| set.iter().any(|v| *v >= r));
            let ge_all = |r: Option<usize>| r.is_some_and(|r| set.iter().all(|v| *v >= r));
            let exp_d = match &exp {
                RefSel::Removed => VersioningDecision::Removed,
                RefSel::Stable(..) => VersioningDecision::Stable {
                    any_deprecated: ge_any(h.deprecated),
                    all_deprecated: ge_all(h.deprecated),
                    any_removed: ge_any(h.removed),
                },
                _ => VersioningDecision::Unstable,
            };
            if d != exp_d {
                out.push((
                    format!("version/{}/{}/decision/expected-{exp_kind}{order}", h.kind, hist_shape(h)),
                    format!("{}: versioning_decision_for = {d:?}, expected {exp_d:?}", describe()),
                ));
            }
        }
    }
    out
}

fn rank_of(all: &[MatrixVersion], v: MatrixVersion) -> usize {
    all.iter().position(|x| *x == v).unwrap_or_else(|| engine::machinery_error(&format!("version {v:?} not discovered")))
}

fn real_hists(all: &[MatrixVersion]) -> Vec<Hist> {
    all_endpoint_metadata()
        .into_iter()
        .map(|(name, meta)| Hist {
            kind: "real",
            name: name.to_owned(),
            unstable: meta.history.unstable_paths().collect(),
            stable: meta.history.stable_paths().map(|(v, p)| (rank_of(all, v), p)).collect(),
            deprecated: meta.history.deprecated_in().map(|v| rank_of(all, v)),
            removed: meta.history.removed_in().map(|v| rank_of(all, v)),
            meta,
        })
        .collect()
}

fn leak_str(s: String) -> &'static str {
    Box::leak(s.into_boxed_str())
}

fn make_syn_hist(
    all: &[MatrixVersion],
    n_unstable: usize,
    stable_ranks: &[usize],
    deprecated: Option<usize>,
    removed: Option<usize>,
) -> Hist {
    let unstable: Vec<&'static str> = (0..n_unstable).map(|i| leak_str(format!("/_h/u{i}/:x"))).collect();
    let stable: Vec<(usize, &'static str)> =
        stable_ranks.iter().map(|r| (*r, leak_str(format!("/_h/s{r}/:x")))).collect();
    let u: &'static [&'static str] = Box::leak(unstable.clone().into_boxed_slice());
    let s: &'static [(MatrixVersion, &'static str)] =
        Box::leak(stable.iter().map(|(r, p)| (all[*r], *p)).collect::<Vec<_>>().into_boxed_slice());
    let history = VersionHistory::new(u, s, deprecated.map(|r| all[r]), removed.map(|r| all[r]));
    Hist {
        kind: "syn",
        name: format!("u{n_unstable} s{stable_ranks:?} d{deprecated:?} r{removed:?}"),
        unstable,
        stable,
        deprecated,
        removed,
        meta: Metadata { method: http::Method::GET, rate_limited: false, authentication: AuthScheme::None, history },
    }
}

/// synthetic histories: ≤ 2 unstable paths, stable paths at any ≤ 3 of 5 versions, optional
/// deprecated / removed at every legal position (quick: positions from a 7-version ladder)
fn syn_hists(all: &[MatrixVersion], tier: Tier) -> Vec<Hist> {
    let n = all.len();
    let five: Vec<usize> = [0usize, 1, 3, 6, 11].iter().copied().filter(|r| *r < n).collect();
    let ladder: Vec<usize> = if tier.is_thorough() {
        (0..n).collect()
    } else {
        [0usize, 1, 2, 4, 7, 12, n - 1].iter().copied().filter(|r| *r < n).collect()
    };
    let mut out = vec![];
    for sub in 0u32..(1 << five.len()) {
        if sub.count_ones() > 3 {
            continue;
        }
        let stable: Vec<usize> = (0..five.len()).filter(|i| sub & (1 << i) != 0).map(|i| five[i]).collect();
        for n_unstable in 0..=2 {
            if n_unstable == 0 && stable.is_empty() {
                continue;
            }
            out.push(make_syn_hist(all, n_unstable, &stable, None, None));
            let Some(&last) = stable.last() else { continue };
            for &d in &ladder {
                // VersionHistory::new: deprecated after the newest stable path (1.0 may coincide)
                if !(d > last || (d == last && d == 0)) {
                    continue;
                }
                out.push(make_syn_hist(all, n_unstable, &stable, Some(d), None));
                for &r in &ladder {
                    if r > d {
                        out.push(make_syn_hist(all, n_unstable, &stable, Some(d), Some(r)));
                    }
                }
            }
        }
    }
    out
}

// ---------------------------------------------------------------------------------------
// (d) authorization header per AuthScheme, XMatrix

macro_rules! auth_ep {
    ($m:ident, $auth:ident) => {
        pub mod $m {
            use super::*;
            const METADATA: Metadata = metadata! {
                method: GET, rate_limited: false, authentication: $auth,
                history: { 1.1 => "/_syn/auth", }
            };
            #[request]
            pub struct Request {}
            #[response]
            pub struct Response {}
            pub fn send(tok: SendAccessToken<'_>) -> Result<http::Request<Vec<u8>>, IntoHttpError> {
                Request {}.try_into_http_request::<Vec<u8>>(BASE, tok, VERSIONS)
            }
            pub const SCHEME: AuthScheme = METADATA.authentication;
        }
    };
}
auth_ep!(auth_none, None);
auth_ep!(auth_token, AccessToken);
auth_ep!(auth_token_opt, AccessTokenOptional);
auth_ep!(auth_appservice, AppserviceToken);
auth_ep!(auth_appservice_opt, AppserviceTokenOptional);
auth_ep!(auth_server, ServerSignatures);

const AUTH_EPS: [(&str, fn(SendAccessToken<'_>) -> Result<http::Request<Vec<u8>>, IntoHttpError>, AuthScheme); 6] = [
    ("None", auth_none::send, auth_none::SCHEME),
    ("AccessToken", auth_token::send, auth_token::SCHEME),
    ("AccessTokenOptional", auth_token_opt::send, auth_token_opt::SCHEME),
    ("AppserviceToken", auth_appservice::send, auth_appservice::SCHEME),
    ("AppserviceTokenOptional", auth_appservice_opt::send, auth_appservice_opt::SCHEME),
    ("ServerSignatures", auth_server::send, auth_server::SCHEME),
];
const TOKEN_KINDS: [&str; 4] = ["None", "IfRequired", "Always", "Appservice"];

#[derive(PartialEq, Debug)]
enum AuthExp {
    Header,
    NoHeader,
    NeedsAuth,
}

/// reference: documentation of `AuthScheme` / `SendAccessToken` (which token kinds a scheme
/// takes; required schemes fail without one)
fn ref_auth(scheme: AuthScheme, kind: &str) -> AuthExp {
    use AuthExp::*;
    let opt = |b: bool| if b { Header } else { NoHeader };
    let req = |b: bool| if b { Header } else { NeedsAuth };
    match scheme {
        AuthScheme::None => opt(kind == "Always"),
        AuthScheme::AccessToken => req(kind != "None"),
        AuthScheme::AccessTokenOptional => opt(kind != "None"),
        AuthScheme::AppserviceToken => req(kind == "Always" || kind == "Appservice"),
        AuthScheme::AppserviceTokenOptional => opt(kind == "Always" || kind == "Appservice"),
        AuthScheme::ServerSignatures => NoHeader,
    }
}

fn eval_auth(ep: usize, kind: usize, token: &str, t: &mut Tally) -> Vec<(String, String)> {
    let (name, send, scheme) = AUTH_EPS[ep];
    let k = TOKEN_KINDS[kind];
    let tok = match k {
        "None" => SendAccessToken::None,
        "IfRequired" => SendAccessToken::IfRequired(token),
        "Always" => SendAccessToken::Always(token),
        _ => SendAccessToken::Appservice(token),
    };
    let exp = ref_auth(scheme, k);
    t.transitions += 1;
    let got = match catch(|| send(tok)) {
        Err(p) => return vec![(format!("auth/{name}/{k}/panic"), p.text)],
        Ok(g) => g,
    };
    // bytes a header value cannot carry: the encoder may (must) refuse those
    let unencodable = token.bytes().any(|b| (b < 32 && b != b'\t') || b == 127);
    let got_s = match &got {
        Ok(r) => match r.headers().get(http::header::AUTHORIZATION) {
            Some(v) if v.as_bytes() == format!("Bearer {token}").as_bytes() => "header",
            Some(_) => "wrong-header",
            None => "no-header",
        },
        Err(IntoHttpError::NeedsAuthentication) => "needs-auth",
        Err(_) => "encoder-rejected",
    };
    t.outcome("auth", got_s);
    let exp_s = match exp {
        AuthExp::Header if unencodable => "encoder-rejected",
        AuthExp::Header => "header",
        AuthExp::NoHeader => "no-header",
        AuthExp::NeedsAuth => "needs-auth",
    };
    if got_s != exp_s {
        return vec![(
            format!("auth/{name}/{k}/expected-{exp_s}/got-{got_s}"),
            format!("scheme {name}, SendAccessToken::{k}({token:?}): expected {exp_s}, got {got_s} ({got:?})"),
        )];
    }
    vec![]
}

const XM_ALPHABET: [&str; 10] = ["a", "\"", "\\", " ", ",", "=", ";", "é", "\t", "\n"];
const XM_SERVERS: [&str; 5] = ["a", "a-b.c:80", "1.2.3.4", "[::1]", "[1:2::3]:8448"];
const XM_VERSIONS: [&str; 2] = ["1", "a_B"];

fn xm_sigs() -> Vec<Vec<u8>> {
    vec![vec![], vec![0], vec![0xff, 0xfe, 0xfd], b"test".to_vec(), (0..64u8).collect()]
}

#[derive(Clone, Debug, Serialize, Deserialize)]
struct XmCase {
    origin: String,
    destination: Option<String>,
    alg: String,
    ver: String,
    sig: Vec<u8>,
}

fn eval_xmatrix(c: &XmCase, t: &mut Tally) -> Vec<Fail> {
    let mut out = vec![];
    let origin = OwnedServerName::try_from(c.origin.as_str()).ok();
    let dest = c.destination.as_ref().map(|d| OwnedServerName::try_from(d.as_str()).ok());
    let key = OwnedServerSigningKeyId::try_from(format!("{}:{}", c.alg, c.ver)).ok();
    let (Some(origin), Some(key)) = (origin, key) else {
        t.outcome("xmatrix", "id-rejected");
        return out;
    };
    let dest = match dest {
        Some(None) => {
            t.outcome("xmatrix", "id-rejected");
            return out;
        }
        Some(Some(d)) => Some(d),
        None => None,
    };
    let mut x = XMatrix::new(origin.clone(), origin.clone(), key, Base64::new(c.sig.clone()));
    x.destination = dest;
    let same = |y: &XMatrix| {
        y.origin == x.origin && y.destination == x.destination && y.key == x.key && y.sig.as_bytes() == x.sig.as_bytes()
    };
    let mut push = |stage: &'static str, detail: String| out.push(Fail { stage, detail });
    // string form
    t.transitions += 2;
    match catch(|| x.to_string()) {
        Err(p) => push("panic-display", p.text),
        Ok(s) => match catch(|| XMatrix::parse(&s)) {
            Err(p) => push("panic-parse", p.text),
            Ok(Err(e)) => push("parse-error", format!("{x:?} written as {s:?}: {e}")),
            Ok(Ok(y)) => {
                if !same(&y) {
                    push("value-changed", format!("{x:?} written as {s:?} read as {y:?}"));
                } else {
                    let s2 = y.to_string();
                    if s2 != s {
                        push("reencode-differs", format!("{s:?} vs {s2:?}"));
                    }
                    // how many parameters Display had to quote
                    t.outcome("xmatrix", &format!("roundtrip-{}-quoted", s.matches('"').count() / 2));
                }
            }
        },
    }
    // header value form
    t.transitions += 2;
    match catch(|| http::HeaderValue::from(&x)) {
        Err(p) => push("panic-header-value", format!("{x:?}: {}", p.text)),
        Ok(hv) => match catch(|| XMatrix::try_from(&hv)) {
            Err(p) => push("panic-parse", p.text),
            Ok(Err(e)) => push("header-parse-error", format!("{x:?} as header {hv:?}: {e}")),
            Ok(Ok(y)) => {
                if !same(&y) {
                    push("header-value-changed", format!("{x:?} as header {hv:?} read as {y:?}"));
                }
            }
        },
    }
    out
}

fn xm_sig(c: &XmCase, f: &Fail) -> String {
    // minimise the free part (the key algorithm)
    let ev = |v: &[FV]| {
        let mut c2 = c.clone();
        c2.alg = v[0].show();
        eval_xmatrix(&c2, &mut Tally::new()).into_iter().find(|g| g.stage == f.stage)
    };
    let min = minimize(&[FK::Str], vec![FV::S(c.alg.clone())], f.stage, &ev);
    format!("xmatrix/{}/key-alg={:?}", f.stage, min[0].show())
}

// ---------------------------------------------------------------------------------------
// replay

// ---------------------------------------------------------------------------------------
// (e) client-server error responses: every ErrorKind (default features) with its extra fields, through
// Error -> http::Response -> Error::from_http_response (ruma-client-api/src/error.rs)

fn error_kinds() -> Vec<(&'static str, ruma_client_api::error::ErrorKind)> {
    use ruma_client_api::error::{ErrorKind as K, RetryAfter};
    use std::time::Duration;
    vec![
        ("BadAlias", K::BadAlias),
        ("BadJson", K::BadJson),
        ("BadState", K::BadState),
        ("BadStatus/none", K::BadStatus { status: None, body: None }),
        ("BadStatus/both", K::BadStatus { status: Some(http::StatusCode::BAD_GATEWAY), body: Some("upstream said \"no\"".into()) }),
        ("CannotLeaveServerNoticeRoom", K::CannotLeaveServerNoticeRoom),
        ("CannotOverwriteMedia", K::CannotOverwriteMedia),
        ("CaptchaInvalid", K::CaptchaInvalid),
        ("CaptchaNeeded", K::CaptchaNeeded),
        ("ConnectionFailed", K::ConnectionFailed),
        ("ConnectionTimeout", K::ConnectionTimeout),
        ("DuplicateAnnotation", K::DuplicateAnnotation),
        ("Exclusive", K::Exclusive),
        ("Forbidden", K::forbidden()),
        ("GuestAccessForbidden", K::GuestAccessForbidden),
        ("IncompatibleRoomVersion/v11", K::IncompatibleRoomVersion { room_version: ruma_common::RoomVersionId::V11 }),
        ("IncompatibleRoomVersion/custom", K::IncompatibleRoomVersion { room_version: ruma_common::RoomVersionId::try_from("org.example.x").unwrap() }),
        ("InvalidParam", K::InvalidParam),
        ("InvalidRoomState", K::InvalidRoomState),
        ("InvalidUsername", K::InvalidUsername),
        ("LimitExceeded/none", K::LimitExceeded { retry_after: None }),
        ("LimitExceeded/delay", K::LimitExceeded { retry_after: Some(RetryAfter::Delay(Duration::from_secs(12))) }),
        // an HTTP date: whole seconds; dates the header format cannot express must be refused by the encoder
        ("LimitExceeded/date", K::LimitExceeded { retry_after: Some(RetryAfter::DateTime(std::time::UNIX_EPOCH + Duration::from_secs(1_700_000_000))) }),
        ("LimitExceeded/date-epoch", K::LimitExceeded { retry_after: Some(RetryAfter::DateTime(std::time::UNIX_EPOCH)) }),
        ("LimitExceeded/date-before-epoch", K::LimitExceeded { retry_after: Some(RetryAfter::DateTime(std::time::UNIX_EPOCH - Duration::from_secs(1))) }),
        ("LimitExceeded/date-year-10000", K::LimitExceeded { retry_after: Some(RetryAfter::DateTime(std::time::UNIX_EPOCH + Duration::from_secs(253_402_300_800))) }),
        ("MissingParam", K::MissingParam),
        ("MissingToken", K::MissingToken),
        ("NotFound", K::NotFound),
        ("NotJson", K::NotJson),
        ("NotYetUploaded", K::NotYetUploaded),
        ("ResourceLimitExceeded", K::ResourceLimitExceeded { admin_contact: "mailto:admin@example.org".into() }),
        ("ResourceLimitExceeded/empty", K::ResourceLimitExceeded { admin_contact: String::new() }),
        ("RoomInUse", K::RoomInUse),
        ("ServerNotTrusted", K::ServerNotTrusted),
        ("ThreepidAuthFailed", K::ThreepidAuthFailed),
        ("ThreepidDenied", K::ThreepidDenied),
        ("ThreepidInUse", K::ThreepidInUse),
        ("ThreepidMediumNotSupported", K::ThreepidMediumNotSupported),
        ("ThreepidNotFound", K::ThreepidNotFound),
        ("TooLarge", K::TooLarge),
        ("UnableToAuthorizeJoin", K::UnableToAuthorizeJoin),
        ("UnableToGrantJoin", K::UnableToGrantJoin),
        ("Unauthorized", K::Unauthorized),
        ("Unknown", K::Unknown),
        ("UnknownToken/soft", K::UnknownToken { soft_logout: true }),
        ("UnknownToken/hard", K::UnknownToken { soft_logout: false }),
        ("Unrecognized", K::Unrecognized),
        ("UnsupportedRoomVersion", K::UnsupportedRoomVersion),
        ("UrlNotSet", K::UrlNotSet),
        ("UserDeactivated", K::UserDeactivated),
        ("UserInUse", K::UserInUse),
        ("UserLocked", K::UserLocked),
        ("UserSuspended", K::UserSuspended),
        ("WeakPassword", K::WeakPassword),
        ("WrongRoomKeysVersion/none", K::WrongRoomKeysVersion { current_version: None }),
        ("WrongRoomKeysVersion/some", K::WrongRoomKeysVersion { current_version: Some("42".into()) }),
    ]
}

const ERROR_STATUSES: [u16; 6] = [400, 401, 403, 404, 429, 500];

fn eval_error(kind_idx: usize, status: u16, message: &str, t: &mut Tally) -> Vec<(String, String)> {
    use ruma_client_api::error::{Error, ErrorBody};
    use ruma_common::api::EndpointError;
    let kinds = error_kinds();
    let (name, kind) = &kinds[kind_idx % kinds.len()];
    let status = http::StatusCode::from_u16(status).unwrap_or(http::StatusCode::BAD_REQUEST);
    let err = Error::new(status, ErrorBody::Standard { kind: kind.clone(), message: message.to_owned() });
    let before = format!("{err:?}");
    t.transitions += 1;
    let http1 = match catch(|| err.try_into_http_response::<Vec<u8>>()) {
        Err(p) => return vec![(format!("error/{name}/panic-encode"), p.text)],
        Ok(Err(e)) => {
            // "for every field content the encoder accepts": only the two dates outside the HTTP date range may be refused
            t.outcome("client-error-encode", "refused");
            return if name.ends_with("date-before-epoch") || name.ends_with("date-year-10000") {
                vec![]
            } else {
                vec![(format!("error/{name}/encode-error"), format!("{before}: {e}"))]
            };
        }
        Ok(Ok(r)) => r,
    };
    t.outcome("client-error-encode", "accepted");
    let m1 = Msg::of_response(&http1);
    t.transitions += 1;
    let back = match catch(|| Error::from_http_response(http1)) {
        Err(p) => return vec![(format!("error/{name}/panic-decode"), p.text)],
        Ok(b) => b,
    };
    let after = format!("{back:?}");
    t.outcome("client-error", if matches!(back.body, ErrorBody::Standard { .. }) { "standard" } else { "degraded" });
    if after != before {
        return vec![(format!("error/{name}/value-changed"), format!("{before} sent as {} arrives as {after}", m1.show()))];
    }
    t.transitions += 1;
    match catch(|| back.try_into_http_response::<Vec<u8>>()) {
        Err(p) => vec![(format!("error/{name}/panic-encode"), p.text)],
        Ok(Err(e)) => vec![(format!("error/{name}/reencode-error"), format!("{before}: {e}"))],
        Ok(Ok(r)) => {
            let m2 = Msg::of_response(&r);
            if m2 != m1 {
                vec![(format!("error/{name}/reencode-differs"), format!("{} vs {}", m1.show(), m2.show()))]
            } else {
                vec![]
            }
        }
    }
}

fn replay_case(case: &Value, tier: Tier) -> Vec<(String, String)> {
    let mut t = Tally::new();
    let part = case["part"].as_str().unwrap_or("");
    match part {
        "endpoint" => {
            let mut eps = syn_endpoints();
            eps.extend(real_endpoints());
            let Some(ep) = eps.iter().find(|e| Some(e.name.as_str()) == case["ep"].as_str()) else {
                engine::machinery_error("replay: unknown endpoint")
            };
            let fields: Vec<FV> = serde_json::from_value(case["fields"].clone())
                .unwrap_or_else(|e| engine::machinery_error(&format!("replay: {e}")));
            MINIMA.lock().unwrap().clear();
            match (ep.eval)(&fields, &mut t) {
                Some(f) => vec![(ep_sig(ep, &fields, &f), f.detail)],
                None => vec![],
            }
        }
        "version" => {
            let all = all_versions();
            let mask = case["mask"].as_u64().unwrap_or(0) as u32;
            let h = if case["kind"] == "real" {
                real_hists(&all).into_iter().find(|h| Some(h.name.as_str()) == case["name"].as_str())
            } else {
                let _ = tier;
                let ranks = |v: &Value| -> Vec<usize> {
                    v.as_array().map(|a| a.iter().filter_map(|x| x.as_u64().map(|x| x as usize)).collect()).unwrap_or_default()
                };
                Some(make_syn_hist(
                    &all,
                    case["n_unstable"].as_u64().unwrap_or(0) as usize,
                    &ranks(&case["stable"]),
                    case["deprecated"].as_u64().map(|x| x as usize),
                    case["removed"].as_u64().map(|x| x as usize),
                ))
            };
            let Some(h) = h else { engine::machinery_error("replay: unknown history") };
            eval_version(&h, &all, mask, &mut t)
        }
        "auth" => eval_auth(
            case["ep"].as_u64().unwrap_or(0) as usize,
            case["kind"].as_u64().unwrap_or(0) as usize,
            case["token"].as_str().unwrap_or(""),
            &mut t,
        ),
        "xmatrix" => {
            let c: XmCase = serde_json::from_value(case["case"].clone())
                .unwrap_or_else(|e| engine::machinery_error(&format!("replay: {e}")));
            eval_xmatrix(&c, &mut t).into_iter().map(|f| (xm_sig(&c, &f), f.detail)).collect()
        }
        "error" => eval_error(
            case["kind"].as_u64().unwrap_or(0) as usize,
            case["status"].as_u64().unwrap_or(400) as u16,
            case["message"].as_str().unwrap_or(""),
            &mut t,
        ),
        _ => engine::machinery_error("replay: unknown part"),
    }
}

fn hist_case_json(h: &Hist, mask: u32) -> Value {
    if h.kind == "real" {
        json!({"part": "version", "kind": "real", "name": h.name, "mask": mask})
    } else {
        json!({"part": "version", "kind": "syn", "n_unstable": h.unstable.len(),
               "stable": h.stable.iter().map(|(r, _)| *r).collect::<Vec<_>>(),
               "deprecated": h.deprecated, "removed": h.removed, "mask": mask})
    }
}

// ---------------------------------------------------------------------------------------

fn main() {
    let args = parse_args();
    if let Some(p) = &args.replay {
        let tier = args.tier;
        replay_and_exit("C16", p, |v| replay_case(v, tier));
    }
    let tier = args.tier;
    let report = Report::new("C16", "model_checking", &args);
    let all = all_versions();
    if all.len() < 15 || all.len() > 18 {
        engine::machinery_error(&format!("{} MatrixVersion variants discovered; the subset enumeration expects 15..=18", all.len()));
    }
    report.set_rule(&format!(
        "(a) 15 synthetic endpoints built with ruma's request/response/metadata! macros (1-3 path fields; query scalar/Option/Vec; \
         query_all struct and map; header required/optional; JSON body String/Option/default+skip/Vec; newtype body; raw body; mixed; \
         responses with body/header/raw body/newtype body; GET/PUT/POST; all 6 AuthSchemes): each field in turn takes every string of \
         <= {len} symbols over the 14-symbol alphabet {ALPHABET:?} (Option: + absent; Vec: length 0, 1 and 2 with the second element from {{\"\", a, &}}, both orders) while the other \
         fields cycle through all values of <= 1 symbol (endpoints with > 3 fields: 3 representatives per field){pairs}; each case: try_into_http_request -> segment-wise routing + percent-decoding -> \
         try_from_http_request -> equal value -> re-encode -> identical (method, URI, headers, body); likewise responses. \
         (b) {nreal} real request/response types (client, federation, appservice, identity, push gateway), path / free parameters over the \
         same alphabet and bound. (c) every subset of the {nv} MatrixVersion variants (2^{nv}), listed oldest-first, newest-first and rotated, x the history of every endpoint of the five \
         API crates ({nmeta} METADATA consts) x synthetic histories (<= 2 unstable paths, stable paths at <= 3 of 5 versions, deprecated / \
         removed at every legal position{ladder}): make_endpoint_url and versioning_decision_for vs the reference selection. \
         (e) client-server error responses: every ErrorKind of the default feature set with its extra fields x 6 status codes x every message of <= 2 symbols, Error -> http::Response -> Error::from_http_response -> re-encode; \
         (d) authorization header: 6 schemes x 4 SendAccessToken kinds x every token of <= 2 symbols (+ control characters); \
         XMatrix: 5 server names x 3 destinations x key algorithm = every string of <= {xl} symbols over {XM_ALPHABET:?} x 2 key versions \
         x 5 signatures. state = one distinct complete input; transition = one call of a real conversion / selection function",
        len = tier.pick(2, 3),
        pairs = tier.pick("", ", plus every pair of fields at <= 2 symbols each"),
        nreal = real_endpoints().len(),
        nv = all.len(),
        nmeta = all_endpoint_metadata().len(),
        ladder = tier.pick(" taken from a 7-version ladder", ""),
        xl = tier.pick(2, 3),
    ));
    report.assume("receiving side = segment-by-segment template match with RFC 3986 percent-decoding of each captured segment (mc_api::route); an invalid escape stays literal, non-UTF-8 is unroutable; dot-segment normalisation by HTTP clients is not modelled");
    report.assume("an encoder refusal (Err from try_into_http_*) is not a violation: the property quantifies over contents the encoder accepts");
    report.assume("real endpoints: value identity = Debug rendering of the request / response");
    report.assume("version sets mixing versions below and at/above `removed` are Unspecified where the strict and ruma's documented reading differ (DESIGN §1.3)");
    report.require_outcomes("path-encoding", 2);
    report.require_outcomes("version-select", 3);
    report.require_outcomes("auth", 3);
    report.require_outcomes("xmatrix", 2);
    report.require_outcomes("real-build", 2);

    // ---- (a) synthetic + (b) real endpoints
    let only = std::env::var("C16_ONLY").unwrap_or_default(); // development aid: a subset of "abcd"
    let run = |p: &str| only.is_empty() || only.contains(p);
    let mut eps = vec![];
    if run("a") {
        eps.extend(syn_endpoints());
    }
    let n_syn = eps.len();
    if run("b") {
        eps.extend(real_endpoints());
    }
    let shards: Vec<Shard> = eps.iter().enumerate().flat_map(|(e, ep)| ep_shards(e, ep, tier)).collect();
    let per_ep: Vec<AtomicU64> = eps.iter().map(|_| AtomicU64::new(0)).collect();
    par_shards(&report, shards.len(), |i, t| {
        let sh = &shards[i];
        let ep = &eps[sh.ep];
        let mut n = 0u64;
        sh.for_each(&mut |case| {
            n += 1;
            t.states += 1;
            t.nontrivial += 1;
            if let Some(f) = (ep.eval)(&case, t) {
                let sig = ep_sig(ep, &case, &f);
                report.violation(&sig, || format!("{}: {}", ep.name, f.detail), || json!({"part": "endpoint", "ep": ep.name, "fields": case}));
            }
            if n % 1500 == 700 {
                t.sample(|| json!({"part": "endpoint", "ep": ep.name, "fields": case.iter().map(FV::show).collect::<Vec<_>>()}));
            }
        });
        per_ep[sh.ep].fetch_add(n, Relaxed);
    });
    let ep_counts: Vec<Value> =
        eps.iter().zip(&per_ep).map(|(ep, n)| json!({"endpoint": ep.name, "group": ep.group, "cases": n.load(Relaxed)})).collect();

    // ---- (c) version selection
    let mut hists = if run("c") { real_hists(&all) } else { vec![] };
    let n_real_hists = hists.len();
    if run("c") {
        hists.extend(syn_hists(&all, tier));
    }
    let n_masks = 1u32 << all.len();
    par_shards(&report, hists.len(), |i, t| {
        let h = &hists[i];
        for mask in 0..n_masks {
            t.states += 1;
            for (sig, detail) in eval_version(h, &all, mask, t) {
                report.violation(&sig, || detail, || hist_case_json(h, mask));
            }
        }
        if i % 97 == 0 {
            t.sample(|| json!({"part": "version", "history": h.name, "subsets": n_masks}));
        }
    });

    // ---- (d) authorization header, XMatrix
    let mut tokens = strings_upto(&ALPHABET, 2);
    tokens.extend(["a\nb".to_owned(), "\t".to_owned(), "a\u{7f}".to_owned(), "\0".to_owned()]);
    par_shards(&report, if run("d") { AUTH_EPS.len() * TOKEN_KINDS.len() } else { 0 }, |i, t| {
        let (ep, kind) = (i / TOKEN_KINDS.len(), i % TOKEN_KINDS.len());
        for tok in &tokens {
            if kind == 0 && !tok.is_empty() {
                continue; // SendAccessToken::None carries no token
            }
            t.states += 1;
            t.nontrivial += 1;
            for (sig, detail) in eval_auth(ep, kind, tok, t) {
                report.violation(&sig, || detail, || json!({"part": "auth", "ep": ep, "kind": kind, "token": tok}));
            }
        }
    });
    let algs: Vec<String> = strings_upto(&XM_ALPHABET, tier.pick(2, 3)).into_iter().filter(|s| !s.is_empty()).collect();
    let sigs = xm_sigs();
    par_shards(&report, if run("d") { XM_SERVERS.len() } else { 0 }, |i, t| {
        let origin = XM_SERVERS[i];
        for dest in [None, Some(XM_SERVERS[(i + 1) % XM_SERVERS.len()]), Some(origin)] {
            for alg in &algs {
                for ver in XM_VERSIONS {
                    for sig in &sigs {
                        let c = XmCase {
                            origin: origin.to_owned(),
                            destination: dest.map(str::to_owned),
                            alg: alg.clone(),
                            ver: ver.to_owned(),
                            sig: sig.clone(),
                        };
                        t.states += 1;
                        t.nontrivial += 1;
                        for f in eval_xmatrix(&c, t) {
                            let s = xm_sig(&c, &f);
                            report.violation(&s, || f.detail.clone(), || json!({"part": "xmatrix", "case": c}));
                        }
                    }
                }
            }
        }
    });

    // ---- (e) client-server error responses
    let n_kinds = error_kinds().len();
    let messages = strings_upto(&ALPHABET, 2);
    par_shards(&report, if run("e") { n_kinds } else { 0 }, |ki, t| {
        for status in ERROR_STATUSES {
            for m in &messages {
                t.states += 1;
                t.nontrivial += 1;
                for (sig, detail) in eval_error(ki, status, m, t) {
                    report.violation(&sig, || detail, || json!({"part": "error", "kind": ki, "status": status, "message": m}));
                }
            }
        }
    });
    report.set("client_error_kinds", json!(n_kinds));

    report.set("matrix_versions", json!(all.iter().map(|v| v.as_str().unwrap_or("1.0 (r0.x)")).collect::<Vec<_>>()));
    report.set("version_subsets", json!(n_masks));
    report.set("real_endpoint_histories", json!(n_real_hists));
    report.set("synthetic_histories", json!(hists.len() - n_real_hists));
    report.set("synthetic_endpoints", json!(n_syn));
    report.set("real_endpoint_types", json!(eps.len() - n_syn));
    report.set("endpoint_cases", json!(ep_counts));
    report.finish()
}

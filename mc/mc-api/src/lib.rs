//! shared helpers for the checks in this crate (C16, C19)

pub mod endpoints;

use std::fmt::Write as _;

use serde::{Deserialize, Serialize};

/// The C16 field alphabet (DESIGN §3 C16): `a / % ? # + & = space é . : \`` plus the
/// multi-character symbol `%2F` (an already percent-encoded slash, the shortest input on which a
/// missing `%` in the path encode set is visible — DESIGN §4 #10). Simplest first.
pub const ALPHABET: [&str; 14] =
    ["a", "/", "%", "?", "#", "+", "&", "=", " ", "é", ".", ":", "`", "%2F"];

/// All strings of `0..=max_len` symbols over `alphabet`, length-then-lexicographic.
pub fn strings_upto(alphabet: &[&str], max_len: usize) -> Vec<String> {
    let mut out = vec![];
    engine::for_all_strings(alphabet, max_len, &mut |s| out.push(s.to_owned()));
    out
}

// ---------------------------------------------------------------------------------------
// "standard routing": segment-wise template match + percent-decoding of captured segments.
// Written here from RFC 3986 §2.1 (pct-encoded = "%" HEXDIG HEXDIG); nothing of ruma or of the
// percent-encoding crate is used on the receiving side.

fn hex(b: u8) -> Option<u8> {
    match b {
        b'0'..=b'9' => Some(b - b'0'),
        b'a'..=b'f' => Some(b - b'a' + 10),
        b'A'..=b'F' => Some(b - b'A' + 10),
        _ => None,
    }
}

/// Percent-decode one path segment. A `%` not followed by two hex digits is kept literally (what
/// the usual routers do); a decoded byte sequence that is not UTF-8 makes the segment unroutable.
pub fn percent_decode(seg: &str) -> Option<String> {
    let b = seg.as_bytes();
    let mut out = Vec::with_capacity(b.len());
    let mut i = 0;
    while i < b.len() {
        if b[i] == b'%' && i + 2 < b.len() {
            if let (Some(h), Some(l)) = (hex(b[i + 1]), hex(b[i + 2])) {
                out.push(h * 16 + l);
                i += 3;
                continue;
            }
        }
        out.push(b[i]);
        i += 1;
    }
    String::from_utf8(out).ok()
}

/// Match `path` (the path component of the request URI) against a ruma path template
/// (`/_matrix/x/:arg/y`), segment by segment; returns the percent-decoded captures.
pub fn route(template: &str, path: &str) -> Option<Vec<String>> {
    let t: Vec<&str> = template.split('/').collect();
    let p: Vec<&str> = path.split('/').collect();
    if t.len() != p.len() {
        return None;
    }
    let mut caps = vec![];
    for (ts, ps) in t.iter().zip(&p) {
        if ts.starts_with(':') {
            caps.push(percent_decode(ps)?);
        } else if ts != ps {
            return None;
        }
    }
    Some(caps)
}

/// Route against every template of an endpoint; the first match wins.
pub fn route_any<'a>(templates: impl Iterator<Item = &'a str>, path: &str) -> Option<Vec<String>> {
    for t in templates {
        if let Some(c) = route(t, path) {
            return Some(c);
        }
    }
    None
}

// ---------------------------------------------------------------------------------------
// snapshots of HTTP messages for the "identical message" comparison

#[derive(Clone, Debug, PartialEq, Eq)]
pub struct Msg {
    /// method (requests) or status code (responses)
    pub head: String,
    pub uri: String,
    /// (name, value bytes), sorted
    pub headers: Vec<(String, Vec<u8>)>,
    pub body: Vec<u8>,
}

fn headers_of(h: &http::HeaderMap) -> Vec<(String, Vec<u8>)> {
    let mut v: Vec<(String, Vec<u8>)> =
        h.iter().map(|(k, v)| (k.as_str().to_owned(), v.as_bytes().to_vec())).collect();
    v.sort();
    v
}

impl Msg {
    pub fn of_request(r: &http::Request<Vec<u8>>) -> Msg {
        Msg {
            head: r.method().as_str().to_owned(),
            uri: r.uri().to_string(),
            headers: headers_of(r.headers()),
            body: r.body().clone(),
        }
    }
    pub fn of_response(r: &http::Response<Vec<u8>>) -> Msg {
        Msg {
            head: r.status().as_u16().to_string(),
            uri: String::new(),
            headers: headers_of(r.headers()),
            body: r.body().clone(),
        }
    }
    pub fn show(&self) -> String {
        let mut s = format!("{} {}", self.head, self.uri);
        for (k, v) in &self.headers {
            let _ = write!(s, " | {k}: {}", String::from_utf8_lossy(v));
        }
        let _ = write!(s, " | body={}", String::from_utf8_lossy(&self.body));
        s
    }
}

// ---------------------------------------------------------------------------------------
// field values of the synthetic endpoints

/// One enumerated field value: absent (optional fields), a string, or a list of strings.
#[derive(Clone, Debug, PartialEq, Eq, Serialize, Deserialize)]
pub enum FV {
    Absent,
    S(String),
    L(Vec<String>),
}

#[derive(Clone, Copy, Debug, PartialEq, Eq)]
pub enum FK {
    Str,
    Opt,
    List,
}

impl FV {
    pub fn is_trivial(&self) -> bool {
        match self {
            FV::Absent => true,
            FV::S(s) => s.is_empty(),
            FV::L(l) => l.is_empty(),
        }
    }
    pub fn show(&self) -> String {
        match self {
            FV::Absent => "<absent>".into(),
            FV::S(s) => s.clone(),
            FV::L(l) => format!("[{}]", l.join(",")),
        }
    }
    /// strictly simpler values to try while minimising a counterexample
    pub fn shrinks(&self, kind: FK) -> Vec<FV> {
        fn del_chars(s: &str) -> Vec<String> {
            let idx: Vec<usize> = s.char_indices().map(|(i, _)| i).collect();
            let mut out = vec![];
            // last character first: `%2Fa` shrinks to `%2F`, not to `%2a`
            for (n, &i) in idx.iter().enumerate().rev() {
                let end = idx.get(n + 1).copied().unwrap_or(s.len());
                out.push(format!("{}{}", &s[..i], &s[end..]));
            }
            out
        }
        let mut out = vec![];
        match self {
            FV::Absent => {}
            FV::S(s) => {
                if kind == FK::Opt {
                    out.push(FV::Absent);
                }
                out.extend(del_chars(s).into_iter().map(FV::S));
            }
            FV::L(l) => {
                for i in 0..l.len() {
                    let mut m = l.clone();
                    m.remove(i);
                    out.push(FV::L(m));
                }
                for i in 0..l.len() {
                    for d in del_chars(&l[i]) {
                        let mut m = l.clone();
                        m[i] = d;
                        out.push(FV::L(m));
                    }
                }
            }
        }
        out
    }
}

/// Conversion between an enumerated [`FV`] and the Rust type of a synthetic endpoint field.
pub trait Slot: Sized {
    const KIND: FK;
    fn from_fv(v: &FV) -> Self;
    fn to_fv(&self) -> FV;
}

impl Slot for String {
    const KIND: FK = FK::Str;
    fn from_fv(v: &FV) -> Self {
        match v {
            FV::S(s) => s.clone(),
            _ => String::new(),
        }
    }
    fn to_fv(&self) -> FV {
        FV::S(self.clone())
    }
}

impl Slot for Option<String> {
    const KIND: FK = FK::Opt;
    fn from_fv(v: &FV) -> Self {
        match v {
            FV::S(s) => Some(s.clone()),
            _ => None,
        }
    }
    fn to_fv(&self) -> FV {
        match self {
            Some(s) => FV::S(s.clone()),
            None => FV::Absent,
        }
    }
}

/// `Content-Disposition` header fields: the string is the file name of an `attachment`; two symbols of the
/// common alphabet stand for the characters the header syntax quotes and escapes (`` ` `` = backslash,
/// `%2F` = double quote), so that they occur at every position, the last one included
impl Slot for Option<ruma_common::http_headers::ContentDisposition> {
    const KIND: FK = FK::Opt;
    fn from_fv(v: &FV) -> Self {
        use ruma_common::http_headers::{ContentDisposition, ContentDispositionType};
        match v {
            FV::S(s) => Some(
                ContentDisposition::new(ContentDispositionType::Attachment)
                    .with_filename(Some(s.replace('`', "\\").replace("%2F", "\""))),
            ),
            _ => None,
        }
    }
    fn to_fv(&self) -> FV {
        match self {
            Some(cd) => FV::S(format!(
                "{}{}",
                if cd.disposition_type == ruma_common::http_headers::ContentDispositionType::Attachment { "" } else { "<not an attachment>" },
                cd.filename.as_deref().map(|f| f.replace('\\', "`").replace('"', "%2F")).unwrap_or_else(|| "<no filename>".into())
            )),
            None => FV::Absent,
        }
    }
}

/// a newtype body that can be JSON `null`: the empty list of the menu stands for `None`
impl Slot for Option<Vec<String>> {
    const KIND: FK = FK::List;
    fn from_fv(v: &FV) -> Self {
        match v {
            FV::L(l) if !l.is_empty() => Some(l.clone()),
            _ => None,
        }
    }
    fn to_fv(&self) -> FV {
        FV::L(self.clone().unwrap_or_default())
    }
}

impl Slot for Vec<String> {
    const KIND: FK = FK::List;
    fn from_fv(v: &FV) -> Self {
        match v {
            FV::L(l) => l.clone(),
            _ => vec![],
        }
    }
    fn to_fv(&self) -> FV {
        FV::L(self.clone())
    }
}

/// raw bodies: the bytes of the string
impl Slot for Vec<u8> {
    const KIND: FK = FK::Str;
    fn from_fv(v: &FV) -> Self {
        match v {
            FV::S(s) => s.as_bytes().to_vec(),
            _ => vec![],
        }
    }
    fn to_fv(&self) -> FV {
        FV::S(String::from_utf8_lossy(self).into_owned())
    }
}

/// query_all maps: the list is read as consecutive (key, value) pairs (a trailing key gets "")
impl Slot for Vec<(String, String)> {
    const KIND: FK = FK::List;
    fn from_fv(v: &FV) -> Self {
        match v {
            FV::L(l) => l
                .chunks(2)
                .map(|c| (c[0].clone(), c.get(1).cloned().unwrap_or_default()))
                .collect(),
            _ => vec![],
        }
    }
    fn to_fv(&self) -> FV {
        FV::L(self.iter().flat_map(|(k, v)| [k.clone(), v.clone()]).collect())
    }
}

/// Values a field of `kind` takes: `hot` = every string of ≤ `len` symbols (the enumerated
/// dimension), otherwise the small cold set (≤ 1 symbol).
pub fn values_of(kind: FK, len: usize) -> Vec<FV> {
    let strs = strings_upto(&ALPHABET, len);
    match kind {
        FK::Str => strs.into_iter().map(FV::S).collect(),
        FK::Opt => std::iter::once(FV::Absent).chain(strs.into_iter().map(FV::S)).collect(),
        FK::List => {
            // length 0, 1 (every string), 2 (every string × {"", "a", "&"}, both orders)
            let short: Vec<String> = ["", "a", "&"].iter().map(|s| (*s).to_owned()).collect();
            let mut out = vec![FV::L(vec![])];
            out.extend(strs.iter().map(|s| FV::L(vec![s.clone()])));
            for s in &strs {
                for t in &short {
                    out.push(FV::L(vec![s.clone(), t.clone()]));
                    if s != t {
                        out.push(FV::L(vec![t.clone(), s.clone()]));
                    }
                }
            }
            let mut seen = std::collections::HashSet::new();
            out.retain(|v| seen.insert(format!("{v:?}")));
            out
        }
    }
}

/// cold values of a kind (what the non-enumerated fields cycle through): every value of ≤ 1
/// symbol for endpoints with ≤ 3 fields, three representatives otherwise
pub fn cold_values(kind: FK, n_fields: usize) -> Vec<FV> {
    match kind {
        FK::Str | FK::Opt if n_fields <= 3 => values_of(kind, 1),
        FK::Str => ["", "a", "&"].iter().map(|s| FV::S((*s).to_owned())).collect(),
        FK::Opt => vec![FV::Absent, FV::S(String::new()), FV::S("a".into())],
        FK::List => vec![FV::L(vec![]), FV::L(vec!["a".into()]), FV::L(vec!["".into(), "&".into()])],
    }
}

/// `m` can be obtained from `c` by the shrink steps of [`FV::shrinks`] (character deletions,
/// element deletions, present → absent)
pub fn embeds(m: &FV, c: &FV) -> bool {
    fn subseq(m: &str, c: &str) -> bool {
        let mut it = c.chars();
        m.chars().all(|x| it.any(|y| y == x))
    }
    fn list(m: &[String], c: &[String]) -> bool {
        match m.split_first() {
            None => true,
            Some((m0, rest)) => (0..c.len()).any(|i| subseq(m0, &c[i]) && list(rest, &c[i + 1..])),
        }
    }
    match (m, c) {
        (FV::Absent, _) => true,
        (FV::S(m), FV::S(c)) => subseq(m, c),
        (FV::L(m), FV::L(c)) => list(m, c),
        _ => false,
    }
}

#[cfg(test)]
mod tests {
    use super::*;
    #[test]
    fn decode() {
        assert_eq!(percent_decode("a%2Fb").as_deref(), Some("a/b"));
        assert_eq!(percent_decode("%").as_deref(), Some("%"));
        assert_eq!(percent_decode("%a").as_deref(), Some("%a"));
        assert_eq!(percent_decode("%2").as_deref(), Some("%2"));
        assert_eq!(percent_decode("%25").as_deref(), Some("%"));
        assert_eq!(percent_decode("%C3%A9").as_deref(), Some("é"));
        assert_eq!(percent_decode("%aa"), None);
        assert_eq!(route("/x/:a/y", "/x/b%20c/y"), Some(vec!["b c".to_owned()]));
        assert_eq!(route("/x/:a/y", "/x/b/c/y"), None);
        assert!(embeds(&FV::S("%2F".into()), &FV::S("a%2/F".into())));
        assert!(!embeds(&FV::S("%2F".into()), &FV::S("%F2".into())));
        assert!(embeds(&FV::L(vec!["".into(), "".into()]), &FV::L(vec!["a".into(), "b".into(), "".into()])));
        assert!(!embeds(&FV::L(vec!["a".into(), "".into()]), &FV::L(vec!["a".into()])));
    }
}

//! shared helpers for the checks in this crate

//! Shared helpers for C14 / C15: the Matrix HTML allow-list tables (typed in from the spec,
//! DESIGN.md Appendix A.5 — never imported from ruma-html), a description of sanitizer
//! configurations with the documented builder semantics, the reference oracles that walk
//! ruma-html's public tree API, and the bounded-exhaustive input generators.

use std::fmt::Write as _;

use ruma_html::{
    ElementAttributesReplacement, ElementAttributesSchemes, Html, HtmlSanitizerMode, ListBehavior,
    NameReplacement, NodeData, NodeRef, PropertiesNames, SanitizerConfig,
};

// ---------------------------------------------------------------------------------------
// spec tables (Matrix client-server spec, m.room.message msgtypes; DESIGN Appendix A.5)

pub mod spec {
    /// Elements of the allow-list (without `mx-reply`, which is allowed unless fallbacks are removed).
    pub const ELEMENTS: [&str; 37] = [
        "del", "h1", "h2", "h3", "h4", "h5", "h6", "blockquote", "p", "a", "ul", "ol", "sup", "sub",
        "li", "b", "i", "u", "strong", "em", "s", "code", "hr", "br", "div", "table", "thead",
        "tbody", "tr", "th", "td", "caption", "pre", "span", "img", "details", "summary",
    ];
    pub const REPLY: &str = "mx-reply";
    /// deprecated element -> replacement
    pub const DEPRECATED_ELEMENTS: [(&str, &str); 2] = [("font", "span"), ("strike", "s")];
    /// (deprecated element, deprecated attribute, replacement attribute)
    pub const DEPRECATED_ATTRS: [(&str, &str, &str); 1] = [("font", "color", "data-mx-color")];
    pub const MAX_DEPTH: u32 = 100;
    pub const CODE_CLASS_PATTERN: &str = "language-*";

    pub fn attrs(el: &str) -> &'static [&'static str] {
        match el {
            "span" => &["data-mx-bg-color", "data-mx-color", "data-mx-spoiler", "data-mx-maths"],
            "a" => &["target", "href"],
            "img" => &["width", "height", "alt", "title", "src"],
            "ol" => &["start"],
            "code" => &["class"],
            "div" => &["data-mx-maths"],
            _ => &[],
        }
    }

    /// allowed URI schemes of (element, attribute) in strict mode
    pub fn schemes(el: &str, attr: &str) -> Option<&'static [&'static str]> {
        match (el, attr) {
            ("a", "href") => Some(&["https", "http", "ftp", "mailto", "magnet"]),
            ("img", "src") => Some(&["mxc"]),
            _ => None,
        }
    }

    /// additional schemes of compat mode
    pub fn compat_schemes(el: &str, attr: &str) -> Option<&'static [&'static str]> {
        match (el, attr) {
            ("a", "href") => Some(&["matrix"]),
            _ => None,
        }
    }

    pub fn classes(el: &str) -> &'static [&'static str] {
        match el {
            "code" => &[CODE_CLASS_PATTERN],
            _ => &[],
        }
    }
}

// ---------------------------------------------------------------------------------------
// configuration description + documented semantics (sanitizer_config.rs doc comments)

pub type Names = &'static [&'static str];
pub type PerEl = &'static [(&'static str, Names)];
pub type Repl = &'static [(&'static str, &'static str)];
pub type PerElRepl = &'static [(&'static str, Repl)];
pub type Schemes = &'static [(&'static str, PerEl)];

#[derive(Clone, Copy, Debug, PartialEq, Eq)]
pub enum Mode {
    Strict,
    Compat,
}

#[derive(Clone, Copy, Debug, PartialEq, Eq)]
pub enum Beh {
    Override,
    Add,
}

impl Beh {
    fn to_ruma(self) -> ListBehavior {
        match self {
            Beh::Override => ListBehavior::Override,
            Beh::Add => ListBehavior::Add,
        }
    }
}

#[derive(Clone, Debug, Default)]
pub struct Cfg {
    pub name: &'static str,
    /// one of the four plain mode configurations (no builder list)
    pub main: bool,
    pub mode: Option<Mode>,
    pub rrf: bool,
    pub allow_elements: Option<(Names, Beh)>,
    pub ignore_elements: Option<Names>,
    pub remove_elements: Option<Names>,
    pub replace_elements: Option<(Repl, Beh)>,
    pub allow_attrs: Option<(PerEl, Beh)>,
    pub remove_attrs: Option<PerEl>,
    pub replace_attrs: Option<(PerElRepl, Beh)>,
    pub allow_schemes: Option<(Schemes, Beh)>,
    pub deny_schemes: Option<Schemes>,
    pub allow_classes: Option<(PerEl, Beh)>,
    pub remove_classes: Option<PerEl>,
    pub max_depth: Option<u32>,
}

fn per_el<'a>(list: &'a [(&'static str, Names)], el: &str) -> Option<Names> {
    // HashMap semantics of `collect()`: the last entry of a key wins
    list.iter().rev().find(|(e, _)| *e == el).map(|(_, v)| *v)
}

/// `*` = any number of characters (documented class pattern syntax)
pub fn glob_star(pattern: &str, s: &str) -> bool {
    fn rec(p: &[u8], s: &[u8]) -> bool {
        match p.first() {
            None => s.is_empty(),
            Some(b'*') => (0..=s.len()).any(|i| rec(&p[1..], &s[i..])),
            Some(c) => s.first() == Some(c) && rec(&p[1..], &s[1..]),
        }
    }
    rec(pattern.as_bytes(), s.as_bytes())
}

/// The scheme of a URI reference as a browser would extract it: ASCII tab / newline are
/// dropped anywhere, leading C0 control / space is trimmed, then `ALPHA *( ALPHA / DIGIT / + - . ) ":"`,
/// compared case-insensitively. `None` = no scheme (relative reference).
pub fn ref_scheme(value: &str) -> Option<String> {
    let cleaned: String = value.chars().filter(|c| !matches!(c, '\t' | '\n' | '\r')).collect();
    let s = cleaned.trim_start_matches(|c: char| c <= ' ');
    let idx = s.find(':')?;
    let sch = &s[..idx];
    let mut chars = sch.chars();
    let first = chars.next()?;
    if !first.is_ascii_alphabetic() {
        return None;
    }
    if !chars.all(|c| c.is_ascii_alphanumeric() || matches!(c, '+' | '-' | '.')) {
        return None;
    }
    Some(sch.to_ascii_lowercase())
}

#[derive(Clone, Copy, Debug, PartialEq, Eq)]
pub enum Decision {
    Keep,
    Ignore,
    /// the reference does not define the answer (e.g. `HTTPS:` — an allowed scheme in a spelling
    /// the implementation may or may not recognise)
    Unspecified,
}

impl Cfg {
    pub fn strict(&self) -> bool {
        self.mode.is_some()
    }
    pub fn compat(&self) -> bool {
        self.mode == Some(Mode::Compat)
    }
    pub fn max_depth_value(&self) -> Option<u32> {
        self.max_depth.or(self.strict().then_some(spec::MAX_DEPTH))
    }

    /// label used in violation signatures: empty for the four plain mode configs
    pub fn sig_prefix(&self) -> String {
        if self.main {
            String::new()
        } else {
            format!("{}:", self.name)
        }
    }

    pub fn build(&self) -> SanitizerConfig {
        let mut c = match self.mode {
            None => SanitizerConfig::new(),
            Some(Mode::Strict) => SanitizerConfig::strict(),
            Some(Mode::Compat) => SanitizerConfig::compat(),
        };
        if self.rrf {
            c = c.remove_reply_fallback();
        }
        if let Some((l, b)) = self.allow_elements {
            c = c.allow_elements(l.iter().copied(), b.to_ruma());
        }
        if let Some(l) = self.ignore_elements {
            c = c.ignore_elements(l.iter().copied());
        }
        if let Some(l) = self.remove_elements {
            c = c.remove_elements(l.iter().copied());
        }
        if let Some((l, b)) = self.replace_elements {
            c = c.replace_elements(l.iter().map(|(o, n)| NameReplacement { old: o, new: n }), b.to_ruma());
        }
        let props = |l: PerEl| -> Vec<PropertiesNames<'static>> {
            l.iter().map(|(p, v)| PropertiesNames { parent: p, properties: v }).collect()
        };
        if let Some((l, b)) = self.allow_attrs {
            c = c.allow_attributes(props(l), b.to_ruma());
        }
        if let Some(l) = self.remove_attrs {
            c = c.remove_attributes(props(l));
        }
        if let Some((l, b)) = self.replace_attrs {
            let inner: Vec<Vec<NameReplacement>> = l
                .iter()
                .map(|(_, r)| r.iter().map(|(o, n)| NameReplacement { old: o, new: n }).collect())
                .collect();
            c = c.replace_attributes(
                l.iter().zip(&inner).map(|((el, _), r)| ElementAttributesReplacement { element: el, replacements: r }),
                b.to_ruma(),
            );
        }
        if let Some((l, b)) = self.allow_schemes {
            let inner: Vec<Vec<PropertiesNames>> = l.iter().map(|(_, a)| props(a)).collect();
            c = c.allow_schemes(
                l.iter().zip(&inner).map(|((el, _), a)| ElementAttributesSchemes { element: el, attr_schemes: a }),
                b.to_ruma(),
            );
        }
        if let Some(l) = self.deny_schemes {
            let inner: Vec<Vec<PropertiesNames>> = l.iter().map(|(_, a)| props(a)).collect();
            c = c.deny_schemes(
                l.iter().zip(&inner).map(|((el, _), a)| ElementAttributesSchemes { element: el, attr_schemes: a }),
            );
        }
        if let Some((l, b)) = self.allow_classes {
            c = c.allow_classes(props(l), b.to_ruma());
        }
        if let Some(l) = self.remove_classes {
            c = c.remove_classes(props(l));
        }
        if let Some(d) = self.max_depth {
            c = c.max_depth(d);
        }
        c
    }

    // ----- documented semantics -----

    /// element replacement (list first, then the mode's deprecated elements unless Override)
    pub fn elem_replacement(&self, name: &str) -> Option<&'static str> {
        if let Some((l, _)) = self.replace_elements {
            if let Some((_, n)) = l.iter().rev().find(|(o, _)| *o == name) {
                return Some(n);
            }
        }
        let overridden = matches!(self.replace_elements, Some((_, Beh::Override)));
        if self.strict() && !overridden {
            return spec::DEPRECATED_ELEMENTS.iter().find(|(o, _)| *o == name).map(|(_, n)| *n);
        }
        None
    }

    /// attribute replacement, looked up with the element's name *before* its own replacement
    pub fn attr_replacement(&self, el: &str, attr: &str) -> Option<&'static str> {
        if let Some((l, _)) = self.replace_attrs {
            if let Some((_, r)) = l.iter().rev().find(|(e, _)| *e == el) {
                if let Some((_, n)) = r.iter().rev().find(|(o, _)| *o == attr) {
                    return Some(n);
                }
            }
        }
        let overridden = matches!(self.replace_attrs, Some((_, Beh::Override)));
        if self.strict() && !overridden {
            return spec::DEPRECATED_ATTRS.iter().find(|(e, a, _)| *e == el && *a == attr).map(|x| x.2);
        }
        None
    }

    /// "removing has a higher priority than ignoring or allowing"
    pub fn element_removed(&self, name: &str) -> bool {
        self.remove_elements.is_some_and(|l| l.contains(&name)) || (self.rrf && name == spec::REPLY)
    }

    /// element (by its final name) may appear in the output
    pub fn element_ok(&self, name: &str) -> bool {
        if self.element_removed(name) {
            return false;
        }
        if self.ignore_elements.is_some_and(|l| l.contains(&name)) {
            return false;
        }
        if self.allow_elements.is_some() || self.strict() {
            let list = self.allow_elements.is_some_and(|(l, _)| l.contains(&name));
            let overridden = matches!(self.allow_elements, Some((_, Beh::Override)));
            let mode = self.strict() && !overridden && (spec::ELEMENTS.contains(&name) || name == spec::REPLY);
            return list || mode;
        }
        true
    }

    pub fn attr_ok(&self, el: &str, attr: &str) -> bool {
        if self.remove_attrs.and_then(|l| per_el(l, el)).is_some_and(|s| s.contains(&attr)) {
            return false;
        }
        if self.allow_attrs.is_some() || self.strict() {
            let list = self.allow_attrs.and_then(|(l, _)| per_el(l, el)).is_some_and(|s| s.contains(&attr));
            let overridden = matches!(self.allow_attrs, Some((_, Beh::Override)));
            let mode = self.strict() && !overridden && spec::attrs(el).contains(&attr);
            return list || mode;
        }
        true
    }

    /// `None` = schemes of this (element, attribute) are not restricted by an allow-list
    pub fn allowed_schemes(&self, el: &str, attr: &str) -> Option<Vec<&'static str>> {
        if self.allow_schemes.is_none() && !self.strict() {
            return None;
        }
        let list = self
            .allow_schemes
            .and_then(|(l, _)| l.iter().rev().find(|(e, _)| *e == el))
            .and_then(|(_, a)| per_el(a, attr));
        let overridden = matches!(self.allow_schemes, Some((_, Beh::Override)));
        let strict = (self.strict() && !overridden).then(|| spec::schemes(el, attr)).flatten();
        let compat = (self.compat() && !overridden).then(|| spec::compat_schemes(el, attr)).flatten();
        if list.is_none() && strict.is_none() && compat.is_none() {
            return None;
        }
        let mut v = vec![];
        for l in [list, strict, compat].into_iter().flatten() {
            v.extend_from_slice(l);
        }
        Some(v)
    }

    pub fn denied_schemes(&self, el: &str, attr: &str) -> Names {
        self.deny_schemes
            .and_then(|l| l.iter().rev().find(|(e, _)| *e == el))
            .and_then(|(_, a)| per_el(a, attr))
            .unwrap_or(&[])
    }

    pub fn class_ok(&self, el: &str, class: &str) -> bool {
        if self.remove_classes.and_then(|l| per_el(l, el)).is_some_and(|ps| ps.iter().any(|p| glob_star(p, class))) {
            return false;
        }
        if self.allow_classes.is_some() || self.strict() {
            let list = self
                .allow_classes
                .and_then(|(l, _)| per_el(l, el))
                .is_some_and(|ps| ps.iter().any(|p| glob_star(p, class)));
            let overridden = matches!(self.allow_classes, Some((_, Beh::Override)));
            let mode = self.strict() && !overridden && spec::classes(el).iter().any(|p| glob_star(p, class));
            return list || mode;
        }
        true
    }

    /// Is the URI value acceptable for (el, attr) in the *output*?  Err(label) names the scheme.
    pub fn uri_ok(&self, el: &str, attr: &str, value: &str) -> Result<(), String> {
        let sch = ref_scheme(value);
        if let Some(s) = &sch {
            if self.denied_schemes(el, attr).contains(&s.as_str()) {
                return Err(format!("denied-{s}"));
            }
        }
        if let Some(allowed) = self.allowed_schemes(el, attr) {
            match &sch {
                Some(s) if allowed.contains(&s.as_str()) => {}
                Some(s) => return Err(s.clone()),
                None => return Err("none".into()),
            }
        }
        Ok(())
    }

    /// Documented element decision from its URI attributes: a denied or not-allowed scheme makes
    /// the element ignored (children kept). `attrs` are (final name, value) pairs.
    pub fn scheme_decision(&self, el: &str, attrs: &[(String, String)]) -> Decision {
        let mut d = Decision::Keep;
        for (a, v) in attrs {
            let sch = ref_scheme(v);
            let denied = self.denied_schemes(el, a);
            if !denied.is_empty() {
                let literal = denied.iter().any(|s| v.starts_with(&format!("{s}:")));
                let by_ref = sch.as_deref().is_some_and(|s| denied.contains(&s));
                if literal && by_ref {
                    return Decision::Ignore;
                }
                if literal != by_ref {
                    d = Decision::Unspecified;
                }
            }
            if let Some(allowed) = self.allowed_schemes(el, a) {
                let literal = allowed.iter().any(|s| v.starts_with(&format!("{s}:")));
                let by_ref = sch.as_deref().is_some_and(|s| allowed.contains(&s));
                if !literal && !by_ref {
                    return Decision::Ignore;
                }
                if literal != by_ref {
                    d = Decision::Unspecified;
                }
            }
        }
        d
    }
}

// ----- the configurations explored -----

pub fn main_cfgs() -> Vec<Cfg> {
    vec![
        Cfg { name: "strict", main: true, mode: Some(Mode::Strict), ..Default::default() },
        Cfg { name: "strict-rrf", main: true, mode: Some(Mode::Strict), rrf: true, ..Default::default() },
        Cfg { name: "compat", main: true, mode: Some(Mode::Compat), ..Default::default() },
        Cfg { name: "compat-rrf", main: true, mode: Some(Mode::Compat), rrf: true, ..Default::default() },
    ]
}

pub fn to_ruma_mode(m: Mode) -> HtmlSanitizerMode {
    match m {
        Mode::Strict => HtmlSanitizerMode::Strict,
        Mode::Compat => HtmlSanitizerMode::Compat,
    }
}

/// Builder configurations: each list in `Override` and `Add` behaviour, with and without a
/// mode, removals, `max_depth`, `deny_schemes`.
pub fn builder_cfgs() -> Vec<Cfg> {
    let s = Some(Mode::Strict);
    let c = Some(Mode::Compat);
    let d = Cfg::default;
    vec![
        Cfg { name: "new", ..d() },
        Cfg { name: "new-rrf", rrf: true, ..d() },
        Cfg { name: "el-add", mode: s, allow_elements: Some((&["svg", "center", "font"], Beh::Add)), ..d() },
        Cfg { name: "el-override", mode: s, allow_elements: Some((&["b", "a", "p", "span", "img"], Beh::Override)), ..d() },
        Cfg { name: "el-nomode", allow_elements: Some((&["b", "a", "table", "tbody", "tr", "td", "code"], Beh::Add)), ..d() },
        Cfg { name: "el-ignore", mode: s, ignore_elements: Some(&["b", "td", "div"]), ..d() },
        // reply-fallback removal crossed with configurations in which `mx-reply` is not kept as an
        // element: removal has priority over ignoring / not allowing
        Cfg { name: "el-override-rrf", mode: s, rrf: true, allow_elements: Some((&["b", "a", "p", "span", "img"], Beh::Override)), ..d() },
        Cfg { name: "el-nomode-rrf", rrf: true, allow_elements: Some((&["b", "a", "table", "tbody", "tr", "td", "code"], Beh::Add)), ..d() },
        Cfg { name: "el-ignore-rrf", mode: s, rrf: true, ignore_elements: Some(&["b", "mx-reply"]), ..d() },
        Cfg { name: "el-ignore-reply", mode: c, ignore_elements: Some(&["mx-reply", "div"]), ..d() },
        Cfg { name: "el-remove", mode: s, remove_elements: Some(&["b", "script", "svg", "ol"]), ..d() },
        Cfg { name: "el-remove-compat", mode: c, rrf: true, remove_elements: Some(&["a"]), ..d() },
        Cfg { name: "repl-el-add", mode: s, replace_elements: Some((&[("b", "strong"), ("script", "code")], Beh::Add)), ..d() },
        Cfg { name: "repl-el-override", mode: s, replace_elements: Some((&[("b", "strong")], Beh::Override)), ..d() },
        Cfg {
            name: "attr-add",
            mode: s,
            allow_attrs: Some((&[("a", &["style", "class"]), ("p", &["data-mx-color"]), ("b", &["data-mx-color"])], Beh::Add)),
            ..d()
        },
        Cfg { name: "attr-override", mode: s, allow_attrs: Some((&[("a", &["href"]), ("img", &["src"])], Beh::Override)), ..d() },
        // an empty override list replaces the mode's attribute lists by nothing
        Cfg { name: "attr-override-empty", mode: s, allow_attrs: Some((&[], Beh::Override)), ..d() },
        Cfg { name: "attr-nomode", allow_attrs: Some((&[("a", &["href"]), ("code", &["class"])], Beh::Override)), ..d() },
        Cfg { name: "attr-remove", mode: s, remove_attrs: Some(&[("a", &["target", "href"]), ("span", &["data-mx-color"])]), ..d() },
        Cfg {
            name: "repl-attr-add",
            mode: s,
            replace_attrs: Some((
                &[("span", &[("style", "data-mx-bg-color")]), ("font", &[("style", "data-mx-bg-color")])],
                Beh::Add,
            )),
            ..d()
        },
        Cfg { name: "repl-attr-override", mode: s, replace_attrs: Some((&[("font", &[("style", "data-mx-bg-color")])], Beh::Override)), ..d() },
        Cfg {
            name: "scheme-add",
            mode: s,
            allow_schemes: Some((&[("img", &[("src", &["https"])]), ("a", &[("href", &["matrix"])])], Beh::Add)),
            ..d()
        },
        Cfg { name: "scheme-override", mode: s, allow_schemes: Some((&[("a", &[("href", &["https"])])], Beh::Override)), ..d() },
        // an override list replaces the mode's schemes, compat's extra ones (`matrix:`) included
        Cfg { name: "scheme-override-compat", mode: c, allow_schemes: Some((&[("a", &[("href", &["https"])])], Beh::Override)), ..d() },
        Cfg { name: "scheme-nomode", allow_schemes: Some((&[("a", &[("href", &["https"])])], Beh::Add)), ..d() },
        Cfg {
            name: "scheme-deny",
            mode: s,
            deny_schemes: Some(&[("a", &[("href", &["https", "matrix"])]), ("img", &[("src", &["mxc"])])]),
            ..d()
        },
        Cfg { name: "scheme-deny-compat", mode: c, deny_schemes: Some(&[("a", &[("href", &["matrix"])])]), ..d() },
        Cfg { name: "scheme-deny-nomode", deny_schemes: Some(&[("a", &[("href", &["javascript"])])]), ..d() },
        Cfg {
            name: "scheme-deny-override",
            mode: s,
            allow_schemes: Some((&[("img", &[("src", &["mxc"])])], Beh::Override)),
            deny_schemes: Some(&[("a", &[("href", &["javascript", "data"])])]),
            ..d()
        },
        Cfg { name: "class-add", mode: s, allow_classes: Some((&[("code", &["ev*"])], Beh::Add)), ..d() },
        Cfg { name: "class-override", mode: s, allow_classes: Some((&[("code", &["evil"])], Beh::Override)), ..d() },
        Cfg { name: "class-remove", mode: s, remove_classes: Some(&[("code", &["language-*"])]), ..d() },
        Cfg {
            name: "class-nomode",
            allow_classes: Some((&[("a", &["language-*"]), ("code", &["*"])], Beh::Add)),
            remove_classes: Some(&[("code", &["ev*"])]),
            ..d()
        },
        Cfg { name: "depth-2", mode: s, max_depth: Some(2), ..d() },
        Cfg { name: "depth-3-nomode", max_depth: Some(3), ..d() },
        Cfg { name: "depth-0", mode: c, max_depth: Some(0), ..d() },
    ]
}

pub fn all_cfgs() -> Vec<Cfg> {
    let mut v = main_cfgs();
    v.extend(builder_cfgs());
    v
}

pub fn cfg_by_name(name: &str) -> Option<Cfg> {
    all_cfgs().into_iter().find(|c| c.name == name)
}

// ---------------------------------------------------------------------------------------
// tree walking through ruma-html's public API

/// qualified attribute name as an HTML serializer writes it
pub fn attr_qname(a: &ruma_html::Attribute) -> String {
    match &a.name.prefix {
        Some(p) => format!("{}:{}", &**p, &*a.name.local),
        None => {
            if a.name.ns.is_empty() {
                a.name.local.to_string()
            } else {
                // adjusted foreign attribute without a prefix (e.g. `xmlns`)
                format!("{{{}}}{}", &*a.name.ns, &*a.name.local)
            }
        }
    }
}

const OPEN: char = '\u{1}';
const OPEN_END: char = '\u{2}';
const CLOSE: char = '\u{3}';

/// Flatten a tree to `\1name\2 … \3` with text verbatim (adjacent text nodes merge).
pub fn flat(html: &Html) -> String {
    fn rec(n: &NodeRef, out: &mut String) {
        match n.data() {
            NodeData::Text(t) => out.push_str(&t.borrow()),
            NodeData::Element(e) => {
                out.push(OPEN);
                out.push_str(&e.name.local);
                out.push(OPEN_END);
                for c in n.children() {
                    rec(&c, out);
                }
                out.push(CLOSE);
            }
            _ => out.push_str("\u{4}other\u{4}"),
        }
    }
    let mut out = String::new();
    for c in html.children() {
        rec(&c, &mut out);
    }
    out
}

pub fn pretty_flat(s: &str) -> String {
    s.replace(OPEN, "<").replace(OPEN_END, ">").replace(CLOSE, "</>")
}

pub struct Model {
    pub flat: String,
    /// the reference does not define the structure of the output for this input
    pub unspecified: bool,
    /// text found below an `mx-reply` element of the input
    pub reply_text: String,
}

/// Reference sanitizer (structure only): which elements and text of the pristine tree must be
/// in the output, in order. Follows the documented semantics: replacement, then removal
/// (list, reply fallback, depth), then ignore / allow, then URI schemes.
pub fn model(cfg: &Cfg, html: &Html) -> Model {
    fn rec(cfg: &Cfg, n: &NodeRef, in_depth: u32, out_depth: u32, in_reply: bool, m: &mut Model) {
        match n.data() {
            NodeData::Text(t) => {
                if in_reply {
                    m.reply_text.push_str(&t.borrow());
                    m.reply_text.push('\u{4}');
                }
                m.flat.push_str(&t.borrow());
            }
            NodeData::Element(e) => {
                let name0: &str = &e.name.local;
                let name = cfg.elem_replacement(name0).unwrap_or(name0);
                let mut attrs: Vec<(String, String)> = vec![];
                for a in e.attrs.borrow().iter() {
                    let local: &str = &a.name.local;
                    if !a.name.ns.is_empty() {
                        // foreign-namespace attribute (xlink:href …): whether its local name makes
                        // it a URI attribute of the element is not defined by the spec
                        if cfg.allowed_schemes(name, local).is_some() || !cfg.denied_schemes(name, local).is_empty() {
                            m.unspecified = true;
                        }
                        continue;
                    }
                    let nm = cfg.attr_replacement(name0, local).unwrap_or(local);
                    attrs.push((nm.to_owned(), a.value.to_string()));
                }
                let in_reply = in_reply || name0 == spec::REPLY;
                if cfg.element_removed(name) {
                    collect_reply(n, in_reply, m);
                    return;
                }
                if let Some(max) = cfg.max_depth_value() {
                    if in_depth >= max {
                        if out_depth < max {
                            // "deeper than the maximum depth": depth in the input or in the output?
                            m.unspecified = true;
                        }
                        collect_reply(n, in_reply, m);
                        return;
                    }
                }
                let keep = if cfg.element_ok(name) {
                    match cfg.scheme_decision(name, &attrs) {
                        Decision::Keep => true,
                        Decision::Ignore => false,
                        Decision::Unspecified => {
                            m.unspecified = true;
                            true
                        }
                    }
                } else {
                    false
                };
                if keep {
                    m.flat.push(OPEN);
                    m.flat.push_str(name);
                    m.flat.push(OPEN_END);
                }
                for c in n.children() {
                    rec(cfg, &c, in_depth + 1, out_depth + keep as u32, in_reply, m);
                }
                if keep {
                    m.flat.push(CLOSE);
                }
            }
            _ => {}
        }
    }
    /// text of a removed subtree still counts as reply text (for the "nothing remains" check)
    fn collect_reply(n: &NodeRef, in_reply: bool, m: &mut Model) {
        if !in_reply {
            return;
        }
        for c in n.children() {
            match c.data() {
                NodeData::Text(t) => {
                    m.reply_text.push_str(&t.borrow());
                    m.reply_text.push('\u{4}');
                }
                NodeData::Element(_) => collect_reply(&c, true, m),
                _ => {}
            }
        }
    }
    let mut m = Model { flat: String::new(), unspecified: false, reply_text: String::new() };
    for c in html.children() {
        rec(cfg, &c, 0, 0, false, &mut m);
    }
    m
}

/// `@<digits>@` markers inside a text
pub fn markers(text: &str) -> Vec<&str> {
    let b = text.as_bytes();
    let mut out = vec![];
    let mut i = 0;
    while i < b.len() {
        if b[i] == b'@' {
            let mut j = i + 1;
            while j < b.len() && b[j].is_ascii_digit() {
                j += 1;
            }
            if j > i + 1 && j < b.len() && b[j] == b'@' {
                out.push(&text[i..=j]);
                i = j + 1;
                continue;
            }
        }
        i += 1;
    }
    out
}

/// Containment oracle: every node of `html` (the re-parsed sanitizer output) against the
/// allow-lists of `cfg`. Pushes (signature class, detail).
pub fn containment(cfg: &Cfg, html: &Html, v: &mut Vec<(String, String)>) {
    fn rec(cfg: &Cfg, n: &NodeRef, depth: u32, v: &mut Vec<(String, String)>, depth_reported: &mut bool) {
        match n.data() {
            NodeData::Text(_) => {}
            NodeData::Element(e) => {
                let name: &str = &e.name.local;
                if !cfg.element_ok(name) {
                    v.push((format!("element/{name}"), format!("element <{name}> in the output")));
                }
                if let Some(max) = cfg.max_depth_value() {
                    if depth >= max && !*depth_reported {
                        *depth_reported = true;
                        v.push((
                            format!("depth/{}", if depth == max { "max+1".to_owned() } else { "deeper".to_owned() }),
                            format!("element <{name}> nested at level {} (> {max})", depth + 1),
                        ));
                    }
                }
                for a in e.attrs.borrow().iter() {
                    let an = attr_qname(a);
                    if !cfg.attr_ok(name, &an) {
                        v.push((format!("attr/{name}/{an}"), format!("attribute {an}=\"{}\" on <{name}>", &*a.value)));
                        continue;
                    }
                    if let Err(s) = cfg.uri_ok(name, &an, &a.value) {
                        v.push((
                            format!("scheme/{name}/{an}/{s}"),
                            format!("<{name} {an}=\"{}\"> has scheme {s}", &*a.value),
                        ));
                    }
                    if an == "class" {
                        // HTML splits class lists on ASCII whitespace: space, tab, LF, FF, CR
                        for tok in a.value.split([' ', '\t', '\n', '\x0c', '\r']).filter(|t| !t.is_empty()) {
                            if !cfg.class_ok(name, tok) {
                                v.push((format!("class/{name}/{tok}"), format!("class {tok} on <{name}>")));
                            }
                        }
                    }
                }
                for c in n.children() {
                    rec(cfg, &c, depth + 1, v, depth_reported);
                }
            }
            _ => v.push(("node-kind/other".into(), "a node that is neither element nor text".into())),
        }
    }
    let mut reported = false;
    for c in html.children() {
        rec(cfg, &c, 0, v, &mut reported);
    }
}

/// number of nodes that are neither text nor element
pub fn other_nodes(html: &Html) -> usize {
    fn rec(n: &NodeRef) -> usize {
        match n.data() {
            NodeData::Text(_) => 0,
            NodeData::Element(_) => n.children().map(|c| rec(&c)).sum(),
            _ => 1,
        }
    }
    html.children().map(|c| rec(&c)).sum()
}

// ----- snapshots and diff classes (slow path, only for reporting) -----

#[derive(Clone, Debug, PartialEq, Eq)]
pub enum SNode {
    Text(String),
    Elem { name: String, attrs: Vec<(String, String)>, children: Vec<SNode> },
    Other,
}

pub fn snapshot(html: &Html) -> Vec<SNode> {
    fn rec(n: &NodeRef) -> SNode {
        match n.data() {
            NodeData::Text(t) => SNode::Text(t.borrow().to_string()),
            NodeData::Element(e) => SNode::Elem {
                name: e.name.local.to_string(),
                attrs: e.attrs.borrow().iter().map(|a| (attr_qname(a), a.value.to_string())).collect(),
                children: n.children().map(|c| rec(&c)).collect(),
            },
            _ => SNode::Other,
        }
    }
    html.children().map(|c| rec(&c)).collect()
}

/// A short class describing the first difference between two serialized documents
/// (`expected` vs `got`), e.g. `attr/ol/start-lost`, `element/span-vs-font`, `text`.
pub fn diff_class(expected: &str, got: &str) -> String {
    fn rec(parent: &str, a: &[SNode], b: &[SNode]) -> Option<String> {
        for (x, y) in a.iter().zip(b) {
            match (x, y) {
                (SNode::Text(s), SNode::Text(t)) => {
                    if s != t {
                        return Some(format!("text-in/{parent}"));
                    }
                }
                (
                    SNode::Elem { name: n1, attrs: a1, children: c1 },
                    SNode::Elem { name: n2, attrs: a2, children: c2 },
                ) => {
                    if n1 != n2 {
                        return Some(format!("element/{n1}-vs-{n2}"));
                    }
                    if a1 != a2 {
                        for (k, v) in a1 {
                            match a2.iter().find(|(k2, _)| k2 == k) {
                                None => return Some(format!("attr/{n1}/{k}-lost")),
                                Some((_, v2)) if v2 != v => return Some(format!("attr/{n1}/{k}-value")),
                                _ => {}
                            }
                        }
                        for (k, _) in a2 {
                            if !a1.iter().any(|(k1, _)| k1 == k) {
                                return Some(format!("attr/{n1}/{k}-extra"));
                            }
                        }
                        return Some(format!("attr/{n1}/order"));
                    }
                    if let Some(d) = rec(n1, c1, c2) {
                        return Some(d);
                    }
                }
                (SNode::Elem { name, .. }, SNode::Text(_)) => return Some(format!("element/{name}-lost")),
                (SNode::Text(_), SNode::Elem { name, .. }) => return Some(format!("element/{name}-extra")),
                _ => return Some("node-kind".into()),
            }
        }
        if a.len() > b.len() {
            return Some(match &a[b.len()] {
                SNode::Elem { name, .. } => format!("element/{name}-lost"),
                _ => format!("text-lost-in/{parent}"),
            });
        }
        if b.len() > a.len() {
            return Some(match &b[a.len()] {
                SNode::Elem { name, .. } => format!("element/{name}-extra"),
                _ => format!("text-extra-in/{parent}"),
            });
        }
        None
    }
    let a = snapshot(&Html::parse(expected));
    let b = snapshot(&Html::parse(got));
    rec("root", &a, &b).unwrap_or_else(|| "serialization-only".into())
}

/// class of the first difference of two flattened structures
pub fn flat_diff_class(expected: &str, got: &str) -> String {
    // names of the elements in order
    fn names(s: &str) -> Vec<&str> {
        s.split(OPEN).skip(1).filter_map(|p| p.split(OPEN_END).next()).collect()
    }
    fn text(s: &str) -> String {
        let mut out = String::new();
        let mut in_name = false;
        for c in s.chars() {
            match c {
                OPEN => in_name = true,
                OPEN_END => in_name = false,
                CLOSE => {}
                c if !in_name => out.push(c),
                _ => {}
            }
        }
        out
    }
    let (ne, ng) = (names(expected), names(got));
    if ne != ng {
        for (i, n) in ne.iter().enumerate() {
            if ng.get(i) != Some(n) {
                return if ng.len() > ne.len() {
                    format!("element-extra/{}", ng[i])
                } else if ng.len() < ne.len() {
                    format!("element-lost/{n}")
                } else {
                    format!("element-differs/{n}-vs-{}", ng[i])
                };
            }
        }
        return format!("element-extra/{}", ng[ne.len()]);
    }
    if text(expected) != text(got) {
        return "text".into();
    }
    "nesting".into()
}

// ---------------------------------------------------------------------------------------
// input generators

/// Attribute menu of family (i). Order matters only through duplicates (the parser keeps the
/// first attribute of a name); the sanitizer then sees them in name order.
pub const ATTR_MENU: [&str; 14] = [
    "href=\"https://e.x/p\"",
    "href=\"javascript:alert(1)\"",
    "href=\"JAVASCRIPT:alert(1)\"",
    "href=\"matrix:u/a:e.x\"",
    "src=\"mxc://e.x/abc\"",
    "src=\"https://e.x/i.png\"",
    "class=\"language-x evil\"",
    "onclick=\"alert(1)\"",
    "data-mx-color=\"#ff0000\"",
    "target=\"_blank\"",
    "xlink:href=\"https://e.x/x\"",
    "style=\"color:red\"",
    "xlink:href=\"javascript:alert(2)\"",
    "color=\"#00ff00\"",
];

/// (label, text before the attributes, text after them)
pub const ATTR_ELEMENTS: [(&str, &str, &str); 16] = [
    ("a", "<a", ">@0@</a>"),
    ("img", "<img", ">@0@"),
    ("span", "<span", ">@0@</span>"),
    ("div", "<div", ">@0@</div>"),
    ("code", "<code", ">@0@</code>"),
    ("ol", "<ol", "><li>@0@</li></ol>"),
    ("font", "<font", ">@0@</font>"),
    ("p", "<p", ">@0@</p>"),
    ("b", "<b", ">@0@</b>"),
    ("table", "<table", "><tbody><tr><td>@0@</td></tr></tbody></table>"),
    ("td", "<table><tbody><tr><td", ">@0@</td></tr></tbody></table>"),
    ("mx-reply", "<mx-reply", ">@0@</mx-reply>@1@"),
    ("script", "<script", ">@0@</script>@1@"),
    ("iframe", "<iframe", ">@0@</iframe>@1@"),
    ("svg-a", "<svg><a", ">@0@</a></svg>"),
    ("math-a", "<math><a", ">@0@</a></math>"),
];

/// every ordered subset (no repetition) of `0..n` with at most `max_k` members whose first
/// member is `first` (`None` = the empty subset only)
pub fn ordered_subsets(n: usize, max_k: usize, first: Option<usize>, f: &mut dyn FnMut(&[usize])) {
    fn rec(n: usize, max_k: usize, cur: &mut Vec<usize>, f: &mut dyn FnMut(&[usize])) {
        f(cur);
        if cur.len() == max_k {
            return;
        }
        for i in 0..n {
            if !cur.contains(&i) {
                cur.push(i);
                rec(n, max_k, cur, f);
                cur.pop();
            }
        }
    }
    match first {
        None => f(&[]),
        Some(a) => {
            if max_k >= 1 {
                rec(n, max_k, &mut vec![a], f)
            }
        }
    }
}

pub const TREE_TOKENS: [&str; 14] = [
    "<b>",
    "</b>",
    "<a href=\"javascript:alert(1)\">",
    "</a>",
    "<p>",
    "<table>",
    "<td>",
    "<script>",
    "</script>",
    "<svg>",
    "<mx-reply>",
    "</mx-reply>",
    "<!--c-->",
    "@<", // text; rendered as `@<position>@<`
];
pub const TOK_SCRIPT_OPEN: usize = 7;
pub const TOK_SCRIPT_CLOSE: usize = 8;
/// wall caps (seconds) of the two tiers: quick, thorough
pub const WALL_CAPS: (f64, f64) = (55.0, 840.0);
pub const TOK_TEXT: usize = 13;
/// substitutions for `script` in family (ii)
pub const RAW_SUBST: [&str; 6] = ["script", "title", "textarea", "noscript", "plaintext", "template"];

pub fn render_tokens(seq: &[usize], subst: usize, out: &mut String) {
    out.clear();
    for (i, &t) in seq.iter().enumerate() {
        match t {
            TOK_TEXT => {
                let _ = write!(out, "@{i}@<");
            }
            TOK_SCRIPT_OPEN => {
                out.push('<');
                out.push_str(RAW_SUBST[subst]);
                out.push('>');
            }
            TOK_SCRIPT_CLOSE => {
                out.push_str("</");
                out.push_str(RAW_SUBST[subst]);
                out.push('>');
            }
            t => out.push_str(TREE_TOKENS[t]),
        }
    }
}

/// all token sequences with the given prefix and total length `prefix.len()..=max_len`
/// (or exactly the prefix if `exact`); sequences of at most `subst_len` tokens that contain the
/// `<script>` token are also emitted with every raw-text substitution
pub fn tree_docs(prefix: &[usize], max_len: usize, exact: bool, subst_len: usize, f: &mut dyn FnMut(&str, usize)) {
    fn emit(seq: &[usize], subst_len: usize, buf: &mut String, f: &mut dyn FnMut(&str, usize)) {
        render_tokens(seq, 0, buf);
        f(buf, seq.len());
        if seq.len() <= subst_len && seq.contains(&TOK_SCRIPT_OPEN) {
            for s in 1..RAW_SUBST.len() {
                render_tokens(seq, s, buf);
                f(buf, seq.len());
            }
        }
    }
    fn rec(seq: &mut Vec<usize>, max_len: usize, subst_len: usize, buf: &mut String, f: &mut dyn FnMut(&str, usize)) {
        emit(seq, subst_len, buf, f);
        if seq.len() >= max_len {
            return;
        }
        for t in 0..TREE_TOKENS.len() {
            seq.push(t);
            rec(seq, max_len, subst_len, buf, f);
            seq.pop();
        }
    }
    let mut buf = String::new();
    let mut seq = prefix.to_vec();
    if exact {
        emit(&seq, subst_len, &mut buf, f);
    } else if seq.len() <= max_len {
        rec(&mut seq, max_len, subst_len, &mut buf, f);
    }
}

/// family (iii): chains of nested elements with a text marker at every level
pub fn ladder_docs() -> Vec<(String, String)> {
    let kinds: [(&str, &[&str]); 8] = [
        ("div", &["div"]),
        ("b", &["b"]),
        ("span", &["span"]),
        ("font", &["font"]),
        ("blockquote", &["blockquote"]),
        ("div-span", &["div", "span"]),
        ("b-i", &["b", "i"]),
        ("ul-li", &["ul", "li"]),
    ];
    let depths = [98usize, 99, 100, 101, 102, 103, 200, 400];
    let forbidden = ["section", "mark"];
    let mut out = vec![];
    for (label, els) in kinds {
        for &n in &depths {
            // variant 0: no forbidden element; variants: forbidden element at one of the last 3
            // levels of the 100-level window and of the chain
            let mut variants: Vec<Option<(usize, &str)>> = vec![None];
            for fb in forbidden {
                for back in 1..=3usize {
                    variants.push(Some((n - back, fb)));
                    if n > 100 {
                        variants.push(Some((100 - back, fb)));
                        variants.push(Some((100 + back - 1, fb)));
                    }
                }
                variants.push(Some((0, fb)));
            }
            for var in variants {
                let mut s = String::new();
                let mut names = vec![];
                for k in 0..n {
                    let el = match var {
                        Some((at, fb)) if at == k => fb,
                        _ => els[k % els.len()],
                    };
                    names.push(el);
                    let _ = write!(s, "<{el}>@{k}@");
                }
                for el in names.iter().rev() {
                    let _ = write!(s, "</{el}>");
                }
                let _ = write!(s, "@{n}@");
                let vl = match var {
                    None => "plain".to_owned(),
                    Some((at, fb)) => format!("{fb}@{at}"),
                };
                out.push((format!("ladder/{label}/{n}/{vl}"), s));
            }
        }
    }
    // documents without any markup: characters the serializer escapes, entities with and without `;`
    // (the string helpers must agree with parse + sanitize + print on them too)
    for (i, t) in ["Tom & Jerry > all", "caf\u{a0}e &copy 2024 &amp; &lt;b", "a &#x41; &bogus; b \"q\"", "", " ", "x"].iter().enumerate() {
        out.push((format!("text-only/{i}"), (*t).to_owned()));
    }
    out
}

/// family (v): element x attribute matrix
pub const MATRIX_ELEMENTS: [&str; 72] = [
    "del", "h1", "h2", "h3", "h4", "h5", "h6", "blockquote", "p", "a", "ul", "ol", "sup", "sub", "li",
    "b", "i", "u", "strong", "em", "s", "code", "hr", "br", "div", "table", "thead", "tbody", "tr",
    "th", "td", "caption", "pre", "span", "img", "details", "summary", "mx-reply", "font", "strike",
    "script", "style", "iframe", "object", "embed", "form", "input", "button", "select", "option",
    "textarea", "title", "svg", "math", "center", "video", "audio", "source", "base", "link", "meta",
    "body", "html", "head", "frameset", "marquee", "section", "mark", "template", "noscript", "xmp",
    "area",
];

pub const MATRIX_ATTRS: [&str; 35] = [
    "data-mx-bg-color=\"#00ff00\"",
    "data-mx-color=\"#ff0000\"",
    "data-mx-spoiler=\"r\"",
    "data-mx-maths=\"x^2\"",
    "target=\"_blank\"",
    "href=\"https://e.x/p\"",
    "width=\"10\"",
    "height=\"20\"",
    "alt=\"alt text\"",
    "title=\"a title\"",
    "src=\"mxc://e.x/abc\"",
    "start=\"3\"",
    "class=\"language-rust\"",
    "onclick=\"alert(1)\"",
    "onerror=\"alert(1)\"",
    "style=\"color:red\"",
    "id=\"i\"",
    "name=\"n\"",
    "rel=\"noopener\"",
    "color=\"#0000ff\"",
    "xlink:href=\"https://e.x/x\"",
    "srcset=\"https://e.x/i.png 2x\"",
    "background=\"https://e.x/i.png\"",
    "action=\"https://e.x/\"",
    "formaction=\"javascript:alert(1)\"",
    "xml:lang=\"en\"",
    // class lists with each of HTML's ASCII whitespace separators (space, tab, LF, FF, CR)
    "class=\"language-rust evil\"",
    "class=\"evil\tlanguage-rust\"",
    "class=\"language-rust\nevil\"",
    "class=\"language-rust\x0cevil\"",
    "class=\"evil\rlanguage-rust\"",
    // near misses of the class patterns the configurations allow (`evil`, `ev*`, `language-*`): a pattern
    // without `*` is an exact name, and `*` stands where it is written
    "class=\"evilx evil\"",
    "class=\"evil-2 xevil\"",
    "class=\"language xlanguage-rust\"",
    "class=\"e ev\"",
];

/// wrap an element (with its attribute text) in the context the HTML parser needs to keep it
pub fn wrap_element(el: &str, attrs: &str) -> String {
    let open = if attrs.is_empty() { format!("<{el}>") } else { format!("<{el} {attrs}>") };
    let void = matches!(el, "hr" | "br" | "img" | "input" | "embed" | "source" | "base" | "link" | "meta" | "area");
    let inner = if void { format!("{open}@0@") } else { format!("{open}@0@</{el}>") };
    match el {
        "caption" | "thead" | "tbody" => format!("<table>{inner}</table>@1@"),
        "tr" => format!("<table><tbody>{open}<td>@0@</td></tr></tbody></table>@1@"),
        "td" | "th" => format!("<table><tbody><tr>{inner}</tr></tbody></table>@1@"),
        "li" => format!("<ul>{inner}</ul>@1@"),
        "summary" => format!("<details>{inner}</details>@1@"),
        "option" => format!("<select>{inner}</select>@1@"),
        _ => format!("{inner}@1@"),
    }
}

pub fn matrix_docs(el: &str, f: &mut dyn FnMut(&str)) {
    f(&wrap_element(el, ""));
    for a in MATRIX_ATTRS {
        f(&wrap_element(el, a));
    }
    for (i, a) in MATRIX_ATTRS.iter().enumerate() {
        for (j, b) in MATRIX_ATTRS.iter().enumerate() {
            if i != j {
                f(&wrap_element(el, &format!("{a} {b}")));
            }
        }
    }
}

/// family (vi): scheme spellings
pub const URI_SPELLINGS: [&str; 30] = [
    "https://e.x/",
    "HTTPS://e.x/",
    "Https://e.x/",
    "http://e.x/",
    "ftp://e.x/",
    "mailto:a@e.x",
    "magnet:?xt=urn:btih:0",
    "matrix:u/a:e.x",
    "MATRIX:u/a:e.x",
    "mxc://e.x/abc",
    "MXC://e.x/abc",
    "javascript:alert(1)",
    "JAVASCRIPT:alert(1)",
    "JaVaScRiPt:alert(1)",
    " javascript:alert(1)",
    "&#9;javascript:alert(1)",
    "java&#10;script:alert(1)",
    "java&#9;script:alert(1)",
    "javascript&colon;alert(1)",
    "&#106;avascript:alert(1)",
    "&#1;javascript:alert(1)",
    "data:text/html,x",
    "vbscript:x",
    "//e.x/p",
    "p/q",
    "",
    "https",
    "httpsx://e.x/",
    " https://e.x/",
    "#frag:https:",
];

pub const URI_CARRIERS: [(&str, &str, &str); 7] = [
    ("a-href", "<a {}>@0@</a>@1@", "href"),
    ("img-src", "<img {}>@1@", "src"),
    ("svg-a-href", "<svg><a {}>@0@</a></svg>@1@", "href"),
    ("svg-a-xlink", "<svg><a {}>@0@</a></svg>@1@", "xlink:href"),
    ("math-a-xlink", "<math><a {}>@0@</a></math>@1@", "xlink:href"),
    ("font-href", "<font {}>@0@</font>@1@", "href"),
    ("a-src", "<a {}>@0@</a>@1@", "src"),
];

pub const URI_SIBLINGS: [(&str, &str); 7] = [
    ("", ""),
    ("class=\"x\" ", ""),
    ("", " target=\"_blank\""),
    ("alt=\"a\" ", " title=\"t\""),
    ("data-mx-color=\"#f00\" ", ""),
    ("", " onclick=\"alert(1)\""),
    ("height=\"1\" ", " width=\"2\""),
];

pub fn uri_docs(carrier: usize, f: &mut dyn FnMut(&str)) {
    let (_, tpl, attr) = URI_CARRIERS[carrier];
    for sp in URI_SPELLINGS {
        for (before, after) in URI_SIBLINGS {
            let attrs = format!("{before}{attr}=\"{sp}\"{after}");
            f(&tpl.replace("{}", &attrs));
        }
    }
}

/// One unit of work of the shared input families.
#[derive(Clone, Debug)]
pub enum Shard {
    /// family (i): element index, first attribute (None = no attribute), max subset size
    Attr { el: usize, first: Option<usize>, max_k: usize },
    /// family (ii): token prefix, max length, exact = only the prefix itself, maximal length of
    /// the sequences that also get the raw-text substitutions
    Tree { prefix: Vec<usize>, max_len: usize, exact: bool, subst_len: usize },
    /// family (iii): index into `ladder_docs()`
    Ladder { idx: usize },
    /// family (v)
    Matrix { el: usize },
    /// family (vi)
    Uri { carrier: usize },
}

impl Shard {
    pub fn family(&self) -> &'static str {
        match self {
            Shard::Attr { .. } => "attr",
            Shard::Tree { .. } => "tree",
            Shard::Ladder { .. } => "ladder",
            Shard::Matrix { .. } => "matrix",
            Shard::Uri { .. } => "uri",
        }
    }
}

/// shards of the attribute, tree, matrix and uri families for the given bounds
pub fn input_shards(attr_k: usize, tree_len: usize, subst_len: usize) -> Vec<Shard> {
    let mut v = vec![];
    // tree family first (largest shards first for load balance)
    if tree_len >= 2 {
        for a in 0..TREE_TOKENS.len() {
            for b in 0..TREE_TOKENS.len() {
                v.push(Shard::Tree { prefix: vec![a, b], max_len: tree_len, exact: false, subst_len });
            }
        }
    }
    v.push(Shard::Tree { prefix: vec![], max_len: 0, exact: true, subst_len });
    if tree_len >= 1 {
        for a in 0..TREE_TOKENS.len() {
            v.push(Shard::Tree { prefix: vec![a], max_len: 1, exact: true, subst_len });
        }
    }
    for el in 0..ATTR_ELEMENTS.len() {
        v.push(Shard::Attr { el, first: None, max_k: attr_k });
        for a in 0..ATTR_MENU.len() {
            v.push(Shard::Attr { el, first: Some(a), max_k: attr_k });
        }
    }
    for el in 0..MATRIX_ELEMENTS.len() {
        v.push(Shard::Matrix { el });
    }
    for carrier in 0..URI_CARRIERS.len() {
        v.push(Shard::Uri { carrier });
    }
    v
}

pub fn ladder_shards() -> Vec<Shard> {
    (0..ladder_docs().len()).map(|idx| Shard::Ladder { idx }).collect()
}

/// enumerate the documents of a shard; the second argument of `f` is the size of the document
/// in the family's own measure (tokens / attributes), 0 where there is none
pub fn shard_docs(shard: &Shard, ladders: &[(String, String)], f: &mut dyn FnMut(&str, usize)) {
    match shard {
        Shard::Attr { el, first, max_k } => {
            let (_, pre, post) = ATTR_ELEMENTS[*el];
            let mut buf = String::new();
            ordered_subsets(ATTR_MENU.len(), *max_k, *first, &mut |sub| {
                buf.clear();
                buf.push_str(pre);
                for &i in sub {
                    buf.push(' ');
                    buf.push_str(ATTR_MENU[i]);
                }
                buf.push_str(post);
                f(&buf, sub.len());
            });
        }
        Shard::Tree { prefix, max_len, exact, subst_len } => tree_docs(prefix, *max_len, *exact, *subst_len, f),
        Shard::Ladder { idx } => f(&ladders[*idx].1, 0),
        Shard::Matrix { el } => matrix_docs(MATRIX_ELEMENTS[*el], &mut |d| f(d, 0)),
        Shard::Uri { carrier } => uri_docs(*carrier, &mut |d| f(d, 0)),
    }
}

// ---------------------------------------------------------------------------------------
// C15: documents from the allow-list grammar itself (preservation) and deprecated rewrites

/// allowed attribute values per element used by the preservation grammar
pub fn clean_attr_values(el: &str, compat: bool) -> Vec<(&'static str, Vec<&'static str>)> {
    match el {
        "span" => vec![
            ("data-mx-bg-color", vec!["#00ff00"]),
            ("data-mx-color", vec!["#ff0000"]),
            // an allowed attribute may be empty (a spoiler without a reason)
            ("data-mx-spoiler", vec!["reason", ""]),
            ("data-mx-maths", vec!["x^2"]),
        ],
        "a" => {
            // (a URI that is just an allowed scheme and its colon is still that scheme)
            let mut href = vec!["https://e.x/p", "http://e.x/", "ftp://e.x/f", "mailto:a@e.x", "magnet:?xt=urn:btih:0", "mailto:", "https:"];
            if compat {
                href.push("matrix:u/a:e.x");
                href.push("matrix:");
            }
            vec![("target", vec!["_blank"]), ("href", href)]
        }
        "img" => vec![
            ("width", vec!["10"]),
            ("height", vec!["20"]),
            ("alt", vec!["alt text", ""]),
            ("title", vec!["a title"]),
            ("src", vec!["mxc://e.x/abc", "mxc:"]),
        ],
        "ol" => vec![("start", vec!["3"])],
        // (irregular spacing inside a class list is not a class)
        "code" => vec![("class", vec!["language-rust", "language-a language-b", "language-rust ", " language-c", "language-c  language-cpp"])],
        "div" => vec![("data-mx-maths", vec!["x^2"])],
        _ => vec![],
    }
}

/// like `wrap_element` but with arbitrary inner content
pub fn wrap_with(el: &str, attrs: &str, inner: &str) -> String {
    let open = if attrs.is_empty() { format!("<{el}>") } else { format!("<{el} {attrs}>") };
    let void = matches!(el, "hr" | "br" | "img");
    let body = if void { format!("{open}{inner}") } else { format!("{open}{inner}</{el}>") };
    match el {
        "caption" | "thead" | "tbody" => format!("<table>{body}</table>@8@"),
        "tr" => format!("<table><tbody>{open}<td>{inner}</td></tr></tbody></table>@8@"),
        "td" | "th" => format!("<table><tbody><tr>{body}</tr></tbody></table>@8@"),
        "li" => format!("<ul>{body}</ul>@8@"),
        "summary" => format!("<details>{body}</details>@8@"),
        _ => format!("{body}@8@"),
    }
}

/// the allowed elements for a configuration of the preservation grammar
pub fn clean_elements(rrf: bool) -> Vec<&'static str> {
    let mut v = spec::ELEMENTS.to_vec();
    if !rrf {
        v.push(spec::REPLY);
    }
    v
}

/// (P1) one element with every subset of its allowed attributes, every allowed value, in
/// menu order and reversed
pub fn clean_single_docs(el: &str, compat: bool, f: &mut dyn FnMut(&str)) {
    let menu = clean_attr_values(el, compat);
    let n = menu.len();
    for mask in 0u32..(1 << n) {
        let chosen: Vec<usize> = (0..n).filter(|i| mask & (1 << i) != 0).collect();
        // every combination of values
        let radices: Vec<usize> = chosen.iter().map(|&i| menu[i].1.len()).collect();
        engine::for_product(&radices, &mut |idx| {
            let parts: Vec<String> =
                chosen.iter().zip(idx).map(|(&i, &vi)| format!("{}=\"{}\"", menu[i].0, menu[i].1[vi])).collect();
            f(&wrap_with(el, &parts.join(" "), "@0@"));
            if parts.len() > 1 {
                let rev: Vec<String> = parts.iter().rev().cloned().collect();
                f(&wrap_with(el, &rev.join(" "), "@0@"));
            }
        });
    }
}

/// (P2) every allowed element inside every allowed element
pub fn clean_pair_docs(parent: &str, rrf: bool, f: &mut dyn FnMut(&str)) {
    for child in clean_elements(rrf) {
        let inner = format!("@0@{}@3@", wrap_with(child, "", "@1@").replace("@8@", "@2@"));
        f(&wrap_with(parent, "", &inner));
    }
}

/// labels of the forest grammar (P3): (open, close); empty close = leaf
pub const FOREST_LABELS: [(&str, &str); 10] = [
    ("@", ""), // text, rendered as @<node number>@
    ("<b>", "</b>"),
    ("<p>", "</p>"),
    ("<a href=\"https://e.x/p\" target=\"_blank\">", "</a>"),
    ("<span data-mx-color=\"#ff0000\">", "</span>"),
    ("<code class=\"language-x\">", "</code>"),
    ("<ul>", "</ul>"),
    ("<li>", "</li>"),
    ("<br>", ""),
    ("<div data-mx-maths=\"m\">", "</div>"),
];
pub const FOREST_CLOSE: usize = FOREST_LABELS.len();

/// (P3) every well-nested forest with at most `budget` nodes whose choice sequence starts with
/// `prefix` (choices: label index = new node, FOREST_CLOSE = close the open element)
pub fn forest_docs(prefix: &[usize], budget: usize, f: &mut dyn FnMut(&str)) {
    struct St {
        buf: String,
        stack: Vec<usize>,
        nodes: usize,
        last_text: bool,
    }
    fn apply(st: &mut St, c: usize, budget: usize) -> Option<(usize, bool)> {
        // returns (previous buf len, previous last_text) for undo
        let undo = (st.buf.len(), st.last_text);
        if c == FOREST_CLOSE {
            let l = st.stack.pop()?;
            st.buf.push_str(FOREST_LABELS[l].1);
            st.last_text = false;
        } else {
            if st.nodes >= budget {
                return None;
            }
            if c == 0 {
                if st.last_text {
                    return None;
                }
                let _ = write!(st.buf, "@{}@", st.nodes);
                st.last_text = true;
            } else {
                st.buf.push_str(FOREST_LABELS[c].0);
                st.last_text = false;
                if !FOREST_LABELS[c].1.is_empty() {
                    st.stack.push(c);
                }
            }
            st.nodes += 1;
        }
        Some(undo)
    }
    fn rec(st: &mut St, budget: usize, f: &mut dyn FnMut(&str)) {
        if st.stack.is_empty() {
            f(&st.buf);
        }
        for c in 0..=FOREST_CLOSE {
            let stack_before = st.stack.clone();
            let nodes_before = st.nodes;
            if let Some((len, lt)) = apply(st, c, budget) {
                rec(st, budget, f);
                st.buf.truncate(len);
                st.last_text = lt;
            }
            st.stack = stack_before;
            st.nodes = nodes_before;
        }
    }
    let mut st = St { buf: String::new(), stack: vec![], nodes: 0, last_text: false };
    for &c in prefix {
        if apply(&mut st, c, budget).is_none() {
            return;
        }
    }
    rec(&mut st, budget, f);
}

/// (P4) chains of allowed elements up to exactly the depth limit
pub fn clean_chain_docs() -> Vec<String> {
    let kinds: [&[&str]; 7] =
        [&["div"], &["span"], &["b"], &["blockquote"], &["div", "span"], &["ul", "li"], &["em", "code", "sup"]];
    let mut out = vec![];
    for els in kinds {
        for n in [1usize, 2, 50, 98, 99, 100] {
            let mut s = String::new();
            for k in 0..n {
                let _ = write!(s, "<{}>@{k}@", els[k % els.len()]);
            }
            for k in (0..n).rev() {
                let _ = write!(s, "</{}>", els[k % els.len()]);
            }
            let _ = write!(s, "@{n}@");
            out.push(s);
        }
    }
    out
}

/// Deprecated rewrites: (input, the same document written with the replacements)
pub fn rewrite_docs(f: &mut dyn FnMut(&str, &str, &str)) {
    // (attribute text, replacement text or "" when it must be dropped)
    let font_attrs: [(&str, &str); 6] = [
        ("color=\"#ff0000\"", "data-mx-color=\"#ff0000\""),
        ("data-mx-bg-color=\"#00ff00\"", "data-mx-bg-color=\"#00ff00\""),
        ("data-mx-spoiler=\"r\"", "data-mx-spoiler=\"r\""),
        ("data-mx-maths=\"m\"", "data-mx-maths=\"m\""),
        ("face=\"serif\"", ""),
        ("size=\"2\"", ""),
    ];
    let strike_attrs: [(&str, &str); 3] = [("class=\"x\"", ""), ("data-mx-color=\"#ff0000\"", ""), ("style=\"color:red\"", "")];
    let children: [(&str, &str); 8] = [
        ("", ""),
        ("@1@", "@1@"),
        ("<b>@1@</b>", "<b>@1@</b>"),
        ("@1@<i>@2@</i>@3@", "@1@<i>@2@</i>@3@"),
        ("<font color=\"#0000ff\">@1@</font>@2@", "<span data-mx-color=\"#0000ff\">@1@</span>@2@"),
        ("@1@<strike>@2@</strike>", "@1@<s>@2@</s>"),
        ("<a href=\"https://e.x/p\">@1@</a>", "<a href=\"https://e.x/p\">@1@</a>"),
        ("<code class=\"language-x\">@1@</code><br>@2@", "<code class=\"language-x\">@1@</code><br>@2@"),
    ];
    let contexts: [(&str, &str); 3] = [("", "@9@"), ("<blockquote>", "</blockquote>@9@"), ("<ul><li>@7@", "</li></ul>@9@")];
    for (el, new_el, menu) in [("font", "span", &font_attrs[..]), ("strike", "s", &strike_attrs[..])] {
        let n = menu.len();
        for first in std::iter::once(None).chain((0..n).map(Some)) {
            ordered_subsets(n, n, first, &mut |sub| {
                let mut a_in = String::new();
                let mut a_out = String::new();
                for &i in sub {
                    a_in.push(' ');
                    a_in.push_str(menu[i].0);
                    if !menu[i].1.is_empty() {
                        a_out.push(' ');
                        a_out.push_str(menu[i].1);
                    }
                }
                for (c_in, c_out) in children {
                    for (pre, post) in contexts {
                        let input = format!("{pre}<{el}{a_in}>{c_in}</{el}>{post}");
                        let expected = format!("{pre}<{new_el}{a_out}>{c_out}</{new_el}>{post}");
                        f(el, &input, &expected);
                    }
                }
            });
        }
    }
}

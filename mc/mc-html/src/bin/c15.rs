//! C15 — HTML sanitization is idempotent and leaves already-clean documents unchanged.
//!
//! P+S explorer. Idempotence on the input families of C14 (every configuration):
//! sanitize(sanitize(x)) == print(parse(sanitize(x))), the chain x -> s(x) -> s(s(x)) -> …
//! keeps that invariant at the next step, and sanitizing the same `Html` object twice equals
//! once. Preservation on documents generated from the allow-list grammar itself (strict /
//! compat x keep / remove reply fallback): output == print(parse(input)). Deprecated rewrites
//! (font[color] -> span[data-mx-color], strike -> s) against the same document written with
//! the replacements.

use engine::{catch, machinery_error, par_shards, parse_args, replay_and_exit, Report, Tally};
use mc_html::{
    all_cfgs, cfg_by_name, clean_chain_docs, clean_elements, clean_pair_docs, clean_single_docs, diff_class,
    forest_docs, input_shards, ladder_docs, ladder_shards, rewrite_docs, shard_docs, Cfg, Shard, FOREST_CLOSE,
    FOREST_LABELS, WALL_CAPS, to_ruma_mode,
};
use std::sync::atomic::{AtomicBool, Ordering::Relaxed};
use ruma_html::{sanitize_html, Html, RemoveReplyFallback, SanitizerConfig};
use serde_json::{json, Value};

/// idempotence / same-object / chain
fn eval_idem(cfg: &Cfg, built: &SanitizerConfig, family: &str, input: &str, t: &mut Tally) -> Vec<(String, String)> {
    let pre = cfg.sig_prefix();
    let mut out = vec![];
    let res = catch(|| {
        let mut v: Vec<(String, String)> = vec![];
        let mut calls = 0u64;
        let h = Html::parse(input);
        h.sanitize_with(built);
        let s1 = h.to_string();
        h.sanitize_with(built);
        let s1b = h.to_string();
        calls += 5;
        if s1 != s1b {
            v.push((
                format!("twice-same-object/{}", diff_class(&s1, &s1b)),
                format!("sanitizing the same Html twice: once {s1:?}, twice {s1b:?}"),
            ));
        }
        let h2 = Html::parse(&s1);
        let p1 = h2.to_string();
        h2.sanitize_with(built);
        let s2 = h2.to_string();
        calls += 4;
        if s2 != p1 {
            v.push((
                format!("not-idempotent/{}", diff_class(&p1, &s2)),
                format!("s(x)={s1:?}, print(parse(s(x)))={p1:?}, s(s(x))={s2:?}"),
            ));
        }
        // the same law through the string helper of the mode configurations
        if cfg.main {
            let rrf = if cfg.rrf { RemoveReplyFallback::Yes } else { RemoveReplyFallback::No };
            let mode = to_ruma_mode(cfg.mode.unwrap());
            let hs1 = sanitize_html(input, mode, rrf);
            let hp1 = Html::parse(&hs1).to_string();
            let hs2 = sanitize_html(&hs1, mode, rrf);
            calls += 4;
            if hs2 != hp1 {
                v.push((
                    format!("not-idempotent/entrypoint-sanitize_html/{}", diff_class(&hp1, &hs2)),
                    format!("h(x)={hs1:?}, print(parse(h(x)))={hp1:?}, h(h(x))={hs2:?}"),
                ));
            }
        }
        let fix = s2 == s1;
        if !fix {
            // the parser normalised the first output; the invariant must hold again from there
            let h3 = Html::parse(&s2);
            let p2 = h3.to_string();
            h3.sanitize_with(built);
            let s3 = h3.to_string();
            calls += 4;
            if s3 != p2 {
                v.push((
                    format!("not-idempotent-step3/{}", diff_class(&p2, &s3)),
                    format!("s(s(x))={s2:?}, print(parse(..))={p2:?}, s(s(s(x)))={s3:?}"),
                ));
            }
        }
        (v, fix, calls, s1 == input)
    });
    match res {
        Err(p) => {
            t.transitions += 1;
            out.push((format!("{pre}panic/{}/{family}", p.file()), format!("{} on input {input:?}", p.text)));
        }
        Ok((v, fix, calls, untouched)) => {
            t.transitions += calls;
            t.nontrivial += 1;
            t.outcome("chain", if fix { "fixpoint-after-one-pass" } else { "parser-normalises-output" });
            t.outcome("first-pass", if untouched { "output==input" } else { "output!=input" });
            for (class, detail) in v {
                out.push((format!("{pre}{class}"), format!("[{}] {detail}; input {input:?}", cfg.name)));
            }
        }
    }
    out
}

/// preservation: `expected_doc` (None = the input itself) parsed and printed is the expected output
fn eval_preserve(
    cfg: &Cfg,
    built: &SanitizerConfig,
    class: &str,
    input: &str,
    expected_doc: Option<&str>,
    t: &mut Tally,
) -> Vec<(String, String)> {
    let pre = cfg.sig_prefix();
    let mut out = vec![];
    let res = catch(|| {
        let h = Html::parse(input);
        let p0 = h.to_string();
        h.sanitize_with(built);
        let s = h.to_string();
        let expected = match expected_doc {
            None => p0,
            Some(d) => Html::parse(d).to_string(),
        };
        // the string helper of the same mode must preserve / rewrite alike
        let helper = if cfg.main {
            let rrf = if cfg.rrf { RemoveReplyFallback::Yes } else { RemoveReplyFallback::No };
            Some(sanitize_html(input, to_ruma_mode(cfg.mode.unwrap()), rrf))
        } else {
            None
        };
        (expected, s, helper)
    });
    t.transitions += 4;
    match res {
        Err(p) => out.push((format!("{pre}panic/{}/{class}", p.file()), format!("{} on input {input:?}", p.text))),
        Ok((expected, s, helper)) => {
            if let Some(hs) = helper {
                t.transitions += 1;
                if hs != expected {
                    out.push((
                        format!("{pre}{class}/entrypoint-sanitize_html/{}", diff_class(&expected, &hs)),
                        format!("[{}] input {input:?}: expected {expected:?}, sanitize_html gives {hs:?}", cfg.name),
                    ));
                }
            }
            t.nontrivial += 1;
            t.outcome(if expected_doc.is_some() { "rewrite" } else { "preserve" }, if s == input { "byte-identical" } else { "parser-normalised" });
            if s != expected {
                out.push((
                    format!("{pre}{class}/{}", diff_class(&expected, &s)),
                    format!("[{}] input {input:?}: expected {expected:?} got {s:?}", cfg.name),
                ));
            }
        }
    }
    out
}

enum Item<'a> {
    Idem(Shard, &'a [usize]),
    Single(&'static str),
    Pair(&'static str),
    Forest(Vec<usize>, usize),
    ForestShort(usize),
    Chains,
    Rewrites,
}

fn replay(v: &Value) -> Vec<(String, String)> {
    let name = v["cfg"].as_str().unwrap_or("strict");
    let cfg = cfg_by_name(name).unwrap_or_else(|| machinery_error(&format!("unknown cfg {name}")));
    let built = cfg.build();
    let input = v["input"].as_str().unwrap_or("");
    let mut t = Tally::new();
    match v["kind"].as_str().unwrap_or("idem") {
        "idem" => eval_idem(&cfg, &built, v["family"].as_str().unwrap_or("replay"), input, &mut t),
        _ => eval_preserve(&cfg, &built, v["family"].as_str().unwrap_or("not-preserved"), input, v["expected_doc"].as_str(), &mut t),
    }
}

fn main() {
    let args = parse_args();
    if let Some(p) = &args.replay {
        replay_and_exit("C15", p, replay);
    }
    let report = Report::new("C15", "model_checking", &args);
    let (attr_k, tree_len, forest_n) = args.tier.pick((3usize, 5usize, 4usize), (4, 6, 5));
    report.set_rule(&format!(
        "idempotence: the C14 input families ((i) ordered attribute subsets <= {attr_k} of a 14-attribute menu on 16 \
         element contexts, (ii) token sequences <= {tree_len} over 14 tokens + 5 raw-text substitutions of script in sequences <= {}, (iii) depth \
         ladder 98..103/200/400, (v) 72x(26+26*25) element/attribute matrix, (vi) 7x30x7 URI spellings) under \
         strict/compat x keep/remove reply fallback, and 30 builder configurations at attribute size <= {}, token \
         length <= {} (substitutions one shorter again); preservation (4 mode configurations): every allowed element x every subset of its allowed \
         attributes x every allowed scheme / class value in both source orders, every allowed element inside every \
         allowed element, every well-nested forest of <= {forest_n} nodes over 10 labels (text, b, p, a[href,target], \
         span[data-mx-color], code[class], ul, li, br, div[data-mx-maths]), chains of depth 1,2,50,98,99,100; \
         rewrites: font / strike x every ordered subset of 6 / 3 attributes x 8 child shapes x 3 contexts. \
         state = one (configuration, document); transition = one call of ruma-html",
        tree_len - 1,
        attr_k - 1,
        tree_len - 1
    ));
    report.assume("expected output of a clean document is print(parse(input)) (html5ever's own normalisation is not the sanitizer's)");
    report.assume("allow-list grammar = DESIGN.md Appendix A.5; lower-case scheme spellings only; font with both color and data-mx-color is excluded from the rewrite family (collision unspecified)");
    report.require_outcomes("chain", 2);
    report.require_outcomes("first-pass", 2);
    report.require_outcomes("preserve", 2);

    let cfgs = all_cfgs();
    let built: Vec<SanitizerConfig> = cfgs.iter().map(Cfg::build).collect();
    let main_idx: Vec<usize> = (0..cfgs.len()).filter(|&i| cfgs[i].main).collect();
    let builder_idx: Vec<usize> = (0..cfgs.len()).filter(|&i| !cfgs[i].main).collect();
    let ladder_cfgs: Vec<usize> = (0..cfgs.len())
        .filter(|&i| cfgs[i].main || matches!(cfgs[i].name, "new" | "el-ignore" | "depth-2" | "depth-3-nomode" | "depth-0" | "repl-el-override"))
        .collect();
    let ladders = ladder_docs();
    let chains = clean_chain_docs();

    let mut items: Vec<Item> = vec![];
    for s in input_shards(attr_k, tree_len, tree_len - 1) {
        items.push(Item::Idem(s, &main_idx));
    }
    for c1 in 0..FOREST_LABELS.len() {
        for c2 in 0..=FOREST_CLOSE {
            items.push(Item::Forest(vec![c1, c2], forest_n));
        }
    }
    items.push(Item::ForestShort(forest_n));
    for s in input_shards(attr_k - 1, tree_len - 1, tree_len - 2) {
        items.push(Item::Idem(s, &builder_idx));
    }
    for s in ladder_shards() {
        items.push(Item::Idem(s, &ladder_cfgs));
    }
    for el in clean_elements(false) {
        items.push(Item::Single(el));
        items.push(Item::Pair(el));
    }
    items.push(Item::Chains);
    items.push(Item::Rewrites);

    let cap = args.tier.pick(WALL_CAPS.0, WALL_CAPS.1);
    let capped = AtomicBool::new(false);
    par_shards(&report, items.len(), |i, t| {
        let mut n = 0u64;
        let preserve = |t: &mut Tally, family: &'static str, doc: &str, n: &mut u64| {
            if *n % 1024 == 0 && report.elapsed_s() > cap {
                capped.store(true, Relaxed);
            }
            if capped.load(Relaxed) {
                return;
            }
            for &ci in &main_idx {
                let cfg = &cfgs[ci];
                if cfg.rrf && doc.contains("mx-reply") {
                    continue;
                }
                if !cfg.compat() && doc.contains("matrix:") {
                    continue;
                }
                t.states += 1;
                *n += 1;
                if *n % 50_000 == 3 {
                    t.sample(|| json!({"cfg": cfg.name, "family": family, "input": engine::truncate(doc, 200)}));
                }
                for (sig, detail) in eval_preserve(cfg, &built[ci], "not-preserved", doc, None, t) {
                    report.violation(
                        &sig,
                        || engine::truncate(&detail, 1500),
                        || json!({"kind": "preserve", "cfg": cfg.name, "family": "not-preserved", "input": doc}),
                    );
                }
            }
        };
        match &items[i] {
            Item::Idem(shard, cfg_idx) => {
                let family = shard.family();
                shard_docs(shard, &ladders, &mut |doc, _| {
                    if n % 4096 == 0 && report.elapsed_s() > cap {
                        capped.store(true, Relaxed);
                    }
                    if capped.load(Relaxed) {
                        return;
                    }
                    for &ci in cfg_idx.iter() {
                        let cfg = &cfgs[ci];
                        t.states += 1;
                        n += 1;
                        if n % 200_000 == 7 {
                            t.sample(|| json!({"cfg": cfg.name, "family": family, "input": engine::truncate(doc, 200)}));
                        }
                        for (sig, detail) in eval_idem(cfg, &built[ci], family, doc, t) {
                            report.violation(
                                &sig,
                                || engine::truncate(&detail, 1500),
                                || json!({"kind": "idem", "cfg": cfg.name, "family": family, "input": doc}),
                            );
                        }
                    }
                });
            }
            Item::Single(el) => {
                for compat in [false, true] {
                    clean_single_docs(el, compat, &mut |doc| {
                        // the compat grammar only adds documents with the matrix scheme
                        if compat && !doc.contains("matrix:") {
                            return;
                        }
                        preserve(t, "clean-single", doc, &mut n)
                    });
                }
            }
            Item::Pair(el) => clean_pair_docs(el, false, &mut |doc| preserve(t, "clean-pair", doc, &mut n)),
            Item::Forest(prefix, budget) => forest_docs(prefix, *budget, &mut |doc| preserve(t, "clean-forest", doc, &mut n)),
            Item::ForestShort(budget) => {
                // choice sequences shorter than the shard prefixes: the empty document and single leaves
                preserve(t, "clean-forest", "", &mut n);
                for (c, (_, close)) in FOREST_LABELS.iter().enumerate() {
                    if close.is_empty() && *budget >= 1 {
                        let mut emitted = false;
                        forest_docs(&[c], 1, &mut |doc| {
                            if !emitted {
                                emitted = true;
                                preserve(t, "clean-forest", doc, &mut n)
                            }
                        });
                    }
                }
            }
            Item::Chains => {
                for doc in &chains {
                    preserve(t, "clean-chain", doc, &mut n);
                }
            }
            Item::Rewrites => rewrite_docs(&mut |el, input, expected| {
                for &ci in &main_idx {
                    let cfg = &cfgs[ci];
                    t.states += 1;
                    let class = if el == "font" { "rewrite/font" } else { "rewrite/strike" };
                    for (sig, detail) in eval_preserve(cfg, &built[ci], class, input, Some(expected), t) {
                        report.violation(
                            &sig,
                            || engine::truncate(&detail, 1500),
                            || json!({"kind": "rewrite", "cfg": cfg.name, "family": class, "input": input, "expected_doc": expected}),
                        );
                    }
                }
            }),
        }
    });
    if capped.load(Relaxed) {
        report.capped(&format!("wall cap of {cap} s reached: the remaining documents were not evaluated"));
    }
    report.set("configurations", json!(cfgs.iter().map(|c| c.name).collect::<Vec<_>>()));
    report.set(
        "bounds",
        json!({"attr_subset_max": attr_k, "tree_tokens_max": tree_len, "forest_nodes_max": forest_n, "ladder_docs": ladders.len(), "clean_chains": chains.len()}),
    );
    report.finish()
}

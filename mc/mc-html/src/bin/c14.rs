//! C14 — sanitized HTML, as seen by an HTML parser, is within the Matrix allow-lists.
//!
//! P-explorer over six input families (attribute subsets, token sequences, depth ladder,
//! element x attribute matrix, URI spellings) x 4 mode configurations + 30 builder
//! configurations. Oracle: the sanitizer's output is re-parsed with `Html::parse` and every
//! node is checked against tables typed in from the spec (mc_html::spec / Cfg semantics);
//! the structure (elements + text in order) of the sanitized tree is compared with a
//! reference written from the documented semantics.

use engine::{catch, machinery_error, par_shards, parse_args, replay_and_exit, Report, Tally};
use mc_html::{
    all_cfgs, cfg_by_name, containment, flat, flat_diff_class, input_shards, ladder_docs, ladder_shards, markers,
    model, other_nodes, pretty_flat, shard_docs, to_ruma_mode, Cfg, Shard, WALL_CAPS,
};
use std::sync::atomic::{AtomicBool, Ordering::Relaxed};
use ruma_html::{remove_html_reply_fallback, sanitize_html, Html, RemoveReplyFallback, SanitizerConfig};
use serde_json::{json, Value};

/// Evaluate one (configuration, input) pair; returns (sig, detail) per violation.
fn eval(
    cfg: &Cfg,
    built: &SanitizerConfig,
    family: &str,
    input: &str,
    entry_points: bool,
    t: &mut Tally,
) -> Vec<(String, String)> {
    let pre = cfg.sig_prefix();
    let mut out_v: Vec<(String, String)> = vec![];
    let res = catch(|| {
        let mut v: Vec<(String, String)> = vec![];
        let html = Html::parse(input);
        let pristine = flat(&html);
        let m = model(cfg, &html);
        html.sanitize_with(built);
        let direct = flat(&html);
        let output = html.to_string();
        if other_nodes(&html) > 0 {
            v.push(("node-kind/sanitized-tree".into(), "comment / other node left in the sanitized tree".into()));
        }
        let re = Html::parse(&output);
        containment(cfg, &re, &mut v);
        if cfg.rrf {
            for mk in markers(&m.reply_text) {
                if output.contains(mk) {
                    v.push(("reply-content/text".into(), format!("text {mk} of an mx-reply element is in the output")));
                    break;
                }
            }
        }
        let specified = !m.unspecified;
        if specified && m.flat != direct {
            v.push((
                format!("order/{}", flat_diff_class(&m.flat, &direct)),
                format!("expected structure {} got {}", pretty_flat(&m.flat), pretty_flat(&direct)),
            ));
        }
        let reparse_same = flat(&re) == direct;
        // agreement of the convenience entry points with parse + sanitize_with + to_string
        let mut calls = 4u64;
        if !entry_points {
        } else if cfg.main {
            let rrf = if cfg.rrf { RemoveReplyFallback::Yes } else { RemoveReplyFallback::No };
            let s = sanitize_html(input, to_ruma_mode(cfg.mode.unwrap()), rrf);
            calls += 1;
            if s != output {
                v.push(("entrypoint/sanitize_html".into(), format!("sanitize_html gives {s:?}")));
            }
            if cfg.name == "compat-rrf" {
                let h = Html::parse(input);
                h.sanitize();
                calls += 2;
                if h.to_string() != output {
                    v.push(("entrypoint/Html::sanitize".into(), format!("Html::sanitize gives {:?}", h.to_string())));
                }
            }
        } else if cfg.name == "new-rrf" {
            let s = remove_html_reply_fallback(input);
            calls += 1;
            if s != output {
                v.push(("entrypoint/remove_html_reply_fallback".into(), format!("gives {s:?}")));
            }
        }
        (v, output, specified, pristine == direct, reparse_same, calls)
    });
    match res {
        Err(p) => {
            t.transitions += 1;
            out_v.push((format!("{pre}panic/{}/{family}", p.file()), format!("{} on input {input:?}", p.text)));
        }
        Ok((v, output, specified, unchanged, reparse_same, calls)) => {
            t.transitions += calls;
            if specified {
                t.nontrivial += 1;
            } else {
                t.unspecified += 1;
            }
            t.outcome("sanitize", if unchanged { "structure-unchanged" } else { "structure-changed" });
            t.outcome("reparse", if reparse_same { "same-structure" } else { "restructured-by-parser" });
            t.outcome("verdict", if v.is_empty() { "within-allow-lists" } else { "violation" });
            for (class, detail) in v {
                out_v.push((
                    format!("{pre}{class}"),
                    format!("[{}] {detail}; input {input:?} -> output {output:?}", cfg.name),
                ));
            }
        }
    }
    out_v
}

fn case_json(cfg: &Cfg, family: &str, input: &str) -> Value {
    json!({"cfg": cfg.name, "family": family, "input": input})
}

fn main() {
    let args = parse_args();
    if let Some(p) = &args.replay {
        replay_and_exit("C14", p, |v| {
            let name = v["cfg"].as_str().unwrap_or("strict");
            let cfg = cfg_by_name(name).unwrap_or_else(|| machinery_error(&format!("unknown cfg {name}")));
            let built = cfg.build();
            eval(&cfg, &built, v["family"].as_str().unwrap_or("replay"), v["input"].as_str().unwrap_or(""), true, &mut Tally::new())
        });
    }
    let report = Report::new("C14", "model_checking", &args);
    let (attr_k, tree_len) = args.tier.pick((3usize, 5usize), (4, 6));
    report.set_rule(&format!(
        "product: (i) 16 element contexts x every ordered subset of size <= {attr_k} of a 14-attribute menu; \
         (ii) every token sequence of length <= {tree_len} over 14 tokens (open/close tags, javascript link, table \
         parts, script, svg, mx-reply, comment, marked text) plus, for every sequence containing <script>, the same \
         with title/textarea/noscript/plaintext/template substituted for script; (iii) depth ladder 98..103, 200, 400 over 8 element kinds with a forbidden \
         element at the boundary levels; (v) 72 elements x (26 attributes singly and in ordered pairs); (vi) 7 URI \
         carriers x 30 scheme spellings x 7 sibling-attribute contexts; each under strict/compat x keep/remove reply \
         fallback; 30 builder configurations on (i) size <= {}, (ii) length <= {} (substitutions up to length {}), (v), (vi) \
         and the ladder. \
         state = one (configuration, input document); transition = one call of ruma-html (parse, sanitize_with, \
         to_string, sanitize_html, ...); the convenience entry points (sanitize_html, Html::sanitize, \
         remove_html_reply_fallback) are compared with parse+sanitize_with+to_string on every document except \
         token sequences of the maximal length; non-trivial = the structural reference defines the output",
        attr_k - 1,
        tree_len - 1,
        tree_len - 2
    ));
    report.assume("allow-lists = DESIGN.md Appendix A.5 typed in from the Matrix spec (mc-html/src/lib.rs spec module)");
    report.assume("builder configurations follow the documented semantics of sanitizer_config.rs (Override/Add, removal > ignore > allow, denied or not-allowed scheme => element ignored)");
    report.assume("unspecified (executed, containment still checked, structure not compared): allowed scheme in a spelling the literal prefix match does not recognise; elements at input depth >= max below an ignored ancestor; foreign-namespace URI attributes");
    report.assume("order of text is compared on the sanitizer's own tree; re-parsing the serialized output may re-order it (foster parenting) — counted under outcomes.reparse, not a violation");
    report.require_outcomes("sanitize", 2);
    report.require_outcomes("reparse", 2);

    let cfgs = all_cfgs();
    let built: Vec<SanitizerConfig> = cfgs.iter().map(Cfg::build).collect();
    let main_idx: Vec<usize> = (0..cfgs.len()).filter(|&i| cfgs[i].main).collect();
    let builder_idx: Vec<usize> = (0..cfgs.len()).filter(|&i| !cfgs[i].main).collect();
    let ladders = ladder_docs();

    let mut items: Vec<(Shard, &[usize])> = vec![];
    for s in input_shards(attr_k, tree_len, tree_len) {
        items.push((s, &main_idx));
    }
    for s in input_shards(attr_k - 1, tree_len - 1, tree_len - 2) {
        items.push((s, &builder_idx));
    }
    let ladder_cfgs: Vec<usize> = (0..cfgs.len())
        .filter(|&i| cfgs[i].main || matches!(cfgs[i].name, "new" | "el-ignore" | "depth-2" | "depth-3-nomode" | "depth-0" | "repl-el-override"))
        .collect();
    for s in ladder_shards() {
        items.push((s, &ladder_cfgs));
    }

    let cap = args.tier.pick(WALL_CAPS.0, WALL_CAPS.1);
    let capped = AtomicBool::new(false);
    par_shards(&report, items.len(), |i, t| {
        let (shard, cfg_idx) = &items[i];
        let family = shard.family();
        let mut n = 0u64;
        shard_docs(shard, &ladders, &mut |doc, size| {
            if n % 4096 == 0 && report.elapsed_s() > cap {
                capped.store(true, Relaxed);
            }
            if capped.load(Relaxed) {
                return;
            }
            // the convenience entry points are compared everywhere except on the largest token
            // sequences (they add a third of the cost there and share all their code)
            let entry_points = !(family == "tree" && size == tree_len);
            for &ci in cfg_idx.iter() {
                let cfg = &cfgs[ci];
                t.states += 1;
                n += 1;
                let viol = eval(cfg, &built[ci], family, doc, entry_points, t);
                if n % 200_000 == 7 {
                    t.sample(|| json!({"cfg": cfg.name, "family": family, "input": engine::truncate(doc, 200)}));
                }
                for (sig, detail) in viol {
                    report.violation(&sig, || engine::truncate(&detail, 1500), || case_json(cfg, family, doc));
                }
            }
        });
    });
    if capped.load(Relaxed) {
        report.capped(&format!("wall cap of {cap} s reached: the remaining documents were not evaluated"));
    }
    report.set("configurations", json!(cfgs.iter().map(|c| c.name).collect::<Vec<_>>()));
    report.set("bounds", json!({"attr_subset_max": attr_k, "tree_tokens_max": tree_len, "ladder_docs": ladders.len()}));
    report.finish()
}

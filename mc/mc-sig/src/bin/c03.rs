//! C03 — event signatures survive redaction; required signers and hash status are enforced.
//!
//! P-explorer: room versions 1..=11 (through `RoomVersionId::rules()`) x 15 event families x
//! signer sets x 4 shapes (full, without `unsigned`, reduced to the keys redaction keeps, the latter plus
//! `unsigned`) x every single-key mutation, `verify_event` compared with a first-principles
//! reference: spec redaction table (engine::spec::redaction) + spec "who must sign" rule +
//! the harness' own canonical JSON encoder.

use std::collections::{BTreeMap, BTreeSet};

use base64::Engine as _;
use engine::{
    catch, par_shards, parse_args, replay_and_exit,
    spec::redaction::{self as spec, RefRedact},
    Report, Tally,
};
use mc_sig::{
    events::{self, required_signers, Signers},
    keys::{self, hex, unhex},
    refjson::{self, from_canonical_obj, to_canonical_obj},
};
use ruma_common::{canonical_json::redact, room_version_rules::RoomVersionRules, RoomVersionId};
use ruma_signatures::{hash_and_sign_event, verify_event, Verified};
use serde_json::{json, Map, Value};

const B64: base64::engine::GeneralPurpose = base64::engine::general_purpose::STANDARD_NO_PAD;

/// (server, key version, seed)
const SIGNERS: [(&str, &str, usize); 5] = [
    (events::SENDER_SERVER, "1", 0),
    (events::SENDER_SERVER, "k_2", 1),
    (events::EVENT_ID_SERVER, "1", 2),
    (events::AUTH_SERVER, "1", 3),
    (events::EXTRA_SERVER, "1", 4),
];

fn rules_for(v: u8) -> RoomVersionRules {
    RoomVersionId::try_from(v.to_string().as_str())
        .ok()
        .and_then(|id| id.rules())
        .unwrap_or_else(|| engine::machinery_error("room version without rules"))
}

type KeyEntries = Vec<(String, String, Vec<u8>)>;

fn full_map() -> KeyEntries {
    SIGNERS
        .iter()
        .map(|(s, ver, seed)| ((*s).to_owned(), format!("ed25519:{ver}"), keys::public_key(*seed).to_vec()))
        .collect()
}

#[derive(Clone, Copy, Debug, PartialEq, Eq)]
enum Exp {
    All,
    Signatures,
    Err,
    Unspecified,
}

impl Exp {
    fn name(self) -> &'static str {
        match self {
            Exp::All => "All",
            Exp::Signatures => "Signatures",
            Exp::Err => "Err",
            Exp::Unspecified => "Unspecified",
        }
    }
}

/// What the signing step produced (the reference point of all later comparisons)
#[derive(Clone, Debug)]
struct Orig {
    v: u8,
    signed: Map<String, Value>,
    /// (server, key id) -> (signature string, public key)
    sigs: BTreeMap<(String, String), (String, Vec<u8>)>,
    red_canon: Option<String>,
    hash_canon: Option<String>,
    sha: Option<String>,
}

fn red_canon(v: u8, ev: &Map<String, Value>) -> Result<Option<String>, Exp> {
    match spec::redact_event(v, ev) {
        RefRedact::Must(m) => Ok(refjson::canonical_without(&m, &["signatures", "unsigned"])),
        RefRedact::MustErr => Err(Exp::Err),
        RefRedact::Unspecified => Err(Exp::Unspecified),
    }
}

fn hash_canon(ev: &Map<String, Value>) -> Option<String> {
    refjson::canonical_without(ev, &["hashes", "signatures", "unsigned"])
}

fn sha_of(ev: &Map<String, Value>) -> Option<String> {
    ev.get("hashes")?.as_object()?.get("sha256")?.as_str().map(str::to_owned)
}

fn is_ed25519_key_id(kid: &str) -> bool {
    match kid.split_once(':') {
        Some(("ed25519", name)) => !name.is_empty() && name.chars().all(|c| c.is_ascii_alphanumeric() || c == '_'),
        _ => false,
    }
}

/// Reference `verify_event` (DESIGN App. A.1 + A.2).
fn model(orig: &Orig, ev: &Map<String, Value>, map: &KeyEntries) -> Exp {
    let v = orig.v;
    // what the *signed* event redacts to is itself Unspecified (v11 third_party_invite without
    // `signed`, DESIGN §1.3): nothing about the signed bytes can be demanded
    if matches!(red_canon(v, &orig.signed), Err(Exp::Unspecified)) {
        return Exp::Unspecified;
    }
    let rc = match red_canon(v, ev) {
        Ok(c) => c,
        Err(e) => return e,
    };
    let required = match required_signers(v, ev) {
        Signers::Must(s) => s,
        Signers::Err => return Exp::Err,
        Signers::Unspecified => return Exp::Unspecified,
    };
    let content_same = rc.is_some() && rc == orig.red_canon;
    let sigs = ev.get("signatures").and_then(Value::as_object);
    for s in &required {
        let Some(sigs) = sigs else { return Exp::Err };
        let Some(set) = sigs.get(s).and_then(Value::as_object) else { return Exp::Err };
        let mut n = 0;
        for (kid, val) in set {
            if !is_ed25519_key_id(kid) {
                continue;
            }
            let key = (s.clone(), kid.clone());
            let valid = content_same
                && match (orig.sigs.get(&key), val.as_str()) {
                    (Some((sig, public)), Some(now)) => {
                        sig == now && map.iter().any(|(e, k, b)| e == s && k == kid && b == public)
                    }
                    _ => false,
                };
            if !valid {
                return Exp::Err;
            }
            n += 1;
        }
        if n == 0 {
            return Exp::Err;
        }
    }
    // nobody has to sign: what a missing hashes / signatures object means is not specified
    if sha_of(ev).is_none() || sigs.is_none() {
        return if required.is_empty() { Exp::Unspecified } else { Exp::Err };
    }
    if hash_canon(ev) == orig.hash_canon && sha_of(ev) == orig.sha {
        Exp::All
    } else {
        Exp::Signatures
    }
}

#[derive(Clone, Debug)]
struct Case {
    v: u8,
    family: String,
    label: String,
    orig: Orig,
    event: Map<String, Value>,
    map: KeyEntries,
    /// compare or only execute (zones the property does not define)
    force_unspecified: bool,
}

fn run_verify(c: &Case, t: &mut Tally) -> (Exp, Vec<(String, String)>) {
    let mut viol = vec![];
    let rules = rules_for(c.v);
    let entries: Vec<(&str, &str, Vec<u8>)> = c.map.iter().map(|(e, k, b)| (e.as_str(), k.as_str(), b.clone())).collect();
    let map = keys::key_map(&entries);
    let obj = to_canonical_obj(&c.event);
    let exp = if c.force_unspecified { Exp::Unspecified } else { model(&c.orig, &c.event, &c.map) };
    t.transitions += 1;
    let got = match catch(|| verify_event(&map, &obj, &rules)) {
        Err(p) => {
            viol.push((format!("panic/{}/verify_event/{}", p.file(), c.label), p.text));
            return (exp, viol);
        }
        Ok(Ok(Verified::All)) => Exp::All,
        Ok(Ok(Verified::Signatures)) => Exp::Signatures,
        Ok(Err(_)) => Exp::Err,
    };
    t.outcome("verify_event", got.name());
    t.outcome("reference", exp.name());
    if exp == Exp::Unspecified {
        t.unspecified += 1;
        // differential part of the property that needs no reference: if the signed event verifies, the
        // copy ruma's own `redact` makes of it still has valid signatures — whatever that redaction keeps
        if !c.force_unspecified && c.label.ends_with("/redacted-by-ruma") && got == Exp::Err {
            let orig_obj = to_canonical_obj(&c.orig.signed);
            t.transitions += 1;
            if let Ok(Ok(_)) = catch(|| verify_event(&map, &orig_obj, &rules)) {
                viol.push((
                    format!("redacted-copy-fails/v{}/{}", c.v, c.family),
                    format!(
                        "v{} {}: the signed event verifies, ruma's redacted copy of it does not: {}",
                        c.v,
                        c.family,
                        Value::Object(c.event.clone())
                    ),
                ));
            }
        }
    } else if exp != got {
        viol.push((
            // the signer-set prefix of the label is part of the case, not of the class
            format!(
                "verify_event/v{}/{}/{}/expected-{}-got-{}",
                c.v,
                c.family,
                c.label.split_once('/').map(|(_, l)| l).unwrap_or(&c.label),
                exp.name(),
                got.name()
            ),
            format!("v{} {} {}: reference {} ruma {} on {}", c.v, c.family, c.label, exp.name(), got.name(), Value::Object(c.event.clone())),
        ));
    }
    (exp, viol)
}

/// sign `ev` by the signers in `mask` (bit i = SIGNERS[i]) with the real code
fn sign(v: u8, ev: &Map<String, Value>, mask: u32, t: &mut Tally) -> Result<Orig, (String, String)> {
    let rules = rules_for(v);
    let mut obj = to_canonical_obj(ev);
    let mut sigs = BTreeMap::new();
    for (i, (server, ver, seed)) in SIGNERS.iter().enumerate() {
        if mask & (1 << i) == 0 {
            continue;
        }
        let kp = keys::key_pair(*seed, ver);
        t.transitions += 1;
        match catch(|| hash_and_sign_event(server, &kp, &mut obj, &rules.redaction)) {
            Ok(Ok(())) => {}
            Ok(Err(e)) => return Err((format!("hash_and_sign_event/error/v{v}"), e.to_string())),
            Err(p) => return Err((format!("panic/{}/hash_and_sign_event", p.file()), p.text)),
        }
        sigs.insert(((*server).to_owned(), format!("ed25519:{ver}")), (String::new(), kp.public_key().to_vec()));
    }
    let signed = from_canonical_obj(&obj);
    for ((s, k), (sig, _)) in sigs.iter_mut() {
        match signed.get("signatures").and_then(|x| x.get(s)).and_then(|x| x.get(k)).and_then(Value::as_str) {
            Some(x) => *sig = x.to_owned(),
            None => return Err((format!("hash_and_sign_event/signature-missing/v{v}"), format!("{s} {k} in {}", Value::Object(signed)))),
        }
    }
    // nothing but hashes / signatures may have changed
    let mut back = signed.clone();
    back.remove("signatures");
    back.remove("hashes");
    let mut ev_no_hashes = ev.clone();
    ev_no_hashes.remove("hashes");
    if mask != 0 && back != ev_no_hashes {
        return Err((format!("hash_and_sign_event/changed-event/v{v}"), format!("{} -> {}", Value::Object(ev.clone()), Value::Object(signed))));
    }
    let rc = red_canon(v, &signed).ok().flatten();
    Ok(Orig { v, hash_canon: hash_canon(&signed), sha: sha_of(&signed), red_canon: rc, signed, sigs })
}

fn mask_of(servers: &BTreeSet<String>, extra: bool) -> u32 {
    let mut m = 0;
    for (i, (s, ver, _)) in SIGNERS.iter().enumerate() {
        if *ver == "k_2" {
            continue;
        }
        if servers.contains(*s) || (extra && *s == events::EXTRA_SERVER) {
            m |= 1 << i;
        }
    }
    m
}

/// all cases of one (version, family) shard
fn cases_for(v: u8, fam: &events::Family, thorough: bool, t: &mut Tally, report: &Report, f: &mut dyn FnMut(Case, &mut Tally)) {
    let ev = &fam.event;
    let fail = |sig: String, detail: String| {
        report.violation(&sig, || detail, || json!({"kind": "sign", "v": v, "family": fam.name}));
    };
    let mk = |label: String, orig: &Orig, event: Map<String, Value>, map: KeyEntries, unspec: bool| Case {
        v,
        family: fam.name.to_owned(),
        label,
        orig: orig.clone(),
        event,
        map,
        force_unspecified: unspec,
    };
    // (1) every signer set: sign -> verify; redacted copies -> verify
    for mask in 0..32u32 {
        let orig = match sign(v, ev, mask, t) {
            Ok(o) => o,
            Err((s, d)) => {
                fail(s, d);
                continue;
            }
        };
        f(mk(format!("signers-{mask:05b}/as-signed"), &orig, orig.signed.clone(), full_map(), false), t);
        if mask == 0 {
            continue;
        }
        // redacted copy made by the reference table and by ruma itself
        let req_orig = match required_signers(v, &orig.signed) {
            Signers::Must(s) => Some(s),
            _ => None,
        };
        let mut copies: Vec<(&str, Map<String, Value>)> = vec![];
        if let RefRedact::Must(m) = spec::redact_event(v, &orig.signed) {
            copies.push(("redacted-by-reference", m));
        }
        t.transitions += 1;
        match catch(|| redact(to_canonical_obj(&orig.signed), &rules_for(v).redaction, None)) {
            Ok(Ok(r)) => copies.push(("redacted-by-ruma", from_canonical_obj(&r))),
            Ok(Err(e)) => fail(format!("redact/error/v{v}/{}", fam.name), e.to_string()),
            Err(p) => fail(format!("panic/{}/redact", p.file()), p.text),
        }
        for (name, copy) in copies {
            // the redacted copy may need a signer the original did not (third-party invite whose
            // marker key is stripped before v11): the property presupposes an event that verifies
            let req_red = match required_signers(v, &copy) {
                Signers::Must(s) => Some(s),
                _ => None,
            };
            let unspec = match (&req_orig, &req_red) {
                (Some(a), Some(b)) => !b.is_subset(a),
                _ => true,
            };
            f(mk(format!("signers-{mask:05b}/{name}"), &orig, copy, full_map(), unspec), t);
        }
    }
    // (2) mutations, for three signer sets: everyone, exactly the required servers, required + unrelated
    let required = match required_signers(v, ev) {
        Signers::Must(s) => s,
        _ => engine::machinery_error("family without defined signers"),
    };
    let mut masks = vec![0b11111u32, mask_of(&required, false), mask_of(&required, true)];
    if thorough {
        // every signer set that contains the required servers, and every set that misses exactly one of them
        let req = mask_of(&required, false);
        for m in 1..32u32 {
            if m & req == req || (req & !m).count_ones() == 1 {
                masks.push(m);
            }
        }
    }
    masks.sort();
    masks.dedup();
    for mask in masks {
        if mask == 0 {
            continue;
        }
        let orig = match sign(v, ev, mask, t) {
            Ok(o) => o,
            Err((s, d)) => {
                fail(s, d);
                continue;
            }
        };
        let tag = format!("signers-{mask:05b}");
        for m in events::mutations(&orig.signed) {
            f(mk(format!("{tag}/{}", m.label), &orig, m.event, full_map(), false), t);
        }
        // signatures and key material
        let keys_present: Vec<(String, String)> = orig.sigs.keys().cloned().collect();
        for (s, k) in &keys_present {
            let is_required = required.contains(s);
            let with = |val: Option<Value>| {
                let mut e = orig.signed.clone();
                let set = e.get_mut("signatures").unwrap().get_mut(s.as_str()).unwrap().as_object_mut().unwrap();
                match val {
                    Some(x) => {
                        set.insert(k.clone(), x);
                    }
                    None => {
                        set.remove(k);
                    }
                }
                e
            };
            let sig = B64.decode(&orig.sigs[&(s.clone(), k.clone())].0).unwrap_or_default();
            for bit in [0usize, 7, 255, 256, 300, 511] {
                let mut b = sig.clone();
                if b.len() == 64 {
                    b[bit / 8] ^= 1 << (bit % 8);
                }
                // a corrupt signature of a server nobody asked for: not defined by the property
                f(mk(format!("{tag}/signature-bit-flip:{s}"), &orig, with(Some(json!(B64.encode(&b)))), full_map(), !is_required), t);
            }
            f(mk(format!("{tag}/signature-not-a-string:{s}"), &orig, with(Some(json!(1))), full_map(), !is_required), t);
            f(mk(format!("{tag}/signature-removed:{s}/{k}"), &orig, with(None), full_map(), false), t);
            f(mk(format!("{tag}/extra-unsupported-algorithm:{s}"), &orig, {
                let mut e = orig.signed.clone();
                e.get_mut("signatures").unwrap().get_mut(s.as_str()).unwrap().as_object_mut().unwrap().insert("foo:1".into(), json!("AAAA"));
                e
            }, full_map(), false), t);
            // the whole server entry removed
            let mut e = orig.signed.clone();
            e.get_mut("signatures").unwrap().as_object_mut().unwrap().remove(s.as_str());
            f(mk(format!("{tag}/signer-removed:{s}"), &orig, e, full_map(), false), t);
            // key map: key id missing, server missing, key bit flipped
            let m: KeyEntries = full_map().into_iter().filter(|(e, kk, _)| !(e == s && kk == k)).collect();
            f(mk(format!("{tag}/public-key-missing:{s}/{k}"), &orig, orig.signed.clone(), m, false), t);
            let m: KeyEntries = full_map().into_iter().filter(|(e, _, _)| e != s).collect();
            f(mk(format!("{tag}/public-keys-of-server-missing:{s}"), &orig, orig.signed.clone(), m, false), t);
            let mut m = full_map();
            for x in m.iter_mut().filter(|(e, kk, _)| e == s && kk == k) {
                x.2[3] ^= 0x10;
            }
            f(mk(format!("{tag}/public-key-bit-flip:{s}"), &orig, orig.signed.clone(), m, false), t);
        }
        // a signature of a server without any key, nobody requires it
        let mut e = orig.signed.clone();
        e.get_mut("signatures").unwrap().as_object_mut().unwrap().insert("nokey.org".into(), json!({"ed25519:1": "AAAA"}));
        f(mk(format!("{tag}/unrequired-unknown-signer-added"), &orig, e, full_map(), false), t);
        // signatures object replaced
        let mut e = orig.signed.clone();
        e.insert("signatures".into(), json!("x"));
        f(mk(format!("{tag}/signatures-not-an-object"), &orig, e, full_map(), false), t);
        let mut e = orig.signed.clone();
        e.remove("signatures");
        f(mk(format!("{tag}/signatures-removed"), &orig, e, full_map(), false), t);
    }
}

fn case_json(c: &Case) -> Value {
    json!({
        "kind": "verify", "v": c.v, "family": c.family, "label": c.label, "event": c.event,
        "map": c.map.iter().map(|(e, k, b)| json!([e, k, hex(b)])).collect::<Vec<_>>(),
        "force_unspecified": c.force_unspecified,
        "orig": {
            "signed": c.orig.signed,
            "sigs": c.orig.sigs.iter().map(|((s, k), (sig, p))| json!([s, k, sig, hex(p)])).collect::<Vec<_>>(),
        },
    })
}

fn case_from_json(j: &Value) -> Option<Case> {
    if j["kind"] != "verify" {
        return None;
    }
    let v = j["v"].as_u64()? as u8;
    let signed = j["orig"]["signed"].as_object()?.clone();
    let mut sigs = BTreeMap::new();
    for x in j["orig"]["sigs"].as_array()? {
        sigs.insert(
            (x[0].as_str()?.to_owned(), x[1].as_str()?.to_owned()),
            (x[2].as_str()?.to_owned(), unhex(x[3].as_str()?)),
        );
    }
    let orig = Orig {
        v,
        red_canon: red_canon(v, &signed).ok().flatten(),
        hash_canon: hash_canon(&signed),
        sha: sha_of(&signed),
        signed,
        sigs,
    };
    Some(Case {
        v,
        family: j["family"].as_str()?.to_owned(),
        label: j["label"].as_str()?.to_owned(),
        orig,
        event: j["event"].as_object()?.clone(),
        map: j["map"]
            .as_array()?
            .iter()
            .map(|k| (k[0].as_str().unwrap_or("").to_owned(), k[1].as_str().unwrap_or("").to_owned(), unhex(k[2].as_str().unwrap_or(""))))
            .collect(),
        force_unspecified: j["force_unspecified"].as_bool().unwrap_or(false),
    })
}

fn main() {
    let args = parse_args();
    if let Some(p) = &args.replay {
        replay_and_exit("C03", p, |j| match case_from_json(j) {
            Some(c) => run_verify(&c, &mut Tally::new()).1,
            None => {
                // a signing failure: re-run the signing of that (version, family)
                let v = j["v"].as_u64().unwrap_or(1) as u8;
                let fams = events::families();
                let base = j["family"].as_str().unwrap_or("").split('~').next().unwrap_or("").to_owned();
                let Some(fam) = fams.iter().find(|f| f.name == base) else { return vec![] };
                let mut out = vec![];
                for mask in 0..32 {
                    if let Err(e) = sign(v, &fam.event, mask, &mut Tally::new()) {
                        out.push(e);
                    }
                }
                out.sort();
                out.dedup();
                out
            }
        });
    }
    let report = Report::new("C03", "model_checking", &args);
    let fams = events::families();
    report.set_rule(&format!(
        "product: room versions 1..=11 (RoomVersionId::rules()) x {} event families (7 member variants incl. third-party invite and \
         restricted join, create, join_rules+allow, power_levels, aliases, history_visibility, redaction, message, unknown type; each \
         with every content key the spec names for any version + unknown content key + unknown top-level key + unsigned + redacts + \
         origin/membership/prev_state; each family in 4 shapes: full, without unsigned, reduced to what redaction keeps under that \
         version (an event redaction leaves untouched), the latter plus unsigned) x all 32 subsets of 5 signing keys (sender server with two keys, event-id server, authorising \
         server, unrelated server) signed with the real hash_and_sign_event; for each: verify_event as signed, on the redacted copy \
         (reference redaction and ruma's redact); for 3 signer sets (all / exactly required / required + unrelated; thorough tier: every superset of the required servers and every set missing exactly one of them): every single-key \
         mutation (change, delete, kind change, added key at top level, content, unsigned, hashes, third_party_invite, \
         third_party_invite.signed), signature bit flips / removal / non-string, signer removal, unsupported-algorithm entry, key-map \
         removal / bit flip, unknown unrequired signer. Expected Verified::All / Verified::Signatures / Err computed from the spec \
         redaction table + required-signer rule + own canonical JSON encoder. state = one (version, event, key map) case; transition = \
         one call of hash_and_sign_event / redact / verify_event; non-trivial = the reference defines the result",
        fams.len()
    ));
    report.assume("reference = DESIGN App. A.1 (redaction table) + A.2 (required signers; all present Ed25519 signatures of a required server must verify)");
    report.assume("Unspecified (executed, not compared): malformed m.room.member content; join_authorised_via_users_server on a non-join event; events nobody must sign whose hashes / signatures are missing; a corrupt signature of a server that is not required; redacted copies that need a signer the original did not (third-party invite before v11)");
    report.require_outcomes("verify_event", 3);
    report.require_outcomes("reference", 3);

    // shapes of each family: the full event (every key present); the same without `unsigned`; the
    // event reduced to what redaction keeps under that room version (an event redaction leaves
    // untouched), without and with an `unsigned` object
    let mut shards: Vec<(u8, events::Family)> = vec![];
    for v in 1..=11u8 {
        for fam in &fams {
            shards.push((v, fam.clone()));
            let named = |suffix: &str, event: Map<String, Value>| events::Family {
                name: Box::leak(format!("{}~{suffix}", fam.name).into_boxed_str()),
                event,
            };
            let mut e = fam.event.clone();
            e.remove("unsigned");
            shards.push((v, named("no-unsigned", e)));
            // an event that arrives with a content hash that does not match (a stale one from an earlier
            // version of the content, or another algorithm's entry): hashing and signing must replace it
            let mut e = fam.event.clone();
            e.insert("hashes".into(), json!({"sha256": "c3RhbGUgaGFzaCBvZiBhbiBlYXJsaWVyIGNvbnRlbnQ", "md5": "b3RoZXI"}));
            shards.push((v, named("stale-hashes", e)));
            if let RefRedact::Must(mut m) = spec::redact_event(v, &fam.event) {
                m.remove("unsigned");
                shards.push((v, named("kept-only", m.clone())));
                m.insert("unsigned".into(), json!({"age": 5}));
                shards.push((v, named("kept-only+unsigned", m)));
            }
        }
    }
    let thorough = args.tier.is_thorough();
    report.set("mutation_signer_sets", json!(if thorough { "all / exactly required / required + unrelated / every superset of the required servers / every set missing exactly one required server" } else { "all / exactly required / required + unrelated" }));
    report.set("shapes", json!(["full", "no-unsigned", "stale-hashes", "kept-only", "kept-only+unsigned"]));
    par_shards(&report, shards.len(), |i, t| {
        let (v, fam) = (shards[i].0, &shards[i].1);
        let mut n = 0usize;
        cases_for(v, fam, thorough, t, &report, &mut |case, t2| {
            t2.states += 1;
            n += 1;
            let (exp, viol) = run_verify(&case, t2);
            if exp != Exp::Unspecified {
                t2.nontrivial += 1;
            }
            if n == 5 + (i * 13) % 600 {
                t2.sample(|| json!({"v": case.v, "family": case.family, "case": case.label, "reference": exp.name(), "event": case.event}));
            }
            for (sig, detail) in viol {
                report.violation(&sig, || detail, || case_json(&case));
            }
        });
    });
    // events whose hashed form is at / just below the 65 535-byte limit: what could be hashed and signed must
    // verify (the limit applies to the event without `hashes`, `signatures`, `unsigned`)
    let near: Vec<(u8, usize)> = [1u8, 4, 11].iter().flat_map(|v| [0usize, 1, 30, 65, 66, 67, 100].map(|d| (*v, d))).collect();
    par_shards(&report, near.len(), |i, t| {
        let (v, below) = near[i];
        let Some(fam) = fams.iter().find(|f| f.name == "message") else { return };
        let mut ev = fam.event.clone();
        let size = |e: &Map<String, Value>| refjson::canonical_without(e, &["hashes", "signatures", "unsigned"]).map(|s| s.len()).unwrap_or(0);
        let pad = (65_535 - below).saturating_sub(size(&ev));
        let body = format!("{}{}", ev["content"]["body"].as_str().unwrap_or(""), "a".repeat(pad));
        ev.get_mut("content").and_then(Value::as_object_mut).map(|c| c.insert("body".into(), json!(body)));
        if size(&ev) != 65_535 - below {
            engine::machinery_error("near-limit event has the wrong size");
        }
        let required = match required_signers(v, &ev) {
            Signers::Must(s) => s,
            _ => return,
        };
        let orig = match sign(v, &ev, mask_of(&required, false), t) {
            Ok(o) => o,
            Err((s, d)) => {
                report.violation(&format!("near-limit/{s}"), || d, || json!({"kind": "sign", "v": v, "family": "message"}));
                return;
            }
        };
        let case = Case {
            v,
            family: "message~near-limit".into(),
            label: format!("near-limit/{below}-bytes-below-the-limit/as-signed"),
            orig: orig.clone(),
            event: orig.signed.clone(),
            map: full_map(),
            force_unspecified: false,
        };
        t.states += 1;
        t.nontrivial += 1;
        for (sig, detail) in run_verify(&case, t).1 {
            report.violation(&sig, || detail.chars().take(600).collect(), || json!({"kind": "near-limit", "v": v, "below": below}));
        }
    });
    report.set("versions", json!((1..=11).collect::<Vec<u8>>()));
    report.set("families", json!(fams.iter().map(|f| f.name).collect::<Vec<_>>()));
    report.finish()
}

//! C02 — JSON signing is interoperable Ed25519 and verification is sound.
//!
//! S-part: hand-written BFS over sign sequences (state = signed object + which key made which
//! signature, dedup on the canonical object) calling the real `sign_json`, with the invariants
//! of DESIGN §3 C02 at every transition, and the newest signature of every state validated by
//! the pure-python RFC 8032 verifier over python's canonical JSON.
//! P-part: every single-field / single-bit tampering of every signed object reachable in <= 2
//! steps against the acceptance table derived from the property statement.

use std::collections::{BTreeMap, BTreeSet, VecDeque};

use base64::Engine as _;
use engine::{catch, par_shards, parse_args, replay_and_exit, Report, Tally, Tier};
use mc_sig::{
    keys::{self, hex, unhex},
    pyval::{self, Trace},
    refjson::{self, from_canonical_obj, obj, to_canonical_obj},
};
use ruma_common::{serde::Base64, CanonicalJsonObject, SigningKeyAlgorithm};
use ruma_signatures::{sign_json, verify_canonical_json_bytes, verify_json, PublicKeyMap};
use serde_json::{json, Map, Value};

const B64: base64::engine::GeneralPurpose = base64::engine::general_purpose::STANDARD_NO_PAD;

type KeyAssign = BTreeMap<(String, String), usize>; // (entity, key id) -> seed index

#[derive(Clone, Debug)]
struct St {
    base: &'static str,
    obj: Map<String, Value>,
    keys: KeyAssign,
    depth: usize,
    path: Vec<String>,
}

#[derive(Clone, Copy, Debug)]
struct Action {
    entity: &'static str,
    seed: usize,
    version: &'static str,
}

fn actions() -> Vec<Action> {
    let mut v = vec![];
    for (entity, seeds) in [("a.org", [0usize, 1]), ("b.org", [1, 2]), ("é", [2, 3])] {
        for seed in seeds {
            // (a version may contain a colon: the algorithm is what precedes the FIRST one)
            for version in ["1", "k_2", "2024:01"] {
                v.push(Action { entity, seed, version });
            }
        }
    }
    v
}

fn bases(tier: Tier) -> Vec<(&'static str, Map<String, Value>, KeyAssign)> {
    // a valid pre-existing signature of a foreign entity, made once with the real code
    let mut foreign = to_canonical_obj(&obj(json!({"k": "v", "n": [1, {"z": null}]})));
    sign_json("c.org", &keys::key_pair(5, "1"), &mut foreign)
        .unwrap_or_else(|e| engine::machinery_error(&format!("cannot build base object: {e}")));
    let foreign = from_canonical_obj(&foreign);
    let mut fk = KeyAssign::new();
    fk.insert(("c.org".into(), "ed25519:1".into()), 5);
    let none = KeyAssign::new;
    let all = vec![
        ("with-unsigned", obj(json!({"a": 1, "unsigned": {"age": 5, "x": [1, {"y": null}]}})), none()),
        ("foreign-valid-signature", foreign, fk),
        // keys that the *event* functions treat specially (`hashes` is outside the content hash, `content` /
        // `type` drive redaction): for plain JSON signing they are ordinary signed content
        (
            "event-like-keys",
            obj(json!({"hashes": {"sha256": "aGFzaA"}, "type": "m.room.member", "event_id": "$e", "content": {"hashes": 1, "membership": "join", "x": "y"},
                       "origin": "a.org", "unsigned": {"age": 1}})),
            none(),
        ),
        ("escapes", obj(json!({"\"q\"": "line\nfeed", "é": "\u{10000}", "\\": "\u{7f}\u{1f}", "unsigned": {"é": "\u{0}"}})), none()),
        ("signatures-not-object", obj(json!({"a": 1, "signatures": "oops", "unsigned": {"u": 1}})), none()),
        ("entity-entry-not-object", obj(json!({"a": 1, "signatures": {"a.org": "oops"}, "unsigned": {"u": 1}})), none()),
        ("empty", Map::new(), none()),
        ("foreign-unsupported-only", obj(json!({"k": "v", "signatures": {"c.org": {"foo:1": "AAAA"}}})), none()),
        ("own-unsupported", obj(json!({"k": "v", "signatures": {"a.org": {"foo:1": "AAAA", "nocolon": "AAAA"}}})), none()),
        (
            "nested-content",
            obj(json!({"content": {"body": "x", "n": [1, 2, {"deep": {"z": null}}]}, "type": "m.x", "depth": 3, "unsigned": {"age": 1}})),
            none(),
        ),
        (
            "int-boundaries",
            obj(json!({"max": 9_007_199_254_740_991i64, "min": -9_007_199_254_740_991i64, "t": true, "n": null, "arr": [[], {}]})),
            none(),
        ),
        (
            "nested-signatures-key",
            obj(json!({"content": {"signatures": {"x": {"ed25519:1": "AA"}}, "unsigned": {"y": 1}}, "unsigned": {"age": 1}})),
            none(),
        ),
        ("empty-signatures-object", obj(json!({"signatures": {}, "unsigned": {}, "v": 0})), none()),
    ];
    // JSON signing has no size limit (only event hashing has): an object of 70 000 canonical bytes
    let mut all = all;
    all.insert(2, ("large-object", obj(json!({"blob": "a".repeat(70_000), "unsigned": {"age": 1}})), none()));
    if tier.is_thorough() {
        all
    } else {
        all.into_iter().take(7).collect()
    }
}

// ---------------------------------------------------------------------------------------
// reference model (from the property statement / DESIGN App. A.2)

#[derive(Clone, Copy, Debug, PartialEq, Eq)]
enum Exp {
    Ok,
    Err,
    Unspecified,
}

/// `sign_json` must fail iff `signatures` is present and not an object, or the entity's entry
/// is present and not an object. Returns the cause.
fn model_sign_error(obj: &Map<String, Value>, entity: &str) -> Option<&'static str> {
    match obj.get("signatures") {
        None => None,
        Some(Value::Object(m)) => match m.get(entity) {
            None | Some(Value::Object(_)) => None,
            Some(_) => Some("entity-entry-not-object"),
        },
        Some(_) => Some("signatures-not-object"),
    }
}

fn is_ed25519_key_id(kid: &str) -> bool {
    match kid.split_once(':') {
        Some(("ed25519", name)) => !name.is_empty() && name.chars().all(|c| c.is_ascii_alphanumeric() || c == '_' || c == ':'),
        _ => false,
    }
}

/// Acceptance table of `verify_json`: every entity named in `signatures` needs an object of
/// signatures with >= 1 Ed25519 entry, and every Ed25519 entry must be valid under the supplied
/// key (`valid` tells which (entity, key id) entries are valid signatures of the current signed
/// content under the key the map holds).
fn model_verify(obj: &Map<String, Value>, valid: &dyn Fn(&str, &str, &Value) -> bool) -> Exp {
    let sigs = match obj.get("signatures") {
        None => return Exp::Unspecified,
        Some(Value::Object(m)) if m.is_empty() => return Exp::Unspecified,
        Some(Value::Object(m)) => m,
        Some(_) => return Exp::Err,
    };
    for (entity, set) in sigs {
        let Some(set) = set.as_object() else { return Exp::Err };
        let mut n = 0;
        for (kid, sig) in set {
            if !is_ed25519_key_id(kid) {
                continue;
            }
            if !valid(entity, kid, sig) {
                return Exp::Err;
            }
            n += 1;
        }
        if n == 0 {
            return Exp::Err;
        }
    }
    Exp::Ok
}

fn key_map_of(keys: &KeyAssign) -> PublicKeyMap {
    let mut m = PublicKeyMap::new();
    for ((e, k), seed) in keys {
        m.entry(e.clone()).or_default().insert(k.clone(), Base64::new(keys::public_key(*seed).to_vec()));
    }
    m
}

// ---------------------------------------------------------------------------------------
// S-part: one transition

struct StepOut {
    viol: Vec<(String, String)>,
    next: Option<St>,
    line: Option<String>,
}

fn step(pre: &St, a: &Action, t: &mut Tally) -> StepOut {
    let mut viol = vec![];
    let kp = keys::key_pair(a.seed, a.version);
    let key_id = format!("ed25519:{}", a.version);
    let mut o = to_canonical_obj(&pre.obj);
    t.transitions += 1;
    let r = match catch(|| sign_json(a.entity, &kp, &mut o)) {
        Ok(r) => r,
        Err(p) => {
            viol.push((format!("panic/{}/sign_json", p.file()), p.text));
            return StepOut { viol, next: None, line: None };
        }
    };
    let post = from_canonical_obj(&o);
    let cause = model_sign_error(&pre.obj, a.entity);
    t.outcome("sign_json", if r.is_ok() { "ok" } else { "err" });
    if let Some(cause) = cause {
        match r {
            Ok(()) => viol.push((
                format!("sign_json/accepted-malformed/{cause}"),
                format!("{} signed by {}", Value::Object(pre.obj.clone()), a.entity),
            )),
            Err(e) => {
                if post != pre.obj {
                    let mut lost: Vec<&str> =
                        pre.obj.keys().filter(|k| post.get(*k) != pre.obj.get(*k)).map(String::as_str).collect();
                    lost.sort();
                    viol.push((
                        format!("sign_json/error-not-atomic/{cause}/lost-{}", lost.join("+")),
                        format!(
                            "sign_json({:?}) returned Err({e}) and left {} (was {})",
                            a.entity,
                            Value::Object(post.clone()),
                            Value::Object(pre.obj.clone())
                        ),
                    ));
                }
            }
        }
        return StepOut { viol, next: None, line: None };
    }
    if let Err(e) = &r {
        viol.push((format!("sign_json/unexpected-error/{}", pre.base), format!("{e} on {}", Value::Object(pre.obj.clone()))));
        return StepOut { viol, next: None, line: None };
    }
    // where and how the signature is stored
    let sig_s = post
        .get("signatures")
        .and_then(|s| s.get(a.entity))
        .and_then(|s| s.get(&key_id))
        .and_then(Value::as_str)
        .map(str::to_owned);
    let Some(sig_s) = sig_s else {
        viol.push((
            "sign_json/signature-not-at-entity-keyid".into(),
            format!("no string at signatures[{:?}][{key_id:?}] in {}", a.entity, Value::Object(post)),
        ));
        return StepOut { viol, next: None, line: None };
    };
    // everything else untouched
    let mut expected = pre.obj.clone();
    {
        let sigs = expected.entry("signatures").or_insert_with(|| json!({})).as_object_mut().unwrap();
        let set = sigs.entry(a.entity).or_insert_with(|| json!({})).as_object_mut().unwrap();
        set.insert(key_id.clone(), json!(sig_s));
    }
    if expected != post {
        let mut diff: Vec<&str> = expected
            .keys()
            .chain(post.keys())
            .filter(|k| expected.get(*k) != post.get(*k))
            .map(String::as_str)
            .collect();
        diff.sort();
        diff.dedup();
        viol.push((
            format!("sign_json/changed-other-fields/{}", diff.join("+")),
            format!("expected {} got {}", Value::Object(expected.clone()), Value::Object(post.clone())),
        ));
    }
    let sig_bytes = B64.decode(&sig_s).ok();
    let shape_ok = sig_s.len() == 86
        && sig_s.bytes().all(|b| b.is_ascii_alphanumeric() || b == b'+' || b == b'/')
        && sig_bytes.as_ref().map(Vec::len) == Some(64);
    if !shape_ok {
        viol.push(("sign_json/signature-not-unpadded-standard-base64".into(), format!("{sig_s:?}")));
    }
    // canonical JSON entry point vs reference encoder
    t.transitions += 1;
    let canon = match catch(|| ruma_signatures::canonical_json(&o)) {
        Ok(Ok(c)) => c,
        Ok(Err(e)) => {
            viol.push(("canonical_json/error".into(), e.to_string()));
            String::new()
        }
        Err(p) => {
            viol.push((format!("panic/{}/canonical_json", p.file()), p.text));
            String::new()
        }
    };
    let ref_canon = refjson::canonical_without(&post, &["signatures", "unsigned"]).unwrap_or_default();
    if canon != ref_canon {
        viol.push(("canonical_json/differs-from-reference".into(), format!("ruma {canon} reference {ref_canon}")));
    }
    // low-level verification entry point
    let public = kp.public_key();
    if let Some(sb) = &sig_bytes {
        t.transitions += 1;
        match catch(|| verify_canonical_json_bytes(&SigningKeyAlgorithm::Ed25519, &public, sb, ref_canon.as_bytes())) {
            Ok(Ok(())) => {}
            Ok(Err(e)) => viol.push(("verify_canonical_json_bytes/rejects-fresh-signature".into(), e.to_string())),
            Err(p) => viol.push((format!("panic/{}/verify_canonical_json_bytes", p.file()), p.text)),
        }
    }
    // verify_json with the matching key map
    let mut keys2 = pre.keys.clone();
    keys2.insert((a.entity.to_owned(), key_id.clone()), a.seed);
    let exp = model_verify(&expected, &|e, k, _| keys2.contains_key(&(e.to_owned(), k.to_owned())));
    t.transitions += 1;
    match catch(|| verify_json(&key_map_of(&keys2), &o)) {
        Err(p) => viol.push((format!("panic/{}/verify_json", p.file()), p.text)),
        Ok(r) => {
            t.outcome("verify_json-after-sign", if r.is_ok() { "ok" } else { "err" });
            match (exp, &r) {
                (Exp::Unspecified, _) => t.unspecified += 1,
                (Exp::Ok, Err(e)) => viol.push((
                    format!("verify_json/rejects-signed-object/{}", pre.base),
                    format!("{e} on {}", Value::Object(post.clone())),
                )),
                (Exp::Err, Ok(())) => viol.push((
                    format!("verify_json/accepts-unverifiable-entity/{}", pre.base),
                    format!("{}", Value::Object(post.clone())),
                )),
                _ => {}
            }
        }
    }
    let line = json!({
        "c": format!("sign/{}", pre.base),
        "obj": hex(Value::Object(post.clone()).to_string().as_bytes()),
        "entity": a.entity, "key_id": key_id, "sig": sig_s,
        "pub": hex(&public), "seed": hex(&keys::seed(a.seed)),
        "canon": hex(canon.as_bytes()), "expect": true,
    })
    .to_string();
    let mut path = pre.path.clone();
    path.push(format!("{}/{}#{}", a.entity, a.version, a.seed));
    // resynchronise on the model's successor so deeper sequences stay meaningful
    StepOut { viol, next: Some(St { base: pre.base, obj: expected, keys: keys2, depth: pre.depth + 1, path }), line: Some(line) }
}

// ---------------------------------------------------------------------------------------
// P-part: tamperings of one signed state

#[derive(Clone, Debug)]
struct Tamper {
    label: String,
    obj: Map<String, Value>,
    map: Vec<(String, String, Vec<u8>)>,
    expect: Exp,
}

fn map_entries(keys: &KeyAssign) -> Vec<(String, String, Vec<u8>)> {
    keys.iter().map(|((e, k), s)| (e.clone(), k.clone(), keys::public_key(*s).to_vec())).collect()
}

fn tweak(v: &Value) -> Value {
    match v {
        Value::Null => json!(false),
        Value::Bool(b) => json!(!b),
        Value::Number(n) => {
            let i = n.as_i64().unwrap_or(0);
            json!(if i > 0 { i - 1 } else { i + 1 })
        }
        Value::String(s) => json!(format!("{s}x")),
        Value::Array(a) => {
            let mut a = a.clone();
            a.push(json!(null));
            Value::Array(a)
        }
        Value::Object(m) => {
            let mut m = m.clone();
            m.insert("added".into(), json!(null));
            Value::Object(m)
        }
    }
}

/// every single change / deletion / addition below `v`; `f` gets (path label, new value)
fn for_each_edit(v: &Value, path: &str, f: &mut dyn FnMut(String, Value)) {
    match v {
        Value::Object(m) => {
            for (k, x) in m {
                let p = format!("{path}.{k}");
                let mut m2 = m.clone();
                m2.remove(k);
                f(format!("delete:{p}"), Value::Object(m2));
                let mut m2 = m.clone();
                m2.insert(k.clone(), tweak(x));
                f(format!("change:{p}"), Value::Object(m2));
                // rename the key (same value under another key)
                let mut m2 = m.clone();
                m2.remove(k);
                m2.insert(format!("{k}_"), x.clone());
                f(format!("rename:{p}"), Value::Object(m2));
                for_each_edit(x, &p, &mut |l, nx| {
                    let mut m3 = m.clone();
                    m3.insert(k.clone(), nx);
                    f(l, Value::Object(m3));
                });
            }
            let mut m2 = m.clone();
            m2.insert("zz_new".into(), json!(0));
            f(format!("add:{path}.zz_new"), Value::Object(m2));
        }
        Value::Array(a) => {
            for (i, x) in a.iter().enumerate() {
                let p = format!("{path}[{i}]");
                let mut a2 = a.clone();
                a2.remove(i);
                f(format!("delete:{p}"), Value::Array(a2));
                let mut a2 = a.clone();
                a2[i] = tweak(x);
                f(format!("change:{p}"), Value::Array(a2));
                for_each_edit(x, &p, &mut |l, nx| {
                    let mut a3 = a.clone();
                    a3[i] = nx;
                    f(l, Value::Array(a3));
                });
            }
            let mut a2 = a.clone();
            a2.insert(0, json!(0));
            f(format!("add:{path}[0]"), Value::Array(a2));
            if a.len() >= 2 {
                let mut a2 = a.clone();
                a2.swap(0, 1);
                if a2 != *a {
                    f(format!("swap:{path}[0,1]"), Value::Array(a2));
                }
            }
        }
        _ => {}
    }
}

fn tamperings(st: &St, tier: Tier, f: &mut dyn FnMut(Tamper)) {
    let map = map_entries(&st.keys);
    let base_obj = &st.obj;
    // signed part: everything except top-level signatures / unsigned
    let mut signed = base_obj.clone();
    let sigs = signed.remove("signatures");
    let unsigned = signed.remove("unsigned");
    let rebuild = |signed: Value, sigs: Option<Value>, unsigned: Option<Value>| {
        let mut m = signed.as_object().cloned().unwrap_or_default();
        if let Some(s) = sigs {
            m.insert("signatures".into(), s);
        }
        if let Some(u) = unsigned {
            m.insert("unsigned".into(), u);
        }
        m
    };
    for_each_edit(&Value::Object(signed.clone()), "", &mut |label, nv| {
        // an added top-level key named like the stripped ones is not a change of signed content
        f(Tamper { label: format!("signed/{label}"), obj: rebuild(nv, sigs.clone(), unsigned.clone()), map: map.clone(), expect: Exp::Err });
    });
    // unsigned: any edit, removal, addition keeps the object valid
    if let Some(u) = &unsigned {
        for_each_edit(u, "", &mut |label, nv| {
            f(Tamper {
                label: format!("unsigned/{label}"),
                obj: rebuild(Value::Object(signed.clone()), sigs.clone(), Some(nv)),
                map: map.clone(),
                expect: Exp::Ok,
            });
        });
        f(Tamper { label: "unsigned/removed".into(), obj: rebuild(Value::Object(signed.clone()), sigs.clone(), None), map: map.clone(), expect: Exp::Ok });
        f(Tamper {
            label: "unsigned/replaced-by-scalar".into(),
            obj: rebuild(Value::Object(signed.clone()), sigs.clone(), Some(json!(7))),
            map: map.clone(),
            expect: Exp::Ok,
        });
    } else {
        f(Tamper {
            label: "unsigned/added".into(),
            obj: rebuild(Value::Object(signed.clone()), sigs.clone(), Some(json!({"age": 1}))),
            map: map.clone(),
            expect: Exp::Ok,
        });
    }
    f(Tamper { label: "untouched".into(), obj: base_obj.clone(), map: map.clone(), expect: Exp::Ok });
    f(Tamper { label: "respelled/reversed-keys+unicode-escapes".into(), obj: base_obj.clone(), map: map.clone(), expect: Exp::Ok });
    f(Tamper { label: "respelled/reversed-keys+short-escapes".into(), obj: base_obj.clone(), map: map.clone(), expect: Exp::Ok });

    let sig_of = |e: &str, k: &str| -> Vec<u8> {
        base_obj["signatures"][e][k].as_str().and_then(|s| B64.decode(s).ok()).unwrap_or_default()
    };
    let with_sig = |e: &str, k: &str, v: Value| {
        let mut o = base_obj.clone();
        o.get_mut("signatures").unwrap().get_mut(e).unwrap().as_object_mut().unwrap().insert(k.to_owned(), v);
        o
    };
    let stride = tier.pick(8, 1);
    for (n, ((e, k), seed)) in st.keys.iter().enumerate() {
        let sig = sig_of(e, k);
        if sig.len() != 64 {
            // not the 64-byte unpadded standard base64 the S-part insists on (reported there)
            continue;
        }
        // single-bit flips of the signature
        for bit in (0..512).filter(|b| b % stride == (n * 3) % stride) {
            let mut s = sig.clone();
            s[bit / 8] ^= 1 << (bit % 8);
            f(Tamper {
                label: format!("signature-bit/{}", if bit < 256 { "R" } else { "S" }),
                obj: with_sig(e, k, json!(B64.encode(&s))),
                map: map.clone(),
                expect: Exp::Err,
            });
        }
        // single-bit flips of the public key
        for bit in (0..256).filter(|b| b % stride == (n * 5 + 1) % stride) {
            let mut m = map.clone();
            for entry in m.iter_mut().filter(|x| x.0 == *e && x.1 == *k) {
                entry.2[bit / 8] ^= 1 << (bit % 8);
            }
            f(Tamper { label: "public-key-bit".into(), obj: base_obj.clone(), map: m, expect: Exp::Err });
        }
        // wrong lengths
        for (name, s) in [
            ("sig-63-bytes", sig[..63].to_vec()),
            ("sig-65-bytes", [sig.clone(), vec![0]].concat()),
            ("sig-empty", vec![]),
            ("sig-all-zero", vec![0; 64]),
        ] {
            f(Tamper { label: format!("signature-length/{name}"), obj: with_sig(e, k, json!(B64.encode(&s))), map: map.clone(), expect: Exp::Err });
        }
        for (name, cut) in [("key-31-bytes", 31usize), ("key-33-bytes", 33), ("key-empty", 0)] {
            let mut m = map.clone();
            for entry in m.iter_mut().filter(|x| x.0 == *e && x.1 == *k) {
                entry.2.resize(cut, 0);
            }
            f(Tamper { label: format!("public-key-length/{name}"), obj: base_obj.clone(), map: m, expect: Exp::Err });
        }
        f(Tamper { label: "signature-not-a-string".into(), obj: with_sig(e, k, json!(7)), map: map.clone(), expect: Exp::Err });
        f(Tamper { label: "signature-not-base64".into(), obj: with_sig(e, k, json!("*not base64*")), map: map.clone(), expect: Exp::Err });
        // another key pair's public key for this key id
        {
            let mut m = map.clone();
            for entry in m.iter_mut().filter(|x| x.0 == *e && x.1 == *k) {
                entry.2 = keys::public_key((*seed + 1) % keys::N_SEEDS).to_vec();
            }
            f(Tamper { label: "public-key-of-other-pair".into(), obj: base_obj.clone(), map: m, expect: Exp::Err });
        }
        // a valid signature of *different* content by the same key, transplanted
        {
            let mut other = signed.clone();
            other.insert("zz_other".into(), json!(1));
            let mut c = to_canonical_obj(&other);
            let version = k.strip_prefix("ed25519:").unwrap_or("1");
            if sign_json(e, &keys::key_pair(*seed, version), &mut c).is_ok() {
                let s = from_canonical_obj(&c)["signatures"][e.as_str()][k.as_str()].clone();
                f(Tamper { label: "signature-of-other-content".into(), obj: with_sig(e, k, s), map: map.clone(), expect: Exp::Err });
            }
        }
        // key material missing from the map
        let m: Vec<_> = map.iter().filter(|x| x.0 != *e).cloned().collect();
        f(Tamper { label: "map/entity-removed".into(), obj: base_obj.clone(), map: m, expect: Exp::Err });
        let m: Vec<_> = map.iter().filter(|x| !(x.0 == *e && x.1 == *k)).cloned().collect();
        f(Tamper { label: "map/key-id-removed".into(), obj: base_obj.clone(), map: m, expect: Exp::Err });
        // an unsupported-algorithm signature next to a valid one is ignored
        f(Tamper { label: "entity/extra-unsupported-algorithm".into(), obj: with_sig(e, "foo:1", json!("AAAA")), map: map.clone(), expect: Exp::Ok });
        f(Tamper { label: "entity/extra-unparsable-key-id".into(), obj: with_sig(e, "nocolon", json!("AAAA")), map: map.clone(), expect: Exp::Ok });
        // the entity's valid signature removed, only an unsupported one left
        {
            let mut o = with_sig(e, "foo:1", json!("AAAA"));
            let set = o.get_mut("signatures").unwrap().get_mut(e.as_str()).unwrap().as_object_mut().unwrap();
            set.retain(|kid, _| !is_ed25519_key_id(kid));
            f(Tamper { label: "entity/only-unsupported-algorithm-left".into(), obj: o, map: map.clone(), expect: Exp::Err });
        }
    }
    // entities that cannot be verified at all
    let with_entity = |name: &str, v: Value| {
        let mut o = base_obj.clone();
        o.get_mut("signatures").unwrap().as_object_mut().unwrap().insert(name.to_owned(), v);
        o
    };
    f(Tamper { label: "new-entity/only-unsupported-algorithm".into(), obj: with_entity("z.org", json!({"foo:1": "AAAA"})), map: map.clone(), expect: Exp::Err });
    f(Tamper { label: "new-entity/empty-set".into(), obj: with_entity("z.org", json!({})), map: map.clone(), expect: Exp::Err });
    f(Tamper { label: "new-entity/not-an-object".into(), obj: with_entity("z.org", json!("sig")), map: map.clone(), expect: Exp::Err });
    f(Tamper { label: "new-entity/unparsable-key-id".into(), obj: with_entity("z.org", json!({"ed25519": "AAAA"})), map: map.clone(), expect: Exp::Err });
    if let Some(((e, k), _)) = st.keys.iter().next() {
        // someone else's valid signature copied under a new entity without a key in the map
        let s = base_obj["signatures"][e.as_str()][k.as_str()].clone();
        f(Tamper { label: "new-entity/no-key-in-map".into(), obj: with_entity("z.org", json!({ k.as_str(): s })), map: map.clone(), expect: Exp::Err });
    }
    f(Tamper { label: "signatures/replaced-by-scalar".into(), obj: rebuild(Value::Object(signed.clone()), Some(json!("x")), unsigned.clone()), map: map.clone(), expect: Exp::Err });
}

/// the same JSON value as a text with reversed key order at every level, extra whitespace and
/// every string character written as a \\uXXXX escape
fn respell(obj: &Map<String, Value>, ws: usize, esc: usize) -> String {
    use mc_sig::text::{spell, K, V};
    fn conv(v: &Value) -> V {
        match v {
            Value::Null => V::Null,
            Value::Bool(b) => V::Bool(*b),
            Value::Number(n) => V::Int(n.as_i64().unwrap_or(0)),
            Value::String(s) => V::Str(s.clone()),
            Value::Array(a) => V::Arr(a.iter().map(conv).collect()),
            Value::Object(m) => V::Obj(m.iter().rev().map(|(k, x)| (K::S(k.clone()), conv(x))).collect()),
        }
    }
    spell(&conv(&Value::Object(obj.clone())), ws, esc)
}

fn tamper_class(label: &str) -> String {
    // signature: the kind of tampering, not the concrete path
    let head = label.split(':').next().unwrap_or(label);
    head.to_owned()
}

fn run_tamper(tm: &Tamper, t: &mut Tally) -> Vec<(String, String)> {
    let mut viol = vec![];
    let o: CanonicalJsonObject = if let Some(style) = tm.label.strip_prefix("respelled/") {
        // key order / whitespace / escape spelling of the text must not matter
        let (ws, esc) = if style == "reversed-keys+unicode-escapes" { (1, 1) } else { (2, 2) };
        let text = respell(&tm.obj, ws, esc);
        match serde_json::from_str(&text) {
            Ok(o) => o,
            Err(e) => {
                viol.push(("verify_json/respelled-text-rejected".into(), format!("{e}: {text}")));
                return viol;
            }
        }
    } else {
        to_canonical_obj(&tm.obj)
    };
    let entries: Vec<(&str, &str, Vec<u8>)> = tm.map.iter().map(|(e, k, b)| (e.as_str(), k.as_str(), b.clone())).collect();
    let map = keys::key_map(&entries);
    t.transitions += 1;
    match catch(|| verify_json(&map, &o)) {
        Err(p) => viol.push((format!("panic/{}/verify_json/{}", p.file(), tamper_class(&tm.label)), p.text)),
        Ok(r) => {
            t.outcome("verify_json-tampered", if r.is_ok() { "ok" } else { "err" });
            match (tm.expect, &r) {
                (Exp::Err, Ok(())) => viol.push((
                    format!("verify_json/accepts-tampered/{}", tamper_class(&tm.label)),
                    format!("{}: accepted {}", tm.label, Value::Object(tm.obj.clone())),
                )),
                (Exp::Ok, Err(e)) => viol.push((
                    format!("verify_json/rejects-untampered-signed-content/{}", tamper_class(&tm.label)),
                    format!("{}: {e} on {}", tm.label, Value::Object(tm.obj.clone())),
                )),
                (Exp::Unspecified, _) => t.unspecified += 1,
                _ => {}
            }
        }
    }
    viol
}

// ---------------------------------------------------------------------------------------
// replay cases

fn sign_case(pre: &St, a: &Action) -> Value {
    json!({
        "kind": "sign", "base": pre.base, "path": pre.path, "pre": pre.obj,
        "keys": pre.keys.iter().map(|((e, k), s)| json!([e, k, s])).collect::<Vec<_>>(),
        "action": {"entity": a.entity, "seed": a.seed, "version": a.version},
    })
}

fn tamper_case(st: &St, tm: &Tamper) -> Value {
    json!({
        "kind": "tamper", "base": st.base, "path": st.path, "label": tm.label, "obj": tm.obj,
        "map": tm.map.iter().map(|(e, k, b)| json!([e, k, hex(b)])).collect::<Vec<_>>(),
        "expect": match tm.expect { Exp::Ok => "ok", Exp::Err => "err", Exp::Unspecified => "unspecified" },
    })
}

fn leak(s: &str) -> &'static str {
    Box::leak(s.to_owned().into_boxed_str())
}

fn replay(case: &Value) -> Vec<(String, String)> {
    let mut t = Tally::new();
    match case["kind"].as_str() {
        Some("sign") => {
            let mut keys = KeyAssign::new();
            for k in case["keys"].as_array().cloned().unwrap_or_default() {
                keys.insert(
                    (k[0].as_str().unwrap_or("").to_owned(), k[1].as_str().unwrap_or("").to_owned()),
                    k[2].as_u64().unwrap_or(0) as usize,
                );
            }
            let pre = St {
                base: leak(case["base"].as_str().unwrap_or("?")),
                obj: case["pre"].as_object().cloned().unwrap_or_default(),
                keys,
                depth: 0,
                path: vec![],
            };
            let a = Action {
                entity: leak(case["action"]["entity"].as_str().unwrap_or("a.org")),
                seed: case["action"]["seed"].as_u64().unwrap_or(0) as usize,
                version: leak(case["action"]["version"].as_str().unwrap_or("1")),
            };
            let out = step(&pre, &a, &mut t);
            let mut v = out.viol;
            if let Some(l) = out.line {
                v.extend(pyval::validate_lines("C02", &[l]));
            }
            v
        }
        Some("tamper") => {
            let tm = Tamper {
                label: case["label"].as_str().unwrap_or("?").to_owned(),
                obj: case["obj"].as_object().cloned().unwrap_or_default(),
                map: case["map"]
                    .as_array()
                    .cloned()
                    .unwrap_or_default()
                    .iter()
                    .map(|k| {
                        (
                            k[0].as_str().unwrap_or("").to_owned(),
                            k[1].as_str().unwrap_or("").to_owned(),
                            unhex(k[2].as_str().unwrap_or("")),
                        )
                    })
                    .collect(),
                expect: match case["expect"].as_str() {
                    Some("ok") => Exp::Ok,
                    Some("err") => Exp::Err,
                    _ => Exp::Unspecified,
                },
            };
            run_tamper(&tm, &mut t)
        }
        Some("python") => pyval::validate_lines("C02", &[case["line"].to_string()]),
        _ => engine::machinery_error("unknown replay case kind"),
    }
}

// ---------------------------------------------------------------------------------------

fn main() {
    let args = parse_args();
    if let Some(p) = &args.replay {
        replay_and_exit("C02", p, replay);
    }
    let tier = args.tier;
    let report = Report::new("C02", "model_checking", &args);
    let max_depth = tier.pick(2, 3);
    let acts = actions();
    let bases = bases(tier);
    report.set_rule(&format!(
        "S-part: hand-written BFS (not stateright) over sign sequences of depth <= {max_depth} from {} base objects; \
         actions = Sign(entity in {{a.org, b.org, é}} x 2 of 4 fixed seeds per entity x key version in {{1, k_2}}) = {} actions; \
         state = (object, which seed made which signature), dedup on the canonical object + key assignment; every \
         transition runs the real sign_json / canonical_json / verify_canonical_json_bytes / verify_json and checks: \
         error exactly on malformed `signatures`, object unchanged on Err, only signatures[entity][ed25519:<version>] \
         added on Ok, 86-char unpadded standard base64 of 64 bytes, canonical JSON = reference encoder, verification \
         with the matching key map = acceptance table; the newest signature of every state of depth <= 2 (every 8th of \
         depth 3) is verified by the pure-python RFC 8032 verifier over python's canonical JSON (public key re-derived \
         from the seed). P-part: for every verifiable state of depth <= 2: every single change / deletion / rename / \
         addition / array swap at every path of the signed part (must fail), every edit of `unsigned` and a re-spelling of the text with reversed key order / other escapes (must pass), \
         single-bit flips of every signature and public key (every {} bit), wrong lengths, foreign key, transplanted \
         signature, missing map entries, unverifiable extra entities (must fail), ignorable unsupported-algorithm \
         entries (must pass). state = distinct (object, key assignment) or tampered (object, key map); transition = \
         one call of ruma code; non-trivial = distinct (state, sign action) pairs of the S-part + distinct tampered cases whose \
         result the acceptance table defines",
        bases.len(),
        acts.len(),
        tier.pick("8th", "single"),
    ));
    report.assume("acceptance table = DESIGN App. A.2 (every entity in `signatures` needs >= 1 valid Ed25519 signature; all present Ed25519 signatures must verify; unknown algorithms / unparsable key ids ignored)");
    report.assume("`signatures` absent or `{}`: verify_json result Unspecified (executed, not compared)");
    report.assume("key pairs: 6 fixed seeds, PKCS#8 v1 (even) / v2 (odd) documents; bit flips are applied to the decoded bytes (trailing base64 bits are outside the property)");
    report.require_outcomes("sign_json", 2);
    report.require_outcomes("verify_json-tampered", 2);

    // key material self check (from_der on both document forms; public_key agreement)
    for i in 0..keys::N_SEEDS {
        let s = keys::seed(i);
        let v1 = ruma_signatures::Ed25519KeyPair::from_der(&keys::pkcs8_v1(&s), "1".into());
        let Ok(v1) = v1 else { engine::machinery_error("PKCS#8 v1 rejected") };
        let v2 = ruma_signatures::Ed25519KeyPair::from_der(&keys::pkcs8_v2(&s, &v1.public_key()), "1".into());
        report.add_transitions(2);
        match v2 {
            Ok(v2) if v2.public_key() == v1.public_key() => report.outcome("from_der", "v1==v2"),
            Ok(_) => report.violation("from_der/v1-v2-public-key-differs", || format!("seed {i}"), || json!({"kind": "keys", "seed": i})),
            Err(e) => report.violation("from_der/v2-rejected", || format!("seed {i}: {e}"), || json!({"kind": "keys", "seed": i})),
        }
        // a v2 document whose public key belongs to another seed (outcome recorded, not compared)
        let wrong = ruma_signatures::Ed25519KeyPair::from_der(&keys::pkcs8_v2(&s, &keys::public_key((i + 1) % keys::N_SEEDS)), "1".into());
        report.outcome("from_der", if wrong.is_ok() { "mismatched-public-key-accepted" } else { "mismatched-public-key-rejected" });
    }

    // S-part: BFS per base object
    let trace = Trace::new("C02");
    let all_states: std::sync::Mutex<Vec<(usize, Vec<St>)>> = std::sync::Mutex::new(vec![]);
    par_shards(&report, bases.len(), |bi, t| {
        let (name, obj0, keys0) = &bases[bi];
        let init = St { base: name, obj: obj0.clone(), keys: keys0.clone(), depth: 0, path: vec![] };
        let key_of = |s: &St| (refjson::canonical_obj(&s.obj).unwrap_or_default(), s.keys.clone());
        let mut seen = BTreeSet::new();
        seen.insert(key_of(&init));
        let mut queue = VecDeque::from([init.clone()]);
        let mut states = vec![init];
        let mut lines = vec![];
        let mut n_depth3 = 0usize;
        t.states += 1;
        while let Some(st) = queue.pop_front() {
            if st.depth >= max_depth {
                continue;
            }
            for a in &acts {
                let out = step(&st, a, t);
                t.nontrivial += 1;
                for (sig, detail) in out.viol {
                    report.violation(&sig, || detail, || sign_case(&st, a));
                }
                if let Some(next) = out.next {
                    if seen.insert(key_of(&next)) {
                        t.states += 1;
                        if let Some(l) = out.line {
                            if next.depth <= 2 {
                                lines.push(l);
                            } else {
                                n_depth3 += 1;
                                if n_depth3 % 8 == 0 {
                                    lines.push(l);
                                }
                            }
                        }
                        if states.len() % 40 == 1 {
                            t.sample(|| json!({"base": next.base, "signed_by": next.path, "object": next.obj}));
                        }
                        states.push(next.clone());
                        queue.push_back(next);
                    }
                }
            }
        }
        trace.push_shard(bi, lines);
        all_states.lock().unwrap().push((bi, states));
    });
    let mut all_states = all_states.into_inner().unwrap();
    all_states.sort_by_key(|(i, _)| *i);
    let states: Vec<St> = all_states.into_iter().flat_map(|(_, s)| s).collect();
    report.set("s_part_states", json!(states.len()));

    // P-part: tamperings of every verifiable state of depth <= 2
    let targets: Vec<&St> = states
        .iter()
        .filter(|s| s.depth <= 2 && !s.keys.is_empty())
        .filter(|s| model_verify(&s.obj, &|e, k, _| s.keys.contains_key(&(e.to_owned(), k.to_owned()))) == Exp::Ok)
        .collect();
    report.set("p_part_signed_objects", json!(targets.len()));
    let neg_lines: std::sync::Mutex<Vec<(usize, Vec<String>)>> = std::sync::Mutex::new(vec![]);
    par_shards(&report, targets.len(), |i, t| {
        let st = targets[i];
        let mut n = 0u64;
        let mut neg = vec![];
        tamperings(st, tier, &mut |tm| {
            t.states += 1;
            if tm.expect != Exp::Unspecified && tm.label != "untouched" {
                t.nontrivial += 1;
            }
            n += 1;
            let viol = run_tamper(&tm, t);
            // a few rejected signatures are also shown to the python verifier (must reject too)
            if tm.label.starts_with("signature-bit") && n % 97 == 0 {
                if let Some(((e, k), seed)) = st.keys.iter().find(|((e, k), _)| tm.obj["signatures"][e.as_str()][k.as_str()] != st.obj["signatures"][e.as_str()][k.as_str()]) {
                    neg.push(
                        json!({
                            "c": "bit-flip", "obj": hex(Value::Object(tm.obj.clone()).to_string().as_bytes()),
                            "entity": e, "key_id": k, "sig": tm.obj["signatures"][e.as_str()][k.as_str()],
                            "pub": hex(&keys::public_key(*seed)), "seed": hex(&keys::seed(*seed)),
                            "canon": Value::Null, "expect": false,
                        })
                        .to_string(),
                    );
                }
            }
            if n % 3000 == 7 {
                t.sample(|| json!({"tampering": tm.label, "expect": format!("{:?}", tm.expect), "object": tm.obj}));
            }
            for (sig, detail) in viol {
                report.violation(&sig, || detail, || tamper_case(st, &tm));
            }
        });
        neg_lines.lock().unwrap().push((i, neg));
    });
    for (i, l) in neg_lines.into_inner().unwrap() {
        trace.push_shard(bases.len() + i, l);
    }

    report.set("wall_explore_s", json!(report.elapsed_s()));
    let (lines, mism, summary) = trace.validate();
    report.add_traces(summary.validated);
    report.set("python_validated_signatures", json!(summary.validated));
    for m in mism {
        let line: Value = serde_json::from_str(&lines[m.line]).unwrap_or(Value::Null);
        report.violation(&m.sig, || m.detail.clone(), || json!({"kind": "python", "line": line}));
    }
    report.finish()
}

//! C01 — canonical JSON is the spec's unique, order-independent, lossless encoding.
//!
//! P-explorer over JSON *texts*. A group = one JSON value; its members = every spelling of that
//! value in a finite family (key orders, whitespace styles, escape spellings, duplicate keys).
//! Every text goes through the four observation points of the property; the bytes are compared
//! with (1) the harness' own reference encoder, (2) each other, (3) the parse-back, and (4) —
//! for every text — with python's `json` + a hand-written python encoder (oracle/validate.py).

use std::{collections::HashSet, sync::Mutex};

use engine::{catch, par_shards, parse_args, replay_and_exit, Report, Tally, Tier};
use mc_sig::{
    keys::{hex, unhex},
    pyval::{self, Trace},
    refjson,
    text::{key_orders, spell, with_duplicates, K, N_ESC, N_WS, V},
};
use ruma_common::{canonical_json::to_canonical_value, CanonicalJsonObject, CanonicalJsonValue};
use serde_json::{json, Value};

const MAXI: i64 = 9_007_199_254_740_991;

/// (character, class name) — the class representatives of DESIGN §3 C01
fn char_reps(tier: Tier) -> Vec<(char, &'static str)> {
    let mut v: Vec<(char, &'static str)> = vec![];
    if tier.is_thorough() {
        for c in 0u32..0x20 {
            let name = match c {
                8 | 9 | 10 | 12 | 13 => "c0-short",
                _ => "c0",
            };
            v.push((char::from_u32(c).unwrap(), name));
        }
    } else {
        for (c, n) in [(0u32, "c0"), (8, "c0-short"), (10, "c0-short"), (0x1f, "c0")] {
            v.push((char::from_u32(c).unwrap(), n));
        }
    }
    v.extend([('"', "quote"), ('\\', "backslash"), ('/', "slash"), ('\u{7f}', "del")]);
    v.extend([('\u{80}', "u0080"), ('\u{e9}', "latin1")]);
    if tier.is_thorough() {
        v.extend([('\u{7ff}', "u07ff"), ('\u{800}', "u0800"), ('\u{fffd}', "ufffd")]);
    }
    v.extend([
        ('\u{d7ff}', "ud7ff"),
        ('\u{e000}', "ue000"),
        ('\u{ff61}', "uff61"),
        ('\u{ffff}', "uffff"),
        ('\u{10000}', "astral"),
        ('\u{1f600}', "astral"),
        ('\u{10ffff}', "astral"),
    ]);
    v
}

/// strings used as string values and as keys: (string, class)
fn strings(tier: Tier) -> Vec<(String, &'static str)> {
    let mut v: Vec<(String, &'static str)> = char_reps(tier).into_iter().map(|(c, n)| (c.to_string(), n)).collect();
    v.push((String::new(), "empty"));
    for s in ["a", "aa", "a\u{0}", "a\u{ff61}", "a\u{1f600}", "A", "signature"] {
        v.push((s.to_owned(), "multi"));
    }
    v
}

fn ints() -> Vec<(i64, &'static str)> {
    vec![
        (0, "int"),
        (1, "int"),
        (-1, "int"),
        (MAXI - 1, "int-boundary"),
        (-(MAXI - 1), "int-boundary"),
        (MAXI, "int-boundary"),
        (-MAXI, "int-boundary"),
    ]
}

const NONREP: [&str; 26] = [
    "-0",
    "-0.0",
    "0.0",
    "1.0",
    "1e0",
    "1E2",
    "1e+2",
    "1e-2",
    "0.5",
    "-0.5",
    "9007199254740992",
    "-9007199254740992",
    "9007199254740993",
    "-9007199254740993",
    "9223372036854775807",
    "-9223372036854775808",
    "9223372036854775808",
    "18446744073709551615",
    "18446744073709551616",
    "-9223372036854775809",
    "1e400",
    "-1e400",
    "1e-400",
    "9007199254740991.0",
    "1e15",
    "123456789012345678901234567890",
];

const SURROGATES: [&str; 5] =
    ["\"\\ud800\"", "\"\\udc00\"", "\"\\ud800a\"", "\"\\udc00\\ud800\"", "\"a\\udbff\""];

#[derive(Clone, Debug)]
struct Group {
    class: String,
    texts: Vec<String>,
    /// reference canonical bytes; `None` = the value is not representable (must be an error)
    expect: Option<String>,
    /// executed, not compared (DESIGN §1.3)
    unspecified: bool,
    /// replay of a python-only mismatch: no harness reference, only the trace lines matter
    py_only: bool,
}

fn contexts(v: &V) -> Vec<(&'static str, V)> {
    vec![
        ("top", v.clone()),
        ("arr", V::Arr(vec![v.clone()])),
        ("arr2", V::Arr(vec![V::Int(0), v.clone()])),
        ("obj", V::obj(vec![("k", v.clone())])),
        ("arr-arr", V::Arr(vec![V::Arr(vec![v.clone()])])),
        ("obj-obj", V::obj(vec![("k", V::obj(vec![("k", v.clone())]))])),
        ("arr-obj", V::Arr(vec![V::obj(vec![("k", v.clone())])])),
        ("obj-arr", V::obj(vec![("k", V::Arr(vec![v.clone()]))])),
    ]
}

fn all_styles() -> Vec<(usize, usize)> {
    let mut v = vec![];
    for ws in 0..N_WS {
        for esc in 0..N_ESC {
            v.push((ws, esc));
        }
    }
    v
}

const DIAG_STYLES: [(usize, usize); 6] = [(0, 0), (1, 1), (2, 2), (0, 3), (1, 2), (2, 1)];

fn spell_all(variants: &[V], styles: &[(usize, usize)], out: &mut Vec<String>) {
    for v in variants {
        for &(ws, esc) in styles {
            out.push(spell(v, ws, esc));
        }
    }
}

fn finish_group(class: String, mut texts: Vec<String>, sem: Option<Value>, unspecified: bool) -> Group {
    texts.sort();
    texts.dedup();
    let expect = sem.as_ref().and_then(refjson::canonical);
    Group { class, texts, expect, unspecified, py_only: false }
}

fn decoys() -> Vec<V> {
    vec![V::Int(7), V::s("decoy"), V::obj(vec![("x", V::Int(1))])]
}

/// group of a value `v` given in a base key order: all key orders x styles, plus duplicates
fn value_group(class: String, v: &V, styles: &[(usize, usize)], dups: bool) -> Group {
    let mut texts = vec![];
    let orders = key_orders(v);
    spell_all(&orders, styles, &mut texts);
    if dups {
        let mut d = with_duplicates(v, &decoys());
        if let Some(last) = orders.last() {
            if orders.len() > 1 {
                d.extend(with_duplicates(last, &decoys()));
            }
        }
        spell_all(&d, &[(0, 0), (1, 3)], &mut texts);
    }
    finish_group(class, texts, v.semantic(), false)
}

/// all values with exactly `n` nodes, depth of containers <= `depth`, over the given pools
fn shapes(n: usize, depth: usize, scalars: &[V], keys: &[&str]) -> Vec<V> {
    fn compositions(total: usize, parts: usize) -> Vec<Vec<usize>> {
        if parts == 0 {
            return if total == 0 { vec![vec![]] } else { vec![] };
        }
        let mut out = vec![];
        for first in 1..=total.saturating_sub(parts - 1) {
            for mut rest in compositions(total - first, parts - 1) {
                rest.insert(0, first);
                out.push(rest);
            }
        }
        out
    }
    fn subsets<'a>(keys: &[&'a str], k: usize) -> Vec<Vec<&'a str>> {
        if k == 0 {
            return vec![vec![]];
        }
        if keys.len() < k {
            return vec![];
        }
        let mut out = vec![];
        for mut s in subsets(&keys[1..], k - 1) {
            s.insert(0, keys[0]);
            out.push(s);
        }
        out.extend(subsets(&keys[1..], k));
        out
    }
    fn children(sizes: &[usize], depth: usize, scalars: &[V], keys: &[&str]) -> Vec<Vec<V>> {
        let mut acc: Vec<Vec<V>> = vec![vec![]];
        for &s in sizes {
            let alts = shapes(s, depth, scalars, keys);
            let mut next = vec![];
            for pre in &acc {
                for a in &alts {
                    let mut p = pre.clone();
                    p.push(a.clone());
                    next.push(p);
                }
            }
            acc = next;
        }
        acc
    }
    let mut out = vec![];
    if n == 1 {
        out.extend(scalars.iter().cloned());
        if depth > 0 {
            out.push(V::Arr(vec![]));
            out.push(V::Obj(vec![]));
        }
        return out;
    }
    if depth == 0 {
        return out;
    }
    for k in 1..=3usize.min(n - 1) {
        for sizes in compositions(n - 1, k) {
            for ch in children(&sizes, depth - 1, scalars, keys) {
                out.push(V::Arr(ch));
            }
        }
    }
    for k in 1..=4usize.min(n - 1) {
        for sizes in compositions(n - 1, k) {
            for ch in children(&sizes, depth - 1, scalars, keys) {
                for ks in subsets(keys, k) {
                    out.push(V::Obj(ks.iter().zip(ch.iter()).map(|(k, v)| (K::S((*k).to_owned()), v.clone())).collect()));
                }
            }
        }
    }
    out
}

fn subsets_idx(n: usize, k: usize, first: usize) -> Vec<Vec<usize>> {
    // all k-subsets of 0..n whose smallest element is `first`
    fn rec(start: usize, n: usize, k: usize, cur: &mut Vec<usize>, out: &mut Vec<Vec<usize>>) {
        if k == 0 {
            out.push(cur.clone());
            return;
        }
        for i in start..n {
            cur.push(i);
            rec(i + 1, n, k - 1, cur, out);
            cur.pop();
        }
    }
    let mut out = vec![];
    let mut cur = vec![first];
    rec(first + 1, n, k - 1, &mut cur, &mut out);
    out
}

fn value_pool() -> Vec<V> {
    vec![
        V::Null,
        V::Bool(true),
        V::Int(0),
        V::Int(-1),
        V::Int(MAXI),
        V::s(""),
        V::s("é\"\n"),
        V::Arr(vec![]),
        V::Obj(vec![]),
        V::Arr(vec![V::Int(1)]),
        V::obj(vec![("b", V::Null), ("a", V::Bool(false))]),
    ]
}

/// One shard of work: produces groups.
#[derive(Debug)]
enum Shard {
    /// every scalar in every context
    Scalars,
    /// objects whose keys are the n-subsets (smallest index = first) of the key strings
    Keys { n: usize, first: usize, small: usize },
    /// every value with exactly n nodes over the small pools, slice `part` of `parts`
    Shapes { n: usize, part: usize, parts: usize },
    NonRep,
}

/// `small == 0`: the tier's strings; otherwise the first `small` strings of the quick list
fn key_strings(tier: Tier, small: usize) -> Vec<(String, &'static str)> {
    if small > 0 {
        let mut v = strings(Tier::Quick);
        // put the multi-character strings first so that a short prefix still has prefix pairs
        v.rotate_right(8);
        v.truncate(small);
        v
    } else {
        strings(tier)
    }
}

fn run_shard(sh: &Shard, tier: Tier, f: &mut dyn FnMut(Group)) {
    match sh {
        Shard::Scalars => {
            let mut scalars: Vec<(V, &'static str)> =
                vec![(V::Null, "null"), (V::Bool(true), "bool"), (V::Bool(false), "bool")];
            scalars.extend(ints().into_iter().map(|(i, c)| (V::Int(i), c)));
            scalars.extend(strings(tier).into_iter().map(|(s, c)| (V::Str(s), c)));
            // values whose canonical form is as long as / longer than the 65 535-byte event limit: canonical
            // JSON itself has no size limit (only the event hash functions do)
            for total in [65_535usize, 65_536, 65_537, 131_072] {
                let v = V::obj(vec![("k", V::Str("a".repeat(total - 8)))]);
                f(value_group(format!("large/obj/{total}-bytes"), &v, &[(0, 0)], false));
            }
            // top-level keys that the signing form treats specially, in every combination
            for mask in 1u32..16 {
                let mut members = vec![];
                for (i, k) in ["signatures", "unsigned", "hashes", "a"].iter().enumerate() {
                    if mask & (1 << i) != 0 {
                        members.push((*k, V::obj(vec![("x", V::Int(i as i64)), ("signatures", V::Int(1))])));
                    }
                }
                f(value_group(format!("signing-form/keys-{mask:04b}"), &V::obj(members), &[(0, 0), (1, 1)], false));
            }
            // names that merely contain / extend the special ones are ordinary members
            for (i, k) in ["org.example.signatures", "unsigned_count", "signature", "signaturess", "Unsigned", "un", "m.hashes", "age_ts", "outlier", "destinations"].iter().enumerate() {
                let members = vec![(*k, V::Int(i as i64)), ("signatures", V::obj(vec![("x", V::Int(1))])), ("z", V::s("v"))];
                f(value_group(format!("signing-form/near-miss-key-{i}"), &V::obj(members), &[(0, 0)], false));
                f(value_group(format!("signing-form/near-miss-key-alone-{i}"), &V::obj(vec![(*k, V::Int(i as i64))]), &[(0, 0)], false));
            }
            let v = V::obj(vec![("k", V::Arr((0..33_000).map(|_| V::Int(1)).collect()))]);
            f(value_group("large/obj-arr/about-66000-bytes".into(), &v, &[(0, 0)], false));
            for (s, cls) in &scalars {
                for (ctx, v) in contexts(s) {
                    f(value_group(format!("scalar/{ctx}/{cls}"), &v, &all_styles(), true));
                }
                // the string as a key as well
                if let V::Str(k) = s {
                    let v = V::Obj(vec![(K::S(k.clone()), V::Int(1))]);
                    f(value_group(format!("key/obj/{cls}"), &v, &all_styles(), true));
                    let v = V::Arr(vec![V::Obj(vec![(K::S(k.clone()), V::Obj(vec![(K::S(k.clone()), V::Null)]))])]);
                    f(value_group(format!("key/nested/{cls}"), &v, &all_styles(), true));
                }
            }
        }
        Shard::Keys { n, first, small } => {
            let ks = key_strings(tier, *small);
            let pool = value_pool();
            for sub in subsets_idx(ks.len(), *n, *first) {
                let sum: usize = sub.iter().sum();
                let entries: Vec<(K, V)> = sub
                    .iter()
                    .enumerate()
                    .map(|(j, &i)| (K::S(ks[i].0.clone()), pool[(sum + 3 * j) % pool.len()].clone()))
                    .collect();
                let mut classes: Vec<&str> = sub.iter().map(|&i| ks[i].1).collect();
                classes.sort();
                classes.dedup();
                let v = V::Obj(entries);
                let styles: &[(usize, usize)] = match *n {
                    2 => &[],
                    3 => &DIAG_STYLES,
                    _ => &DIAG_STYLES[..3],
                };
                let g = if styles.is_empty() {
                    value_group(format!("keys{n}/{}", classes.join("+")), &v, &all_styles(), true)
                } else {
                    value_group(format!("keys{n}/{}", classes.join("+")), &v, styles, *n <= 3)
                };
                f(g);
            }
        }
        Shard::Shapes { n, part, parts } => {
            let scalars = if tier.is_thorough() {
                vec![V::Null, V::Int(-1), V::s("\u{1f600}\\"), V::Bool(false)]
            } else {
                vec![V::Null, V::Int(-1), V::s("\u{1f600}\\")]
            };
            let keys: Vec<&str> =
                if tier.is_thorough() { vec!["b", "a", "\u{ff61}", "\u{10000}", ""] } else { vec!["b", "a", "\u{ff61}", "\u{10000}"] };
            let all = shapes(*n, 3, &scalars, &keys);
            for (i, v) in all.iter().enumerate() {
                if i % parts != *part {
                    continue;
                }
                let styles: &[(usize, usize)] = if *n >= 4 { &DIAG_STYLES[..3] } else { &DIAG_STYLES };
                f(value_group(format!("shape/{n}-nodes"), v, styles, *n <= 4));
            }
        }
        Shard::NonRep => {
            for lit in NONREP {
                let raw = V::RawNum(lit);
                for (ctx, v) in contexts(&raw) {
                    let mut texts = vec![];
                    spell_all(&[v], &[(0, 0), (1, 1), (2, 2)], &mut texts);
                    let cls = if lit.contains(['.', 'e', 'E']) {
                        "fraction-or-exponent"
                    } else if lit == "-0" {
                        "negative-zero"
                    } else {
                        "integer-out-of-range"
                    };
                    f(finish_group(format!("nonrep/{ctx}/{cls}"), texts, None, false));
                }
                // overwritten by a later duplicate: the text's value is representable; whether the
                // text must be rejected is not stated (executed, not compared)
                let v = V::Obj(vec![(K::S("a".into()), raw.clone()), (K::S("a".into()), V::Int(1))]);
                let mut texts = vec![];
                spell_all(&[v], &[(0, 0)], &mut texts);
                f(finish_group("nonrep/overwritten-duplicate".into(), texts, None, true));
                // ... and the other way round: the non-representable number wins
                let v = V::Obj(vec![(K::S("a".into()), V::Int(1)), (K::S("a".into()), raw)]);
                let mut texts = vec![];
                spell_all(&[v], &[(0, 0), (1, 1)], &mut texts);
                f(finish_group("nonrep/winning-duplicate".into(), texts, None, false));
            }
            for lit in SURROGATES {
                for (ctx, v) in contexts(&V::RawStr(lit)) {
                    let mut texts = vec![];
                    spell_all(&[v], &[(0, 0), (1, 1)], &mut texts);
                    f(finish_group(format!("lone-surrogate/{ctx}"), texts, None, false));
                }
                let v = V::Obj(vec![(K::Raw(lit), V::Int(1))]);
                let mut texts = vec![];
                spell_all(&[v], &[(0, 0)], &mut texts);
                f(finish_group("lone-surrogate/key".into(), texts, None, false));
            }
        }
    }
}

fn short(s: &str) -> String {
    engine::truncate(&s.escape_debug().to_string(), 200)
}

/// Run one group through the real code. Returns violations and the trace lines.
fn eval(g: &Group, t: &mut Tally) -> (Vec<(String, String)>, Vec<String>) {
    let mut viol: Vec<(String, String)> = vec![];
    let cls = &g.class;
    // (ruma output or None) per text
    let mut outs: Vec<Option<String>> = Vec::with_capacity(g.texts.len());
    for text in &g.texts {
        t.states += 1;
        // observation point 1: from_str::<CanonicalJsonValue>
        t.transitions += 1;
        let parsed = match catch(|| serde_json::from_str::<CanonicalJsonValue>(text)) {
            Ok(r) => r,
            Err(p) => {
                viol.push((format!("panic/{}/from_str", p.file()), format!("{} on {}", p.text, short(text))));
                outs.push(None);
                continue;
            }
        };
        t.outcome("from_str", if parsed.is_ok() { "ok" } else { "err" });
        let val = match parsed {
            Err(_) => {
                if let (Some(exp), false) = (&g.expect, g.unspecified || g.py_only) {
                    viol.push((
                        format!("from_str/rejected-representable/{cls}"),
                        format!("text {} (canonical {}) rejected", short(text), short(exp)),
                    ));
                }
                // the other entry points must not accept it either
                if let Ok(jv) = serde_json::from_str::<Value>(text) {
                    t.transitions += 2;
                    let a = catch(|| CanonicalJsonValue::try_from(jv.clone()).is_ok());
                    let b = catch(|| to_canonical_value(&jv).is_ok());
                    for (name, r) in [("try_from", a), ("to_canonical_value", b)] {
                        match r {
                            Ok(false) => {}
                            Ok(true) => viol.push((
                                format!("{name}/disagrees-with-from_str/{cls}"),
                                format!("text {}: from_str rejects, {name} accepts", short(text)),
                            )),
                            Err(p) => viol.push((format!("panic/{}/{name}", p.file()), p.text)),
                        }
                    }
                }
                outs.push(None);
                continue;
            }
            Ok(v) => v,
        };
        // observation point 2: Serialize / Display
        t.transitions += 3;
        let ser = catch(|| serde_json::to_string(&val).ok());
        let disp = catch(|| val.to_string());
        let vec = catch(|| serde_json::to_vec(&val).ok());
        let ser = match (ser, disp, vec) {
            (Ok(Some(ser)), Ok(disp), Ok(Some(vec))) => {
                if disp != ser || vec != ser.as_bytes() {
                    viol.push((
                        format!("display-vs-serialize/{cls}"),
                        format!("to_string {} Display {}", short(&ser), short(&disp)),
                    ));
                }
                // the canonical string depends only on the value: formatting parameters of the
                // formatter (width, fill, alignment, precision, alternate, sign) must not change it
                t.transitions += 1;
                // (format widths / precisions are limited to u16 by the formatting machinery)
                let n = ser.chars().count().min(65_000);
                let specs = catch(|| {
                    vec![
                        ("width", format!("{val:w$}", w = n + 3)),
                        ("fill-align", format!("{val:*^w$}", w = n + 4)),
                        ("right-align", format!("{val:>w$}", w = n + 2)),
                        ("precision", format!("{val:.p$}", p = n.saturating_sub(1))),
                        ("precision-0", format!("{val:.0}")),
                        ("alternate", format!("{val:#}")),
                        ("zero-pad", format!("{val:0w$}", w = n + 2)),
                    ]
                });
                match specs {
                    Ok(list) => {
                        for (name, text) in list {
                            if text != ser {
                                viol.push((
                                    format!("display-format-parameter/{name}"),
                                    format!("Display with {name} gives {} instead of {}", short(&text), short(&ser)),
                                ));
                            }
                        }
                    }
                    Err(p) => viol.push((format!("panic/{}/display-format-parameter", p.file()), p.text)),
                }
                ser
            }
            (a, b, c) => {
                let p = a.err().or(b.err()).or(c.err());
                viol.push((
                    format!("serialize/failed/{cls}"),
                    format!("text {}: {:?}", short(text), p.map(|p| p.text)),
                ));
                outs.push(None);
                continue;
            }
        };
        match (&g.expect, g.unspecified || g.py_only) {
            (_, true) => t.unspecified += 1,
            (None, false) => viol.push((
                format!("from_str/accepted-nonrepresentable/{cls}"),
                format!("text {} accepted as {}", short(text), short(&ser)),
            )),
            (Some(exp), false) => {
                if *exp != ser {
                    viol.push((
                        format!("serialize/bytes-differ/{cls}"),
                        format!("text {}: reference {} ruma {}", short(text), short(exp), short(&ser)),
                    ));
                }
            }
        }
        // observation point 3: to_canonical_value (from serde_json::Value and from itself)
        t.transitions += 2;
        match catch(|| {
            let jv: Value = serde_json::from_str(text).map_err(|e| e.to_string())?;
            let a = to_canonical_value(&jv).map_err(|e| e.to_string())?;
            let b = to_canonical_value(&val).map_err(|e| e.to_string())?;
            let c = CanonicalJsonValue::try_from(jv).map_err(|e| e.to_string())?;
            Ok::<_, String>((a, b, c))
        }) {
            Ok(Ok((a, b, c))) => {
                if a != val || b != val || c != val {
                    viol.push((
                        format!("to_canonical_value/differs/{cls}"),
                        format!("text {}: from_str {:?} to_canonical_value {:?}/{:?} try_from {:?}", short(text), val, a, b, c),
                    ));
                }
            }
            Ok(Err(e)) => viol.push((
                format!("to_canonical_value/error/{cls}"),
                format!("text {} accepted by from_str but: {e}", short(text)),
            )),
            Err(p) => viol.push((format!("panic/{}/to_canonical_value", p.file()), p.text)),
        }
        // observation point 4: ruma_signatures::canonical_json (objects; others wrapped)
        t.transitions += 1;
        // (the function is the "signing form": top-level `signatures` and `unsigned` are left out, whichever
        // of the two is present; everything else, `hashes` included, stays)
        let (obj, wrapped): (CanonicalJsonObject, bool) = match &val {
            CanonicalJsonValue::Object(o) => (o.clone(), false),
            other => ([("w".to_owned(), other.clone())].into_iter().collect(), true),
        };
        match catch(|| ruma_signatures::canonical_json(&obj)) {
            Ok(Ok(s)) => {
                let want = if wrapped {
                    format!("{{\"w\":{ser}}}")
                } else if obj.contains_key("signatures") || obj.contains_key("unsigned") {
                    let mut o = obj.clone();
                    o.remove("signatures");
                    o.remove("unsigned");
                    serde_json::to_string(&o).unwrap_or_default()
                } else {
                    ser.clone()
                };
                if s != want {
                    viol.push((
                        format!("signatures-canonical_json/differs/{cls}"),
                        format!("text {}: canonical_json {} Serialize {}", short(text), short(&s), short(&want)),
                    ));
                }
            }
            Ok(Err(e)) => viol.push((format!("signatures-canonical_json/error/{cls}"), e.to_string())),
            Err(p) => viol.push((format!("panic/{}/canonical_json", p.file()), p.text)),
        }
        // parse-back
        t.transitions += 1;
        match catch(|| serde_json::from_str::<CanonicalJsonValue>(&ser)) {
            Ok(Ok(back)) => {
                if back != val {
                    viol.push((format!("parse-back/differs/{cls}"), format!("{} -> {:?} != {:?}", short(&ser), back, val)));
                }
            }
            Ok(Err(e)) => viol.push((format!("parse-back/error/{cls}"), format!("{}: {e}", short(&ser)))),
            Err(p) => viol.push((format!("panic/{}/parse-back", p.file()), p.text)),
        }
        outs.push(Some(ser));
    }
    // all spellings of one value give the same bytes
    if !g.unspecified {
        let first = outs.first().cloned().flatten();
        if let Some(i) = outs.iter().position(|o| *o != first) {
            viol.push((
                format!("spellings-disagree/{cls}"),
                format!(
                    "{} -> {:?} but {} -> {:?}",
                    short(&g.texts[0]),
                    first.as_deref().map(short),
                    short(&g.texts[i]),
                    outs[i].as_deref().map(short)
                ),
            ));
        }
    }
    // trace: one line per distinct ruma answer (normally one per group)
    let mut lines = vec![];
    if !g.unspecified {
        let mut seen: Vec<&Option<String>> = vec![];
        for o in &outs {
            if seen.contains(&o) {
                continue;
            }
            seen.push(o);
            let texts: Vec<String> =
                g.texts.iter().zip(&outs).filter(|(_, x)| *x == o).map(|(t, _)| hex(t.as_bytes())).collect();
            lines.push(
                json!({"c": cls, "o": o.as_ref().map(|s| hex(s.as_bytes())), "t": texts}).to_string(),
            );
        }
    }
    (viol, lines)
}

fn case_json(g: &Group) -> Value {
    json!({
        "class": g.class,
        "texts": g.texts,
        "texts_hex": g.texts.iter().map(|t| hex(t.as_bytes())).collect::<Vec<_>>(),
        "expect": g.expect,
        "unspecified": g.unspecified,
    })
}

fn case_from_json(v: &Value) -> Group {
    Group {
        class: v["class"].as_str().unwrap_or("?").to_owned(),
        texts: v["texts_hex"]
            .as_array()
            .map(|a| {
                a.iter()
                    .map(|h| String::from_utf8_lossy(&unhex(h.as_str().unwrap_or(""))).into_owned())
                    .collect()
            })
            .unwrap_or_default(),
        expect: v["expect"].as_str().map(str::to_owned),
        unspecified: v["unspecified"].as_bool().unwrap_or(false),
        py_only: v["python_only"].as_bool().unwrap_or(false),
    }
}

fn main() {
    let args = parse_args();
    if let Some(p) = &args.replay {
        replay_and_exit("C01", p, |v| {
            let g = case_from_json(v);
            let (mut viol, lines) = eval(&g, &mut Tally::new());
            viol.extend(pyval::validate_lines("C01", &lines));
            viol
        });
    }
    let tier = args.tier;
    let report = Report::new("C01", "model_checking", &args);
    let nstr = strings(tier).len();
    let nsmall = strings(Tier::Quick).len();
    let max_nodes = tier.pick(4, 5);
    let n4 = tier.pick(10, nsmall);
    report.set_rule(&format!(
        "P-explorer over JSON texts. group = one JSON value, members = its spellings: all key orders of every object x \
         {N_WS} whitespace styles x {N_ESC} escape spellings (literal / \\uxxxx incl. surrogate pairs / short escapes / mixed) \
         + duplicate-key texts (decoy with the same key before the real entry). Families: (a) every scalar (null, bools, \
         7 integers incl. ±(2^53-2), ±(2^53-1), {nstr} strings over the class representatives) in 8 contexts and as key; \
         (b) objects over every 2- and 3-subset of the {nstr} key strings, every 4-subset of {n4} key strings; \
         (c) every value with <= {max_nodes} nodes (arrays <= 3, objects <= 4 keys, nesting <= 3) over a small scalar/key pool; \
         (d) 26 non-representable number spellings and 5 lone-surrogate strings in 8 contexts + as duplicate / key. \
         Each text: from_str::<CanonicalJsonValue>, Serialize/Display/to_vec, to_canonical_value + TryFrom<Value>, \
         ruma_signatures::canonical_json, parse-back; bytes compared with the harness reference encoder and, for every \
         text, with python json + hand-written python encoder (oracle/validate.py). state = one distinct text; \
         transition = one call of ruma code; non-trivial = distinct value (group) whose reference answer is defined"
    ));
    report.assume("reference encoder = Matrix spec appendix 'Canonical JSON' (shortest escapes, code-point key order, integers in ±(2^53-1))");
    report.assume("a text whose only non-representable number is overwritten by a later duplicate key is Unspecified (executed, not compared)");
    report.assume("lone surrogate escapes denote no Unicode scalar value: the text must be rejected");
    report.require_outcomes("from_str", 2);

    let mut shards: Vec<Shard> = vec![Shard::Scalars, Shard::NonRep];
    for first in 0..nstr {
        shards.push(Shard::Keys { n: 2, first, small: 0 });
        shards.push(Shard::Keys { n: 3, first, small: 0 });
    }
    for first in 0..n4 {
        shards.push(Shard::Keys { n: 4, first, small: n4 });
    }
    for n in 1..=max_nodes {
        let parts = if n >= 4 { 16 } else { 1 };
        for part in 0..parts {
            shards.push(Shard::Shapes { n, part, parts });
        }
    }

    let trace = Trace::new("C01");
    let seen: Vec<Mutex<HashSet<u64>>> = (0..64).map(|_| Mutex::new(HashSet::new())).collect();
    par_shards(&report, shards.len(), |i, t| {
        let mut lines = vec![];
        let t0 = std::time::Instant::now();
        let st0 = t.states;
        run_shard(&shards[i], tier, &mut |g: Group| {
            // dedup groups (values) across families
            let h = engine::fixed_hash(&(&g.texts.first(), g.texts.len(), &g.expect));
            if !seen[(h % 64) as usize].lock().unwrap().insert(h) {
                return;
            }
            if g.expect.is_some() || !g.unspecified {
                t.nontrivial += 1;
            }
            let (viol, l) = eval(&g, t);
            if t.nontrivial % 4000 == 1 {
                t.sample(|| json!({"class": g.class, "texts": g.texts.iter().take(3).collect::<Vec<_>>(), "n_texts": g.texts.len(), "canonical": g.expect}));
            }
            for (sig, detail) in viol {
                report.violation(&sig, || detail, || case_json(&g));
            }
            lines.extend(l);
        });
        if std::env::var("VERIF_DEBUG").is_ok() {
            eprintln!("shard {i} {:?} texts={} {:.2}s", shards[i], t.states - st0, t0.elapsed().as_secs_f64());
        }
        trace.push_shard(i, lines);
    });

    report.set("wall_explore_s", json!(report.elapsed_s()));
    let (lines, mism, summary) = trace.validate();
    report.set("wall_explore_and_python_s", json!(report.elapsed_s()));
    report.add_traces(summary.validated);
    report.set("python_validated_texts", json!(summary.validated));
    report.set("python_trace_lines", json!(lines.len()));
    report.set("string_representatives", json!(nstr));
    for m in mism {
        let line: Value = serde_json::from_str(&lines[m.line]).unwrap_or(Value::Null);
        let texts: Vec<String> = line["t"]
            .as_array()
            .map(|a| a.iter().map(|h| String::from_utf8_lossy(&unhex(h.as_str().unwrap_or(""))).into_owned()).collect())
            .unwrap_or_default();
        report.violation(
            &m.sig,
            || m.detail.clone(),
            || {
                json!({
                    "class": line["c"], "texts": texts, "texts_hex": line["t"],
                    // the reference is python here: replay recomputes it
                    "expect": Value::Null, "unspecified": false, "python_only": true,
                })
            },
        );
    }
    report.finish()
}

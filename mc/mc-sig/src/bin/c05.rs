//! C05 — content hash, reference hash and event IDs are the spec's functions of the event.
//!
//! P-explorer: the C03 event families x room versions 1..=11 x presence of `unsigned` /
//! `signatures` / `hashes` x every single-field mutation, plus a size ladder around the
//! 65 535-byte limit. Absolute values are recomputed by python (sha256 over python redaction +
//! python canonical JSON, base64 alphabet by version); differential invariants are checked here.

use engine::{
    catch, par_shards, parse_args, replay_and_exit,
    spec::redaction::{self as spec, RefRedact},
    Report, Tally,
};
use mc_sig::{
    events,
    keys,
    pyval::{self, Trace},
    refjson::{self, from_canonical_obj, to_canonical_obj},
};
use ruma_common::{canonical_json::redact, room_version_rules::RoomVersionRules, EventId, RoomVersionId};
use ruma_signatures::{content_hash, hash_and_sign_event, reference_hash, Error};
use serde_json::{json, Map, Value};

const MAX_PDU: usize = 65_535;

fn rules_for(v: u8) -> RoomVersionRules {
    RoomVersionId::try_from(v.to_string().as_str())
        .ok()
        .and_then(|id| id.rules())
        .unwrap_or_else(|| engine::machinery_error("room version without rules"))
}

fn res_string(r: Result<String, Error>) -> String {
    match r {
        Ok(s) => format!("ok:{s}"),
        Err(Error::PduSize) => "err:PduSize".into(),
        Err(e) => format!("err:{e}"),
    }
}

#[derive(Clone, Debug)]
struct Hashes {
    ch: String,
    rh: String,
}

/// the two real entry points on one event
fn hashes_of(v: u8, ev: &Map<String, Value>, t: &mut Tally) -> Result<Hashes, (String, String)> {
    let obj = to_canonical_obj(ev);
    let rules = rules_for(v);
    t.transitions += 2;
    let ch = catch(|| content_hash(&obj).map(|h| h.encode())).map_err(|p| (format!("panic/{}/content_hash", p.file()), p.text))?;
    let rh = catch(|| reference_hash(&obj, &rules)).map_err(|p| (format!("panic/{}/reference_hash", p.file()), p.text))?;
    let h = Hashes { ch: res_string(ch), rh: res_string(rh) };
    t.outcome("content_hash", if h.ch.starts_with("ok:") { "ok" } else if h.ch == "err:PduSize" { "PduSize" } else { "other-error" });
    t.outcome("reference_hash", if h.rh.starts_with("ok:") { "ok" } else if h.rh == "err:PduSize" { "PduSize" } else { "other-error" });
    Ok(h)
}

fn line_of(class: &str, v: u8, ev: &Map<String, Value>, h: &Hashes, hs: Option<&str>) -> String {
    let mut l = json!({"c": class, "v": v, "ev": ev, "ch": h.ch, "rh": h.rh});
    if let Some(hs) = hs {
        l["hs"] = json!(hs);
    }
    l.to_string()
}

/// reference: canonical form covered by the content hash / by the reference hash
fn ch_form(ev: &Map<String, Value>) -> Option<String> {
    refjson::canonical_without(ev, &["unsigned", "signatures", "hashes"])
}

enum RhForm {
    Form(String),
    MustErr,
    Unspecified,
}

fn rh_form(v: u8, ev: &Map<String, Value>) -> RhForm {
    match spec::redact_event(v, ev) {
        RefRedact::Must(m) => match refjson::canonical_without(&m, &["signatures", "unsigned"]) {
            Some(s) => RhForm::Form(s),
            None => RhForm::Unspecified,
        },
        RefRedact::MustErr => RhForm::MustErr,
        RefRedact::Unspecified => RhForm::Unspecified,
    }
}

/// Size rule and shape of the answers (three-valued, DESIGN §3 C05), checked here as well as in python.
fn absolute_checks(class: &str, v: u8, ev: &Map<String, Value>, h: &Hashes, t: &mut Tally) -> Vec<(String, String)> {
    let mut viol = vec![];
    let full = refjson::canonical_obj(ev).map(|s| s.len()).unwrap_or(0);
    let mut check = |kind: &str, got: &str, stripped: usize, alphabet_url: bool| {
        if stripped > MAX_PDU {
            if got != "err:PduSize" {
                viol.push((
                    format!("{kind}/size-limit/accepted-{}-bytes/{class}", if stripped == MAX_PDU + 1 { "65536".to_owned() } else { "over-65536".to_owned() }),
                    format!("v{v}: covered canonical form has {stripped} bytes (> 65535) but the result is {got}"),
                ));
            }
        } else if full <= MAX_PDU {
            match got.strip_prefix("ok:") {
                None => viol.push((
                    format!("{kind}/unexpected-error/{class}"),
                    format!("v{v}: event of {full} bytes (covered form {stripped}): {got}"),
                )),
                Some(s) => {
                    let ok_chars = s.len() == 43
                        && s.bytes().all(|b| {
                            b.is_ascii_alphanumeric() || if alphabet_url { b == b'-' || b == b'_' } else { b == b'+' || b == b'/' }
                        });
                    if !ok_chars {
                        viol.push((
                            format!("{kind}/not-unpadded-{}-base64/v{v}", if alphabet_url { "urlsafe" } else { "standard" }),
                            format!("v{v}: {s:?}"),
                        ));
                    }
                }
            }
        } else {
            t.unspecified += 1;
        }
    };
    if let Some(f) = ch_form(ev) {
        check("content_hash", &h.ch, f.len(), false);
    }
    match rh_form(v, ev) {
        RhForm::Form(f) => check("reference_hash", &h.rh, f.len(), v >= 4),
        RhForm::MustErr => {
            if h.rh.starts_with("ok:") {
                viol.push((format!("reference_hash/expected-error/{class}"), format!("v{v}: unredactable event hashed to {}", h.rh)));
            }
        }
        RhForm::Unspecified => t.unspecified += 1,
    }
    // the reference hash is the event ID from v3 on
    if v >= 3 {
        if let Some(s) = h.rh.strip_prefix("ok:") {
            let id = format!("${s}");
            t.transitions += 1;
            match catch(|| <&EventId>::try_from(id.as_str()).is_ok()) {
                Ok(true) => t.outcome("event_id_parse", "ok"),
                Ok(false) => {
                    t.outcome("event_id_parse", "err");
                    viol.push((format!("event_id/not-parsable/v{v}"), id));
                }
                Err(p) => viol.push((format!("panic/{}/EventId", p.file()), p.text)),
            }
        }
    }
    viol
}

/// the event with / without the three uncovered fields; bit 0 unsigned, 1 signatures, 2 hashes
fn with_presence(base: &Map<String, Value>, bits: u8) -> Map<String, Value> {
    let mut e = base.clone();
    e.remove("unsigned");
    e.remove("signatures");
    e.remove("hashes");
    if bits & 1 != 0 {
        e.insert("unsigned".into(), json!({"age": 5, "age_ts": 1_700_000_000_000i64, "replaces_state": "$old:sender.org", "prev_content": {"k": "v"}, "redacted_because": {"type": "m.room.redaction"}}));
    }
    if bits & 2 != 0 {
        e.insert("signatures".into(), json!({"x.org": {"ed25519:1": "c2ln"}}));
    }
    if bits & 4 != 0 {
        e.insert("hashes".into(), json!({"sha256": "aGFzaGhhc2hoYXNoaGFzaGhhc2hoYXNoaGFzaGhhc2g", "md5": "m"}));
    }
    e
}

struct Ctx<'a> {
    report: &'a Report,
    lines: Vec<String>,
}

impl Ctx<'_> {
    /// hash one event, run the absolute checks, write the trace line
    fn observe(&mut self, class: &str, v: u8, ev: &Map<String, Value>, hs: Option<&str>, t: &mut Tally) -> Option<Hashes> {
        t.states += 1;
        t.nontrivial += 1;
        let h = match hashes_of(v, ev, t) {
            Ok(h) => h,
            Err((sig, detail)) => {
                self.report.violation(&sig, || detail, || json!({"kind": "hash", "c": class, "v": v, "ev": ev}));
                return None;
            }
        };
        for (sig, detail) in absolute_checks(class, v, ev, &h, t) {
            self.report.violation(&sig, || detail, || json!({"kind": "hash", "c": class, "v": v, "ev": ev}));
        }
        self.lines.push(line_of(class, v, ev, &h, hs));
        Some(h)
    }
}

fn diff_case(v: u8, label: &str, a: &Map<String, Value>, b: &Map<String, Value>) -> Value {
    json!({"kind": "diff", "v": v, "label": label, "orig": a, "mutated": b})
}

/// differential invariants between an event and a variant of it
fn diff_checks(v: u8, label: &str, a: &Map<String, Value>, ha: &Hashes, b: &Map<String, Value>, hb: &Hashes) -> Vec<(String, String)> {
    let mut viol = vec![];
    let class = label.split(':').next().unwrap_or(label);
    // content hash: equal iff the covered canonical forms are equal
    if let (Some(fa), Some(fb)) = (ch_form(a), ch_form(b)) {
        if ha.ch.starts_with("ok:") && hb.ch.starts_with("ok:") {
            if (fa == fb) != (ha.ch == hb.ch) {
                viol.push((
                    format!("content_hash/{}/{label}", if fa == fb { "changed-by-uncovered-field" } else { "unchanged-by-covered-field" }),
                    format!("v{v} {label}: {} vs {}", ha.ch, hb.ch),
                ));
            }
        }
    }
    if let (RhForm::Form(fa), RhForm::Form(fb)) = (rh_form(v, a), rh_form(v, b)) {
        if ha.rh.starts_with("ok:") && hb.rh.starts_with("ok:") {
            if (fa == fb) != (ha.rh == hb.rh) {
                viol.push((
                    format!("reference_hash/v{v}/{}/{class}:{}", if fa == fb { "changed-by-stripped-field" } else { "unchanged-by-kept-field" }, label.split(':').nth(1).unwrap_or("")),
                    format!("v{v} {label}: {} vs {} on {}", ha.rh, hb.rh, Value::Object(b.clone())),
                ));
            }
        }
    }
    viol
}

/// string of `n` bytes made of `unit` (1, 2 or 4 bytes per char) and ASCII filler
fn pad(unit: char, n: usize) -> String {
    let w = unit.len_utf8();
    let mut s = String::with_capacity(n);
    for _ in 0..n / w {
        s.push(unit);
    }
    for _ in 0..n % w {
        s.push('a');
    }
    s
}

/// Pad the string at `path` so that `measure(event)` is exactly `target` bytes.
fn pad_to(base: &Map<String, Value>, path: &[&str], unit: char, target: usize, measure: &dyn Fn(&Map<String, Value>) -> usize) -> Option<Map<String, Value>> {
    let set = |n: usize| {
        let mut e = base.clone();
        let (last, dirs) = path.split_last().unwrap();
        let obj = events::get_path_mut(&mut e, dirs).unwrap();
        obj.insert((*last).to_owned(), json!(pad(unit, n)));
        e
    };
    let zero = measure(&set(0));
    if target < zero {
        return None;
    }
    let e = set(target - zero);
    if measure(&e) == target {
        Some(e)
    } else {
        None
    }
}

fn shard(v: u8, fam: &events::Family, ctx: &mut Ctx<'_>, t: &mut Tally) {
    let report = ctx.report;
    let name = fam.name;
    // A: presence of the uncovered fields
    let mut by_bits: Vec<(u8, Map<String, Value>, Hashes)> = vec![];
    for bits in 0..8u8 {
        let ev = with_presence(&fam.event, bits);
        if let Some(h) = ctx.observe(&format!("{name}/presence-{bits:03b}"), v, &ev, None, t) {
            by_bits.push((bits, ev, h));
        }
    }
    for (bits, ev, h) in &by_bits[1..] {
        let (_, ev0, h0) = &by_bits[0];
        for (sig, detail) in diff_checks(v, &format!("presence:{bits:03b}"), ev0, h0, ev, h) {
            report.violation(&sig, || detail, || diff_case(v, "presence", ev0, ev));
        }
    }
    // B: every single-field mutation of the event that has all three fields
    let full = with_presence(&fam.event, 7);
    let Some((_, _, hfull)) = by_bits.iter().find(|(b, _, _)| *b == 7) else { return };
    let mut muts = events::mutations(&full);
    // edits inside `signatures` (the generic mutator leaves that key alone)
    for (label, val) in [("change:signatures", json!({"y.org": {"ed25519:2": "AAAA"}})), ("kind:signatures", json!(7))] {
        let mut e = full.clone();
        e.insert("signatures".into(), val);
        muts.push(events::Mutation { label: label.into(), event: e });
    }
    let mut e = full.clone();
    e.remove("signatures");
    muts.push(events::Mutation { label: "delete:signatures".into(), event: e });
    for m in &muts {
        if let Some(h) = ctx.observe(&format!("{name}/{}", m.label), v, &m.event, None, t) {
            for (sig, detail) in diff_checks(v, &m.label, &full, hfull, &m.event, &h) {
                report.violation(&sig, || detail, || diff_case(v, &m.label, &full, &m.event));
            }
        }
    }
    // C: the reference hash does not change under redaction (reference table and ruma's redact)
    let mut copies = vec![];
    if let RefRedact::Must(m) = spec::redact_event(v, &full) {
        copies.push(("redacted-by-reference", m));
    }
    t.transitions += 1;
    if let Ok(Ok(r)) = catch(|| redact(to_canonical_obj(&full), &rules_for(v).redaction, None)) {
        copies.push(("redacted-by-ruma", from_canonical_obj(&r)));
    }
    for (label, copy) in copies {
        if let Some(h) = ctx.observe(&format!("{name}/{label}"), v, &copy, None, t) {
            if h.rh != hfull.rh {
                report.violation(
                    &format!("reference_hash/v{v}/changed-by-redaction/{name}"),
                    || format!("{label}: {} -> {}", hfull.rh, h.rh),
                    || diff_case(v, label, &full, &copy),
                );
            }
        }
    }
    // D: hashes.sha256 written by hash_and_sign_event is the content hash
    for bits in [0u8, 7] {
        let ev = with_presence(&fam.event, bits);
        let mut obj = to_canonical_obj(&ev);
        t.transitions += 1;
        match catch(|| hash_and_sign_event("sender.org", &keys::key_pair(0, "1"), &mut obj, &rules_for(v).redaction)) {
            Ok(Ok(())) => {
                let signed = from_canonical_obj(&obj);
                let hs = signed.get("hashes").and_then(|h| h.get("sha256")).and_then(Value::as_str).map(str::to_owned);
                let h = ctx.observe(&format!("{name}/hash_and_sign_event-{bits:03b}"), v, &signed, hs.as_deref(), t);
                if let (Some(h), Some(hs)) = (h, hs) {
                    if h.ch != format!("ok:{hs}") {
                        report.violation(
                            "hash_and_sign_event/hashes.sha256-is-not-content_hash",
                            || format!("v{v} {name}: hashes.sha256 {hs} content_hash {}", h.ch),
                            || json!({"kind": "hash", "c": "hash_and_sign_event", "v": v, "ev": signed}),
                        );
                    }
                    // pre-existing hashes entries other than sha256 survive
                    if bits == 7 && signed["hashes"]["md5"] != "m" {
                        report.violation("hash_and_sign_event/dropped-other-hashes", || signed["hashes"].to_string(), || json!({"kind": "hash", "c": "hash_and_sign_event", "v": v, "ev": signed}));
                    }
                }
            }
            Ok(Err(e)) => report.violation(&format!("hash_and_sign_event/error/v{v}/{name}"), || e.to_string(), || json!({"kind": "hash", "c": "sign", "v": v, "ev": ev})),
            Err(p) => report.violation(&format!("panic/{}/hash_and_sign_event", p.file()), || p.text, || json!({"kind": "hash", "c": "sign", "v": v, "ev": ev})),
        }
    }
}

/// the size ladder of one room version
fn ladder(v: u8, ctx: &mut Ctx<'_>, t: &mut Tally) {
    let fams = events::families();
    let message = &fams.iter().find(|f| f.name == "message").unwrap().event;
    let member = &fams.iter().find(|f| f.name == "member-join").unwrap().event;
    // a member event that redaction leaves as it is (so that full form == covered form)
    let minimal = match spec::redact_event(v, &with_presence(member, 0)) {
        RefRedact::Must(m) => m,
        _ => engine::machinery_error("cannot redact the ladder base"),
    };
    let ch_len = |e: &Map<String, Value>| ch_form(e).map(|s| s.len()).unwrap_or(0);
    let rh_len = move |e: &Map<String, Value>| match rh_form(v, e) {
        RhForm::Form(s) => s.len(),
        _ => 0,
    };
    let mut n_built = 0;
    for target in 65_530..=65_540usize {
        for unit in ['a', 'é', '\u{1F600}'] {
            if unit != 'a' && !(65_534..=65_537).contains(&target) {
                continue;
            }
            let w = unit.len_utf8();
            for bits in [0u8, 7] {
                // L1: padding in content.body (stripped by redaction): content hash at the limit
                if let Some(e) = pad_to(&with_presence(message, bits), &["content", "body"], unit, target, &ch_len) {
                    ctx.observe(&format!("ladder/content-body/{w}-byte/presence-{bits:03b}"), v, &e, None, t);
                    n_built += 1;
                }
                // L2: padding in state_key (kept): redacted form at the limit, full form larger
                if let Some(e) = pad_to(&with_presence(member, bits), &["state_key"], unit, target, &rh_len) {
                    ctx.observe(&format!("ladder/state_key/{w}-byte/presence-{bits:03b}"), v, &e, None, t);
                    n_built += 1;
                }
            }
            // L3: nothing to strip: full form == covered form == target
            if let Some(e) = pad_to(&minimal, &["state_key"], unit, target, &rh_len) {
                ctx.observe(&format!("ladder/minimal/{w}-byte"), v, &e, None, t);
                n_built += 1;
            }
        }
    }
    if n_built < 90 {
        engine::machinery_error(&format!("size ladder of v{v} incomplete: {n_built} events"));
    }
}

fn replay(case: &Value) -> Vec<(String, String)> {
    let mut t = Tally::new();
    let v = case["v"].as_u64().unwrap_or(1) as u8;
    match case["kind"].as_str() {
        Some("hash") | Some("python") => {
            let ev = case["ev"].as_object().cloned().unwrap_or_default();
            let class = case["c"].as_str().unwrap_or("?");
            match hashes_of(v, &ev, &mut t) {
                Err(e) => vec![e],
                Ok(h) => {
                    let mut out = absolute_checks(class, v, &ev, &h, &mut t);
                    let hs = case["hs"].as_str();
                    out.extend(pyval::validate_lines("C05", &[line_of(class, v, &ev, &h, hs)]));
                    out
                }
            }
        }
        Some("diff") => {
            let a = case["orig"].as_object().cloned().unwrap_or_default();
            let b = case["mutated"].as_object().cloned().unwrap_or_default();
            let label = case["label"].as_str().unwrap_or("?");
            match (hashes_of(v, &a, &mut t), hashes_of(v, &b, &mut t)) {
                (Ok(ha), Ok(hb)) => {
                    let mut out = diff_checks(v, label, &a, &ha, &b, &hb);
                    if label.starts_with("redacted-by") && ha.rh != hb.rh {
                        out.push((format!("reference_hash/v{v}/changed-by-redaction"), format!("{} -> {}", ha.rh, hb.rh)));
                    }
                    out
                }
                (Err(e), _) | (_, Err(e)) => vec![e],
            }
        }
        _ => engine::machinery_error("unknown replay case kind"),
    }
}

fn main() {
    let args = parse_args();
    if let Some(p) = &args.replay {
        replay_and_exit("C05", p, replay);
    }
    let report = Report::new("C05", "model_checking", &args);
    let fams = events::families();
    report.set_rule(&format!(
        "product: room versions 1..=11 (RoomVersionId::rules()) x {} event families (as C03) x (a) all 8 presence combinations of \
         unsigned / signatures / hashes, (b) every single-field mutation (change, delete, kind change, added key at top level, in content, \
         unsigned, hashes, third_party_invite(.signed), signatures) of the event carrying all three, (c) redacted copies (reference table and \
         ruma's redact), (d) hash_and_sign_event output; plus per version a size ladder: covered canonical form of exactly 65530..=65540 \
         bytes by padding content.body (stripped key), state_key (kept key) and a minimal event (full form == covered form) with 1-, 2- and \
         4-byte characters. Each event through content_hash and reference_hash; every line recomputed by python (sha256 over python redaction \
         + python canonical JSON, standard alphabet for v1-3 / URL-safe from v4, three-valued size rule); here: size rule, base64 shape, \
         $hash parses as an event ID, hash equal iff covered canonical form equal (differential), unchanged by redaction, hashes.sha256 == \
         content_hash. state = one (version, event); transition = one call of ruma code; non-trivial = every state (python or the \
         differential reference defines the answer; size-ambiguous answers are counted as unspecified)",
        fams.len()
    ));
    report.assume("python oracle: oracle/validate.py C05 (redaction table transcribed in oracle/redaction.py, independent of the Rust table)");
    report.assume("covered form > 65535 bytes => Err(PduSize); whole event <= 65535 bytes => Ok; in between Unspecified (DESIGN §1.3)");
    report.assume("v11 third_party_invite without `signed` / non-object: redaction unspecified, reference hash not compared");
    report.require_outcomes("content_hash", 2);
    report.require_outcomes("reference_hash", 2);

    let trace = Trace::new("C05");
    let mut shards: Vec<(u8, Option<usize>)> = vec![];
    // the ladders are the slow shards: first
    for v in 1..=11u8 {
        shards.push((v, None));
    }
    for v in 1..=11u8 {
        for f in 0..fams.len() {
            shards.push((v, Some(f)));
        }
    }
    par_shards(&report, shards.len(), |i, t| {
        let (v, f) = shards[i];
        let mut ctx = Ctx { report: &report, lines: vec![] };
        match f {
            Some(f) => shard(v, &fams[f], &mut ctx, t),
            None => ladder(v, &mut ctx, t),
        }
        if let Some(l) = ctx.lines.get((i * 7) % ctx.lines.len().max(1)) {
            if l.len() < 4000 {
                t.sample(|| serde_json::from_str(l).unwrap_or(Value::Null));
            }
        }
        trace.push_shard(i, ctx.lines);
    });
    report.set("wall_explore_s", json!(report.elapsed_s()));
    let (lines, mism, summary) = trace.validate();
    report.add_traces(summary.validated);
    report.set("python_validated_events", json!(summary.validated));
    report.set("python_unspecified", json!(summary.unspecified));
    for m in mism {
        let line: Value = serde_json::from_str(&lines[m.line]).unwrap_or(Value::Null);
        // class = family + kind of mutation (the concrete path stays in the case)
        let sig = m.sig.split(':').next().unwrap_or(&m.sig).to_owned();
        report.violation(
            &sig,
            || m.detail.clone(),
            || json!({"kind": "python", "c": line["c"], "v": line["v"], "ev": line["ev"], "hs": line.get("hs")}),
        );
    }
    report.finish()
}

//! Shared helpers of the mc-sig checks (C01 C02 C03 C05):
//! * `keys`   — fixed Ed25519 key pairs built from enumerated 32-byte seeds as PKCS#8 v1 / v2
//!              documents (no RNG, DESIGN §1.4);
//! * `refjson`— an independent canonical-JSON encoder on `serde_json::Value` (reference model),
//!              conversions to / from ruma's `CanonicalJsonObject`;
//! * `text`   — a JSON *text* model with spellers (key order, whitespace, escapes, duplicates);
//! * `events` — the event families of C03 / C05, the spec's required-signer rule, single-field
//!              mutations;
//! * `pyval`  — trace files and the runner of the cross-language validator
//!              (`python3 /verif/oracle/validate.py`).

pub mod keys {
    use ruma_common::serde::Base64;
    use ruma_signatures::{Ed25519KeyPair, PublicKeyMap};

    pub const N_SEEDS: usize = 6;

    /// The enumerated seeds: seed `i` is the byte progression `17*(i+1) + 7*j`.
    pub fn seed(i: usize) -> [u8; 32] {
        let mut s = [0u8; 32];
        for (j, b) in s.iter_mut().enumerate() {
            *b = (17 * (i + 1) + 7 * j) as u8;
        }
        s
    }

    const HEAD_V1: [u8; 16] =
        [0x30, 0x2e, 0x02, 0x01, 0x00, 0x30, 0x05, 0x06, 0x03, 0x2b, 0x65, 0x70, 0x04, 0x22, 0x04, 0x20];
    const HEAD_V2: [u8; 16] =
        [0x30, 0x51, 0x02, 0x01, 0x01, 0x30, 0x05, 0x06, 0x03, 0x2b, 0x65, 0x70, 0x04, 0x22, 0x04, 0x20];

    /// PKCS#8 v1 (RFC 5208 / 8410 without public key)
    pub fn pkcs8_v1(seed: &[u8; 32]) -> Vec<u8> {
        let mut d = HEAD_V1.to_vec();
        d.extend_from_slice(seed);
        d
    }

    /// PKCS#8 v2 (RFC 5958 OneAsymmetricKey with `[1] publicKey`)
    pub fn pkcs8_v2(seed: &[u8; 32], public: &[u8; 32]) -> Vec<u8> {
        let mut d = HEAD_V2.to_vec();
        d.extend_from_slice(seed);
        d.extend_from_slice(&[0x81, 0x21, 0x00]);
        d.extend_from_slice(public);
        d
    }

    /// Key pair of seed `i`: even seeds are loaded from a v1 document, odd seeds from a v2
    /// document (whose public key comes from the v1 load of the same seed).
    pub fn key_pair(i: usize, version: &str) -> Ed25519KeyPair {
        let s = seed(i);
        let v1 = Ed25519KeyPair::from_der(&pkcs8_v1(&s), version.to_owned())
            .unwrap_or_else(|e| engine::machinery_error(&format!("PKCS#8 v1 of seed {i} rejected: {e}")));
        if i % 2 == 0 {
            return v1;
        }
        let public = v1.public_key();
        Ed25519KeyPair::from_der(&pkcs8_v2(&s, &public), version.to_owned())
            .unwrap_or_else(|e| engine::machinery_error(&format!("PKCS#8 v2 of seed {i} rejected: {e}")))
    }

    pub fn public_key(i: usize) -> [u8; 32] {
        key_pair(i, "1").public_key()
    }

    pub fn hex(b: &[u8]) -> String {
        const D: &[u8; 16] = b"0123456789abcdef";
        let mut s = String::with_capacity(b.len() * 2);
        for x in b {
            s.push(D[(x >> 4) as usize] as char);
            s.push(D[(x & 15) as usize] as char);
        }
        s
    }

    pub fn unhex(s: &str) -> Vec<u8> {
        (0..s.len() / 2).map(|i| u8::from_str_radix(&s[2 * i..2 * i + 2], 16).unwrap_or(0)).collect()
    }

    /// `entity -> key id -> public key bytes`, as a ruma `PublicKeyMap`
    pub fn key_map(entries: &[(&str, &str, Vec<u8>)]) -> PublicKeyMap {
        let mut m = PublicKeyMap::new();
        for (entity, key_id, bytes) in entries {
            m.entry((*entity).to_owned())
                .or_default()
                .insert((*key_id).to_owned(), Base64::new(bytes.clone()));
        }
        m
    }
}

pub mod refjson {
    use ruma_common::{CanonicalJsonObject, CanonicalJsonValue};
    use serde_json::{Map, Value};

    /// Reference canonical JSON (Matrix spec appendix): keys sorted by code point, no
    /// whitespace, minimal escapes (`\"`, `\\`, `\b \f \n \r \t`, other C0 as `\u00xx` lowercase),
    /// everything else literal UTF-8, integers only. `None` if a number is not an integer in
    /// [-(2^53-1), 2^53-1].
    pub fn canonical(v: &Value) -> Option<String> {
        let mut out = String::new();
        enc(v, &mut out)?;
        Some(out)
    }

    pub fn canonical_obj(m: &Map<String, Value>) -> Option<String> {
        canonical(&Value::Object(m.clone()))
    }

    /// canonical JSON of the object without the given top-level keys
    pub fn canonical_without(m: &Map<String, Value>, remove: &[&str]) -> Option<String> {
        let mut m = m.clone();
        for k in remove {
            m.remove(*k);
        }
        canonical(&Value::Object(m))
    }

    pub fn enc_str(s: &str, out: &mut String) {
        out.push('"');
        for ch in s.chars() {
            match ch {
                '"' => out.push_str("\\\""),
                '\\' => out.push_str("\\\\"),
                '\u{8}' => out.push_str("\\b"),
                '\u{c}' => out.push_str("\\f"),
                '\n' => out.push_str("\\n"),
                '\r' => out.push_str("\\r"),
                '\t' => out.push_str("\\t"),
                c if (c as u32) < 0x20 => out.push_str(&format!("\\u{:04x}", c as u32)),
                c => out.push(c),
            }
        }
        out.push('"');
    }

    fn enc(v: &Value, out: &mut String) -> Option<()> {
        match v {
            Value::Null => out.push_str("null"),
            Value::Bool(true) => out.push_str("true"),
            Value::Bool(false) => out.push_str("false"),
            Value::Number(n) => {
                let i = n.as_i64()?;
                if !(-9_007_199_254_740_991..=9_007_199_254_740_991).contains(&i) {
                    return None;
                }
                out.push_str(&i.to_string());
            }
            Value::String(s) => enc_str(s, out),
            Value::Array(a) => {
                out.push('[');
                for (i, x) in a.iter().enumerate() {
                    if i > 0 {
                        out.push(',');
                    }
                    enc(x, out)?;
                }
                out.push(']');
            }
            Value::Object(m) => {
                let mut keys: Vec<&String> = m.keys().collect();
                // explicit code-point order, not whatever the map happens to use
                keys.sort_by(|a, b| a.chars().cmp(b.chars()));
                out.push('{');
                for (i, k) in keys.iter().enumerate() {
                    if i > 0 {
                        out.push(',');
                    }
                    enc_str(k, out);
                    out.push(':');
                    enc(&m[*k], out)?;
                }
                out.push('}');
            }
        }
        Some(())
    }

    pub fn to_canonical_obj(m: &Map<String, Value>) -> CanonicalJsonObject {
        m.iter()
            .map(|(k, v)| {
                (
                    k.clone(),
                    CanonicalJsonValue::try_from(v.clone())
                        .unwrap_or_else(|e| engine::machinery_error(&format!("harness value not canonical: {e}"))),
                )
            })
            .collect()
    }

    pub fn from_canonical_obj(o: &CanonicalJsonObject) -> Map<String, Value> {
        o.iter().map(|(k, v)| (k.clone(), Value::from(v.clone()))).collect()
    }

    pub fn obj(v: Value) -> Map<String, Value> {
        match v {
            Value::Object(m) => m,
            _ => engine::machinery_error("expected an object literal"),
        }
    }
}

pub mod text {
    //! JSON *texts*: a value model in which objects are entry lists in textual order (duplicates
    //! allowed, last one wins) and numbers may be raw literals, plus spellers.
    use serde_json::{Map, Value};

    #[derive(Clone, Debug, PartialEq)]
    pub enum V {
        Null,
        Bool(bool),
        Int(i64),
        /// a raw number literal that canonical JSON cannot represent
        RawNum(&'static str),
        Str(String),
        /// a raw string token (already escaped, with quotes) — for lone surrogates
        RawStr(&'static str),
        Arr(Vec<V>),
        Obj(Vec<(K, V)>),
    }

    /// object key: a string or a raw token
    #[derive(Clone, Debug, PartialEq)]
    pub enum K {
        S(String),
        Raw(&'static str),
    }

    impl V {
        pub fn s(s: &str) -> V {
            V::Str(s.to_owned())
        }
        pub fn obj(entries: Vec<(&str, V)>) -> V {
            V::Obj(entries.into_iter().map(|(k, v)| (K::S(k.to_owned()), v)).collect())
        }
        pub fn nodes(&self) -> usize {
            match self {
                V::Arr(a) => 1 + a.iter().map(V::nodes).sum::<usize>(),
                V::Obj(o) => 1 + o.iter().map(|(_, v)| v.nodes()).sum::<usize>(),
                _ => 1,
            }
        }
        /// The JSON value this text denotes (last duplicate wins); `None` if a
        /// non-representable literal is part of the resulting value.
        pub fn semantic(&self) -> Option<Value> {
            Some(match self {
                V::Null => Value::Null,
                V::Bool(b) => Value::Bool(*b),
                V::Int(i) => Value::from(*i),
                V::RawNum(_) | V::RawStr(_) => return None,
                V::Str(s) => Value::String(s.clone()),
                V::Arr(a) => Value::Array(a.iter().map(V::semantic).collect::<Option<Vec<_>>>()?),
                V::Obj(o) => {
                    // last one wins: walk backwards, keep the first occurrence seen
                    let mut m = Map::new();
                    for (k, v) in o.iter().rev() {
                        let K::S(k) = k else { return None };
                        if !m.contains_key(k) {
                            m.insert(k.clone(), v.semantic()?);
                        }
                    }
                    Value::Object(m)
                }
            })
        }
        /// does the text contain an overwritten duplicate entry that holds a raw literal?
        pub fn has_raw(&self) -> bool {
            match self {
                V::RawNum(_) | V::RawStr(_) => true,
                V::Arr(a) => a.iter().any(V::has_raw),
                V::Obj(o) => o.iter().any(|(k, v)| matches!(k, K::Raw(_)) || v.has_raw()),
                _ => false,
            }
        }
    }

    pub const N_WS: usize = 3;
    pub const N_ESC: usize = 4;

    struct Sp<'a> {
        out: &'a mut String,
        ws: usize,
        esc: usize,
        ctr: usize,
    }

    impl Sp<'_> {
        fn gap(&mut self, kind: usize) {
            match self.ws {
                0 => {}
                1 => self.out.push_str(["\n  ", " ", "\n"][kind % 3]),
                _ => self.out.push_str(["\t\r", "\r\t\t", "\t"][kind % 3]),
            }
        }
        fn ch_u(&mut self, c: char, upper: bool) {
            let mut buf = [0u16; 2];
            for u in c.encode_utf16(&mut buf) {
                if upper {
                    self.out.push_str(&format!("\\u{:04X}", u));
                } else {
                    self.out.push_str(&format!("\\u{:04x}", u));
                }
            }
        }
        fn ch_literal(&mut self, c: char) {
            match c {
                '"' => self.out.push_str("\\\""),
                '\\' => self.out.push_str("\\\\"),
                c if (c as u32) < 0x20 => self.ch_u(c, true),
                c => self.out.push(c),
            }
        }
        fn ch_short(&mut self, c: char) {
            match c {
                '"' => self.out.push_str("\\\""),
                '\\' => self.out.push_str("\\\\"),
                '/' => self.out.push_str("\\/"),
                '\u{8}' => self.out.push_str("\\b"),
                '\u{c}' => self.out.push_str("\\f"),
                '\n' => self.out.push_str("\\n"),
                '\r' => self.out.push_str("\\r"),
                '\t' => self.out.push_str("\\t"),
                c if (c as u32) < 0x20 => self.ch_u(c, false),
                c => self.out.push(c),
            }
        }
        fn string(&mut self, s: &str) {
            self.out.push('"');
            for c in s.chars() {
                match self.esc {
                    0 => self.ch_literal(c),
                    1 => self.ch_u(c, false),
                    2 => self.ch_short(c),
                    _ => {
                        self.ctr += 1;
                        if self.ctr % 2 == 0 {
                            self.ch_u(c, true)
                        } else {
                            self.ch_literal(c)
                        }
                    }
                }
            }
            self.out.push('"');
        }
        fn value(&mut self, v: &V) {
            match v {
                V::Null => self.out.push_str("null"),
                V::Bool(b) => self.out.push_str(if *b { "true" } else { "false" }),
                V::Int(i) => self.out.push_str(&i.to_string()),
                V::RawNum(l) | V::RawStr(l) => self.out.push_str(l),
                V::Str(s) => self.string(s),
                V::Arr(a) => {
                    self.out.push('[');
                    for (i, x) in a.iter().enumerate() {
                        if i > 0 {
                            self.gap(2);
                            self.out.push(',');
                        }
                        self.gap(i);
                        self.value(x);
                    }
                    self.gap(1);
                    self.out.push(']');
                }
                V::Obj(o) => {
                    self.out.push('{');
                    for (i, (k, x)) in o.iter().enumerate() {
                        if i > 0 {
                            self.gap(1);
                            self.out.push(',');
                        }
                        self.gap(i);
                        match k {
                            K::S(k) => self.string(k),
                            K::Raw(r) => self.out.push_str(r),
                        }
                        self.gap(2);
                        self.out.push(':');
                        self.gap(1);
                        self.value(x);
                    }
                    self.gap(0);
                    self.out.push('}');
                }
            }
        }
    }

    /// Spell `v` with whitespace style `ws` (0 none, 1 spaces+newlines, 2 tabs+CR) and escape
    /// style `esc` (0 literal where JSON allows, 1 `\uxxxx` for every character incl. surrogate
    /// pairs, 2 short escapes incl. `\/`, 3 alternating `\uXXXX` upper case / literal).
    pub fn spell(v: &V, ws: usize, esc: usize) -> String {
        let mut out = String::new();
        let mut sp = Sp { out: &mut out, ws, esc, ctr: 0 };
        sp.gap(2);
        sp.value(v);
        sp.gap(0);
        out
    }

    /// every reordering of the entries of every object in `v` (product over objects)
    pub fn key_orders(v: &V) -> Vec<V> {
        match v {
            V::Arr(a) => {
                let mut acc: Vec<Vec<V>> = vec![vec![]];
                for x in a {
                    let alts = key_orders(x);
                    let mut next = Vec::with_capacity(acc.len() * alts.len());
                    for pre in &acc {
                        for alt in &alts {
                            let mut p = pre.clone();
                            p.push(alt.clone());
                            next.push(p);
                        }
                    }
                    acc = next;
                }
                acc.into_iter().map(V::Arr).collect()
            }
            V::Obj(o) => {
                // children first
                let mut acc: Vec<Vec<(K, V)>> = vec![vec![]];
                for (k, x) in o {
                    let alts = key_orders(x);
                    let mut next = Vec::with_capacity(acc.len() * alts.len());
                    for pre in &acc {
                        for alt in &alts {
                            let mut p = pre.clone();
                            p.push((k.clone(), alt.clone()));
                            next.push(p);
                        }
                    }
                    acc = next;
                }
                let perms = engine::permutations(o.len());
                let mut out = Vec::with_capacity(acc.len() * perms.len());
                for entries in acc {
                    for p in &perms {
                        out.push(V::Obj(p.iter().map(|&i| entries[i].clone()).collect()));
                    }
                }
                out
            }
            other => vec![other.clone()],
        }
    }

    /// Texts with one duplicate key: for every object entry (any depth) a decoy entry with the
    /// same key and a different value is inserted at every position *before* it (so the real
    /// entry still wins).
    pub fn with_duplicates(v: &V, decoys: &[V]) -> Vec<V> {
        fn rec(v: &V, decoys: &[V], out: &mut Vec<V>, rebuild: &dyn Fn(V) -> V) {
            match v {
                V::Arr(a) => {
                    for (i, x) in a.iter().enumerate() {
                        let a2 = a.clone();
                        rec(x, decoys, out, &|nx| {
                            let mut a3 = a2.clone();
                            a3[i] = nx;
                            rebuild(V::Arr(a3))
                        });
                    }
                }
                V::Obj(o) => {
                    for (i, (k, x)) in o.iter().enumerate() {
                        for d in decoys {
                            if d == x {
                                continue;
                            }
                            for pos in 0..=i {
                                let mut o2 = o.clone();
                                o2.insert(pos, (k.clone(), d.clone()));
                                out.push(rebuild(V::Obj(o2)));
                            }
                        }
                        let o2 = o.clone();
                        rec(x, decoys, out, &|nx| {
                            let mut o3 = o2.clone();
                            o3[i].1 = nx;
                            rebuild(V::Obj(o3))
                        });
                    }
                }
                _ => {}
            }
        }
        let mut out = vec![];
        rec(v, decoys, &mut out, &|x| x);
        out
    }
}

pub mod events {
    //! Event families of C03 / C05 and the spec rules about who has to sign (DESIGN App. A.2).
    use std::collections::BTreeSet;

    use serde_json::{json, Map, Value};

    use crate::refjson::obj;

    pub const SENDER_SERVER: &str = "sender.org";
    pub const EVENT_ID_SERVER: &str = "eid.org:8448";
    pub const AUTH_SERVER: &str = "[2001:db8::1]:8448";
    pub const EXTRA_SERVER: &str = "extra.org";

    #[derive(Clone, Debug)]
    pub struct Family {
        pub name: &'static str,
        pub event: Map<String, Value>,
    }

    fn base(ty: &str, state_key: Option<&str>, content: Value) -> Map<String, Value> {
        let mut m = obj(json!({
            "event_id": format!("$e1:{EVENT_ID_SERVER}"),
            "type": ty,
            "room_id": "!room:sender.org",
            "sender": "@alice:sender.org",
            "content": content,
            "depth": 12,
            "prev_events": [["$p1:sender.org", {"sha256": "cHJldg"}], "$p2"],
            "auth_events": [["$a1:sender.org", {"sha256": "YXV0aA"}]],
            "origin_server_ts": 1_700_000_000_123i64,
            "origin": "sender.org",
            "membership": "join",
            "prev_state": [],
            "redacts": "$gone:sender.org",
            "foo": {"bar": [1, "é", null]},
            // keys some homeserver implementations keep for themselves next to an event: for the hashes they
            // are ordinary top-level keys (covered by the content hash, stripped by redaction)
            "age_ts": 1_700_000_000_000i64,
            "outlier": false,
            "destinations": ["other.org"],
            "unsigned": {"age": 5, "age_ts": 1_700_000_000_000i64, "replaces_state": "$old:sender.org", "prev_content": {"k": "v"}},
        }));
        if let Some(sk) = state_key {
            m.insert("state_key".into(), json!(sk));
        }
        m
    }

    fn member(membership: &str, extra: Value) -> Value {
        let mut c = obj(json!({
            "membership": membership,
            "displayname": "Alice ☃",
            "avatar_url": "mxc://sender.org/abc",
            "is_direct": true,
            "reason": "because",
            "foo": 1,
        }));
        for (k, v) in obj(extra) {
            c.insert(k, v);
        }
        Value::Object(c)
    }

    /// The 18 families: every content key the spec names for the type in any room version, one
    /// unknown content key (`foo`), one unknown top-level key (`foo`), `unsigned`, `redacts`,
    /// `origin` / `membership` / `prev_state`.
    pub fn families() -> Vec<Family> {
        let tpi = json!({"third_party_invite": {
            "display_name": "bob",
            "signed": {"mxid": "@bob:sender.org", "token": "tok", "signatures": {"id.org": {"ed25519:0": "c2ln"}}},
        }});
        let f = |name, event| Family { name, event };
        vec![
            f("member-join", base("m.room.member", Some("@alice:sender.org"), member("join", json!({})))),
            f("member-invite", base("m.room.member", Some("@bob:other.org"), member("invite", json!({})))),
            f("member-invite-3pid", base("m.room.member", Some("@bob:sender.org"), member("invite", tpi))),
            // a third-party invite object that lacks `signed` (what v11 redaction reduces it to is
            // Unspecified, DESIGN §1.3 — the differential invariants still apply)
            f(
                "member-invite-3pid-unsigned",
                base("m.room.member", Some("@bob:sender.org"), member("invite", json!({"third_party_invite": {"display_name": "bob"}}))),
            ),
            // the same key on a join (a client that copies the invite content): the sender's server must sign,
            // so the signatures of this one are actually examined
            f(
                "member-join-3pid-unsigned",
                base("m.room.member", Some("@alice:sender.org"), member("join", json!({"third_party_invite": {"display_name": "bob"}}))),
            ),
            f("member-leave", base("m.room.member", Some("@alice:sender.org"), member("leave", json!({})))),
            f("member-ban", base("m.room.member", Some("@bob:other.org"), member("ban", json!({})))),
            f("member-knock", base("m.room.member", Some("@alice:sender.org"), member("knock", json!({})))),
            f(
                "member-restricted-join",
                base(
                    "m.room.member",
                    Some("@alice:sender.org"),
                    member("join", json!({"join_authorised_via_users_server": format!("@admin:{AUTH_SERVER}")})),
                ),
            ),
            f(
                "create",
                base(
                    "m.room.create",
                    Some(""),
                    json!({"creator": "@alice:sender.org", "room_version": "x", "m.federate": false,
                           "predecessor": {"room_id": "!old:sender.org", "event_id": "$old"}, "type": "m.space", "foo": 1}),
                ),
            ),
            f(
                "join_rules",
                base(
                    "m.room.join_rules",
                    Some(""),
                    json!({"join_rule": "restricted", "allow": [{"type": "m.room_membership", "room_id": "!s:sender.org"}], "foo": 1}),
                ),
            ),
            f(
                "power_levels",
                base(
                    "m.room.power_levels",
                    Some(""),
                    json!({"ban": 50, "events": {"m.room.name": 50}, "events_default": 0, "kick": 50, "redact": 50,
                           "state_default": 50, "users": {"@alice:sender.org": 100}, "users_default": 0, "invite": 10,
                           "notifications": {"room": 50}, "foo": 1}),
                ),
            ),
            f("aliases", base("m.room.aliases", Some("sender.org"), json!({"aliases": ["#a:sender.org"], "foo": 1}))),
            f(
                "history_visibility",
                base("m.room.history_visibility", Some(""), json!({"history_visibility": "shared", "foo": 1})),
            ),
            f("redaction", base("m.room.redaction", None, json!({"redacts": "$gone:sender.org", "reason": "spam", "foo": 1}))),
            f(
                "message",
                base(
                    "m.room.message",
                    None,
                    json!({"body": "hi \"there\" \u{1F600}\n", "msgtype": "m.text", "m.relates_to": {"rel_type": "m.thread"}, "foo": 1}),
                ),
            ),
            // an event without any `content` key (nothing the signature functions need is in there)
            f("no-content", {
                let mut e = base("x.custom", Some("k"), json!({}));
                e.remove("content");
                e
            }),
            f("unknown-type", base("x.custom", Some("k"), json!({"body": "b", "membership": "join", "creator": "c", "foo": 1}))),
        ]
    }

    pub enum Signers {
        Must(BTreeSet<String>),
        /// the event is malformed in a way that makes the required servers undeterminable: Err
        Err,
        Unspecified,
    }

    fn server_of(id: &Value, sigil: char) -> Option<String> {
        let s = id.as_str()?;
        if !s.starts_with(sigil) {
            return None;
        }
        let (_local, server) = s[1..].split_once(':')?;
        if server.is_empty() {
            return None;
        }
        Some(server.to_owned())
    }

    /// Which servers must have signed (spec, server-server API "Validating hashes and
    /// signatures on received events" + room versions 1-2 / 8+).
    pub fn required_signers(v: u8, ev: &Map<String, Value>) -> Signers {
        let Some(ty) = ev.get("type").and_then(Value::as_str) else { return Signers::Err };
        let content = ev.get("content").and_then(Value::as_object);
        let mut out = BTreeSet::new();
        let mut third_party = false;
        if ty == "m.room.member" {
            // a member event without an object content / string membership is malformed; the
            // spec does not say what signature validation does with it
            let Some(content) = content else { return Signers::Unspecified };
            let Some(membership) = content.get("membership").and_then(Value::as_str) else {
                return Signers::Unspecified;
            };
            if membership == "invite" {
                match content.get("third_party_invite") {
                    None => {}
                    Some(Value::Object(_)) => third_party = true,
                    Some(_) => return Signers::Unspecified,
                }
            }
        }
        if !third_party {
            match ev.get("sender").and_then(|s| server_of(s, '@')) {
                Some(s) => {
                    out.insert(s);
                }
                None => return Signers::Err,
            }
        }
        if v <= 2 {
            match ev.get("event_id").and_then(|s| server_of(s, '$')) {
                Some(s) => {
                    out.insert(s);
                }
                None => return Signers::Err,
            }
        }
        if v >= 8 {
            if let Some(u) = content.and_then(|c| c.get("join_authorised_via_users_server")) {
                let is_join = ty == "m.room.member"
                    && content.and_then(|c| c.get("membership")).and_then(Value::as_str) == Some("join");
                if !is_join {
                    // the spec only talks about joins; ruma looks at the key on every event
                    return Signers::Unspecified;
                }
                match server_of(u, '@') {
                    Some(s) => {
                        out.insert(s);
                    }
                    None => return Signers::Err,
                }
            }
        }
        Signers::Must(out)
    }

    #[derive(Clone, Debug)]
    pub struct Mutation {
        /// `change:content.membership`, `delete:origin`, `add:content.zzz` …
        pub label: String,
        pub event: Map<String, Value>,
    }

    /// a value of the same JSON kind that differs from `v`
    pub fn tweak(v: &Value) -> Value {
        match v {
            Value::Null => json!(0),
            Value::Bool(b) => json!(!b),
            Value::Number(n) => json!(n.as_i64().unwrap_or(0) + 1),
            Value::String(s) => {
                // keep identifiers well-formed: change the localpart / a middle character
                if let Some(rest) = s.strip_prefix('@') {
                    json!(format!("@x{rest}"))
                } else if let Some(rest) = s.strip_prefix('$') {
                    json!(format!("$x{rest}"))
                } else {
                    json!(format!("{s}x"))
                }
            }
            Value::Array(a) => {
                let mut a = a.clone();
                a.push(json!("x"));
                Value::Array(a)
            }
            Value::Object(m) => {
                let mut m = m.clone();
                m.insert("zz_added".into(), json!(1));
                Value::Object(m)
            }
        }
    }

    /// Every single-key mutation of `ev`: change / delete of every key at top level, in
    /// `content`, in `unsigned`, in `hashes`, in `content.third_party_invite` and its `signed`;
    /// an added unknown key in each of those objects; a kind change (value replaced by a value
    /// of another JSON kind) for top-level and content keys. `signatures` is left alone (the
    /// checks handle signer removal / bit flips themselves).
    pub fn mutations(ev: &Map<String, Value>) -> Vec<Mutation> {
        let mut out = vec![];
        let paths: Vec<Vec<&str>> = vec![
            vec![],
            vec!["content"],
            vec!["unsigned"],
            vec!["hashes"],
            vec!["content", "third_party_invite"],
            vec!["content", "third_party_invite", "signed"],
        ];
        for path in paths {
            let Some(target) = get_path(ev, &path) else { continue };
            let prefix = if path.is_empty() { String::new() } else { format!("{}.", path.join(".")) };
            for (k, val) in target {
                if path.is_empty() && k == "signatures" {
                    continue;
                }
                let mut e = ev.clone();
                get_path_mut(&mut e, &path).unwrap().insert(k.clone(), tweak(val));
                out.push(Mutation { label: format!("change:{prefix}{k}"), event: e });
                let mut e = ev.clone();
                get_path_mut(&mut e, &path).unwrap().remove(k);
                out.push(Mutation { label: format!("delete:{prefix}{k}"), event: e });
                if path.len() <= 1 {
                    let other = if val.is_number() { json!("seven") } else { json!(7) };
                    let mut e = ev.clone();
                    get_path_mut(&mut e, &path).unwrap().insert(k.clone(), other);
                    out.push(Mutation { label: format!("kind:{prefix}{k}"), event: e });
                }
            }
            let mut e = ev.clone();
            get_path_mut(&mut e, &path).unwrap().insert("zzz".into(), json!("added"));
            out.push(Mutation { label: format!("add:{prefix}zzz"), event: e });
        }
        if !ev.contains_key("unsigned") {
            let mut e = ev.clone();
            e.insert("unsigned".into(), json!({"age": 1}));
            out.push(Mutation { label: "add:unsigned".into(), event: e });
        }
        out
    }

    pub fn get_path<'a>(ev: &'a Map<String, Value>, path: &[&str]) -> Option<&'a Map<String, Value>> {
        let mut cur = ev;
        for p in path {
            cur = cur.get(*p)?.as_object()?;
        }
        Some(cur)
    }

    pub fn get_path_mut<'a>(ev: &'a mut Map<String, Value>, path: &[&str]) -> Option<&'a mut Map<String, Value>> {
        let mut cur = ev;
        for p in path {
            cur = cur.get_mut(*p)?.as_object_mut()?;
        }
        Some(cur)
    }
}

pub mod pyval {
    //! Trace files and the cross-language validator.
    use std::{
        fs,
        io::Write as _,
        path::{Path, PathBuf},
        process::Command,
        sync::Mutex,
    };

    use serde_json::Value;

    /// Collects trace lines per shard so the file order is deterministic.
    pub struct Trace {
        id: String,
        shards: Mutex<Vec<(usize, Vec<String>)>>,
    }

    #[derive(Clone, Debug)]
    pub struct Mismatch {
        pub line: usize,
        pub sig: String,
        pub detail: String,
    }

    #[derive(Clone, Debug, Default)]
    pub struct Summary {
        pub validated: u64,
        pub unspecified: u64,
        pub lines: u64,
        pub mismatches: u64,
    }

    pub fn trace_dir() -> String {
        match std::env::var("VERIF_OUT") {
            Ok(o) => format!("{o}/trace"),
            Err(_) => format!("{}/target/trace", engine::VERIF_ROOT),
        }
    }

    impl Trace {
        pub fn new(id: &str) -> Self {
            Trace { id: id.to_owned(), shards: Mutex::new(vec![]) }
        }
        pub fn push_shard(&self, shard: usize, lines: Vec<String>) {
            if !lines.is_empty() {
                self.shards.lock().unwrap().push((shard, lines));
            }
        }
        /// Write the trace, run the validator, keep the file as `<dir>/<ID>.jsonl`.
        /// Returns the lines (in file order), the mismatches and the summary.
        pub fn validate(self) -> (Vec<String>, Vec<Mismatch>, Summary) {
            let mut shards = self.shards.into_inner().unwrap();
            shards.sort_by_key(|(s, _)| *s);
            let lines: Vec<String> = shards.into_iter().flat_map(|(_, l)| l).collect();
            let dir = trace_dir();
            fs::create_dir_all(&dir)
                .unwrap_or_else(|e| engine::machinery_error(&format!("cannot create {dir}: {e}")));
            let tmp = PathBuf::from(format!("{dir}/{}.{}.jsonl", self.id, std::process::id()));
            {
                let f = fs::File::create(&tmp)
                    .unwrap_or_else(|e| engine::machinery_error(&format!("cannot create {tmp:?}: {e}")));
                let mut w = std::io::BufWriter::with_capacity(1 << 20, f);
                for l in &lines {
                    if w.write_all(l.as_bytes()).and_then(|_| w.write_all(b"\n")).is_err() {
                        engine::machinery_error("cannot write trace");
                    }
                }
                if w.flush().is_err() {
                    engine::machinery_error("cannot flush trace");
                }
            }
            let (mism, summary) = run_validator(&self.id, &tmp);
            let fin = PathBuf::from(format!("{dir}/{}.jsonl", self.id));
            let big = fs::metadata(&tmp).map(|m| m.len() > (256 << 20)).unwrap_or(false);
            if big && mism.is_empty() {
                // a clean multi-hundred-MB trace is not worth keeping around
                let _ = fs::remove_file(&tmp);
                let _ = fs::remove_file(&fin);
            } else {
                let _ = fs::rename(&tmp, &fin);
            }
            if summary.lines != lines.len() as u64 {
                engine::machinery_error(&format!(
                    "validator saw {} lines, the trace has {}",
                    summary.lines,
                    lines.len()
                ));
            }
            (lines, mism, summary)
        }
    }

    /// `python3 /verif/oracle/validate.py <ID> <trace>`; a crash, a nonzero exit or a missing
    /// summary is a machinery error (exit 2), never a verdict.
    pub fn run_validator(id: &str, trace: &Path) -> (Vec<Mismatch>, Summary) {
        let script = format!("{}/oracle/validate.py", engine::VERIF_ROOT);
        let out = Command::new("python3")
            .arg(&script)
            .arg(id)
            .arg(trace)
            .output()
            .unwrap_or_else(|e| engine::machinery_error(&format!("cannot run python3 {script}: {e}")));
        if !out.status.success() {
            engine::machinery_error(&format!(
                "validator exited with {:?}: {}",
                out.status.code(),
                engine::truncate(&String::from_utf8_lossy(&out.stderr), 1500)
            ));
        }
        let stdout = String::from_utf8_lossy(&out.stdout);
        let mut mism = vec![];
        let mut summary = None;
        for l in stdout.lines() {
            let v: Value = serde_json::from_str(l)
                .unwrap_or_else(|e| engine::machinery_error(&format!("validator printed non-JSON {l:?}: {e}")));
            if let Some(s) = v.get("summary") {
                let g = |k: &str| s.get(k).and_then(Value::as_u64).unwrap_or(0);
                summary = Some(Summary {
                    validated: g("validated"),
                    unspecified: g("unspecified"),
                    lines: g("lines"),
                    mismatches: g("mismatches"),
                });
            } else {
                mism.push(Mismatch {
                    line: v["line"].as_u64().unwrap_or(0) as usize,
                    sig: v["sig"].as_str().unwrap_or("py/?").to_owned(),
                    detail: v["detail"].as_str().unwrap_or("").to_owned(),
                });
            }
        }
        let Some(summary) = summary else { engine::machinery_error("validator printed no summary line") };
        if summary.mismatches != mism.len() as u64 {
            engine::machinery_error("validator summary does not match its mismatch lines");
        }
        (mism, summary)
    }

    /// Validate a handful of lines (replay): returns `(sig, detail)` per mismatch.
    pub fn validate_lines(id: &str, lines: &[String]) -> Vec<(String, String)> {
        if lines.is_empty() {
            return vec![];
        }
        let dir = trace_dir();
        let _ = fs::create_dir_all(&dir);
        let tmp = PathBuf::from(format!("{dir}/{id}.replay.{}.jsonl", std::process::id()));
        fs::write(&tmp, lines.join("\n") + "\n")
            .unwrap_or_else(|e| engine::machinery_error(&format!("cannot write {tmp:?}: {e}")));
        let (mism, _) = run_validator(id, &tmp);
        let _ = fs::remove_file(&tmp);
        mism.into_iter().map(|m| (m.sig, m.detail)).collect()
    }
}

//! shared helpers for the checks in this crate
//!
//! * `json`   — JSON text writer with explicit key orders, duplicate-preserving reader
//! * `schema` — event schemas written as data from the Matrix specification (C18)
//! * `obs`    — observation of ruma's event enums through the public API (C18)

pub mod json;
pub mod obs;
pub mod schema;

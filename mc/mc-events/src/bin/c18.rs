//! C18 — typed event (de)serialization dispatches by type and is a stable fixpoint.
//!
//! P-explorer (DESIGN.md §3 C18): event schemas written as data from the spec
//! (`mc_events::schema`) × every subset of the optional groups × {original, redacted per the
//! redaction table of App. A.1 for room versions 1, 9, 11} × formats (full / sync /
//! stripped / initial …) × key orders × unknown-field placements, every text run through the
//! real `Any*Event` enums, the content round trip and `Raw`.

use std::collections::HashSet;

use engine::{
    catch, machinery_error, par_shards, parse_args, replay_and_exit,
    spec::redaction::{redact_content, RefRedact},
    Report, Tally,
};
use mc_events::{
    json::{self, Order, Style, J},
    obs::{observe_as, ContentObs, Fix, Obs},
    schema::{all_schemas, Kind, Schema, ALICE, EV1, EV2, ROOM, TS},
};
use ruma_common::serde::Raw;
use ruma_events::{
    AnyEphemeralRoomEvent, AnyGlobalAccountDataEvent, AnyInitialStateEvent, AnyMessageLikeEvent,
    AnyRoomAccountDataEvent, AnyStateEvent, AnyStrippedStateEvent, AnySyncEphemeralRoomEvent,
    AnySyncMessageLikeEvent, AnySyncStateEvent, AnySyncTimelineEvent, AnyTimelineEvent,
    AnyToDeviceEvent,
};
use serde_json::{json, value::RawValue, Map, Value};

#[derive(Clone, Copy, Debug, PartialEq, Eq, Hash)]
enum Format {
    /// with `room_id` (timeline, ephemeral) / the only format of the kind (account data, to-device)
    Full,
    /// without `room_id`
    Sync,
    Stripped,
    Initial,
    /// initial state event without `state_key` (defaults to "")
    InitialNoKey,
}

impl Format {
    fn as_str(self) -> &'static str {
        match self {
            Format::Full => "full",
            Format::Sync => "sync",
            Format::Stripped => "stripped",
            Format::Initial => "initial",
            Format::InitialNoKey => "initial-no-state-key",
        }
    }
    fn parse(s: &str) -> Format {
        match s {
            "sync" => Format::Sync,
            "stripped" => Format::Stripped,
            "initial" => Format::Initial,
            "initial-no-state-key" => Format::InitialNoKey,
            _ => Format::Full,
        }
    }
    /// class used in signatures: full and sync share the content types
    fn class(self, kind: Kind) -> &'static str {
        match self {
            Format::Full | Format::Sync if kind.is_timeline() => "timeline",
            Format::Full | Format::Sync => "plain",
            Format::Stripped => "stripped",
            Format::Initial | Format::InitialNoKey => "initial",
        }
    }
}

#[derive(Clone, Copy, Debug, PartialEq, Eq)]
enum Unknown {
    None,
    Top,
    Content,
    Unsigned,
    /// all three at once
    All,
}

impl Unknown {
    const ALL: [Unknown; 5] = [Unknown::None, Unknown::Top, Unknown::Content, Unknown::Unsigned, Unknown::All];
    fn as_str(self) -> &'static str {
        match self {
            Unknown::None => "none",
            Unknown::Top => "top-level",
            Unknown::Content => "content",
            Unknown::Unsigned => "unsigned",
            Unknown::All => "all-three",
        }
    }
    fn parse(s: &str) -> Unknown {
        match s {
            "all-three" => Unknown::All,
            "top-level" => Unknown::Top,
            "content" => Unknown::Content,
            "unsigned" => Unknown::Unsigned,
            _ => Unknown::None,
        }
    }
}

/// One complete input: an event object in one format, printed one way.
#[derive(Clone, Debug)]
struct Case {
    label: String,
    ty: String,
    kind: Kind,
    known: bool,
    content_is_map: bool,
    format: Format,
    /// `original` | `redacted-v<N>`
    form: String,
    redacted: bool,
    /// the event without unknown fields
    event: Map<String, Value>,
    order: Order,
    unknown: Unknown,
    style: Style,
    /// enum variant name, when the naming rule does not apply
    variant: Option<String>,
}

fn kind_from(s: &str) -> Kind {
    match s {
        "state" => Kind::State,
        "message-like" => Kind::MessageLike,
        "ephemeral" => Kind::Ephemeral,
        "global-account-data" => Kind::GlobalAccountData,
        "room-account-data" => Kind::RoomAccountData,
        _ => Kind::ToDevice,
    }
}

fn case_json(c: &Case) -> Value {
    json!({
        "label": c.label, "type": c.ty, "kind": c.kind.as_str(), "known": c.known,
        "content_is_map": c.content_is_map, "format": c.format.as_str(), "form": c.form,
        "redacted": c.redacted, "event": c.event, "order": c.order.as_str(),
        "unknown": c.unknown.as_str(), "style": c.style.as_str(), "variant": c.variant, "text": text_of(c),
    })
}

fn case_from_json(v: &Value) -> Case {
    let s = |k: &str| v[k].as_str().unwrap_or("").to_owned();
    Case {
        label: s("label"),
        ty: s("type"),
        kind: kind_from(&s("kind")),
        known: v["known"].as_bool().unwrap_or(true),
        content_is_map: v["content_is_map"].as_bool().unwrap_or(false),
        format: Format::parse(&s("format")),
        form: s("form"),
        redacted: v["redacted"].as_bool().unwrap_or(false),
        event: v["event"].as_object().cloned().unwrap_or_default(),
        order: Order::parse(&s("order")),
        unknown: Unknown::parse(&s("unknown")),
        style: Style::parse(&s("style")),
        variant: v["variant"].as_str().map(str::to_owned),
    }
}

/// the event with the unknown field of the case added
fn event_with_unknown(c: &Case) -> Map<String, Value> {
    let mut ev = c.event.clone();
    if c.unknown == Unknown::All {
        for u in [Unknown::Top, Unknown::Content, Unknown::Unsigned] {
            let mut c2 = c.clone();
            c2.event = ev;
            c2.unknown = u;
            ev = event_with_unknown(&c2);
        }
        return ev;
    }
    match c.unknown {
        Unknown::None | Unknown::All => {}
        Unknown::Top => {
            // carries nested `type` / `content` keys to catch a scanner that is not depth-aware
            ev.insert("org.example.unknown".into(), json!({"a": [1, {"b": null}], "type": "m.room.nope", "content": 5}));
        }
        Unknown::Content => {
            if let Some(Value::Object(c)) = ev.get_mut("content") {
                c.insert("org.example.unknown_content".into(), json!({"x": 1, "type": "m.nope"}));
            }
        }
        Unknown::Unsigned => {
            let u = ev.entry("unsigned").or_insert_with(|| json!({}));
            if let Value::Object(u) = u {
                u.insert("org.example.unknown_unsigned".into(), json!([1, "two", {"three": 3}]));
            }
        }
    }
    ev
}

fn text_of(c: &Case) -> String {
    json::write(&Value::Object(event_with_unknown(c)), c.order, c.style)
}

/// `m.room.join_rules` → `RoomJoinRules` (the naming rule of the variants, written
/// independently: strip `m.`, split at `.` and `_`, capitalize)
/// the type a typed value shows for a JSON `type`: the type itself, or the canonical spelling of a declared alias
fn shown_type(ty: &str) -> &str {
    match ty {
        "org.matrix.call.sdp_stream_metadata_changed" => "m.call.sdp_stream_metadata_changed",
        t => t,
    }
}

fn variant_name(ty: &str) -> String {
    ty.strip_prefix("m.")
        .unwrap_or(ty)
        .split(['.', '_'])
        .filter(|s| !s.is_empty())
        .map(|s| {
            let mut cs = s.chars();
            let f = cs.next().map(|c| c.to_uppercase().to_string()).unwrap_or_default();
            f + cs.as_str()
        })
        .collect()
}

/// observe the text as the enum of (kind, format); second element: the timeline wrapper
#[allow(clippy::type_complexity)]
fn observe(c: &Case, text: &str) -> (&'static str, Result<Obs, String>, Option<(&'static str, Result<Obs, String>)>) {
    let ty = c.ty.as_str();
    match (c.kind, c.format) {
        (Kind::State, Format::Full) => (
            "AnyStateEvent",
            observe_as::<AnyStateEvent>(text, ty),
            Some(("AnyTimelineEvent", observe_as::<AnyTimelineEvent>(text, ty))),
        ),
        (Kind::State, Format::Sync) => (
            "AnySyncStateEvent",
            observe_as::<AnySyncStateEvent>(text, ty),
            Some(("AnySyncTimelineEvent", observe_as::<AnySyncTimelineEvent>(text, ty))),
        ),
        (Kind::State, Format::Stripped) => ("AnyStrippedStateEvent", observe_as::<AnyStrippedStateEvent>(text, ty), None),
        (Kind::State, _) => ("AnyInitialStateEvent", observe_as::<AnyInitialStateEvent>(text, ty), None),
        (Kind::MessageLike, Format::Sync) => (
            "AnySyncMessageLikeEvent",
            observe_as::<AnySyncMessageLikeEvent>(text, ty),
            Some(("AnySyncTimelineEvent", observe_as::<AnySyncTimelineEvent>(text, ty))),
        ),
        (Kind::MessageLike, _) => (
            "AnyMessageLikeEvent",
            observe_as::<AnyMessageLikeEvent>(text, ty),
            Some(("AnyTimelineEvent", observe_as::<AnyTimelineEvent>(text, ty))),
        ),
        (Kind::Ephemeral, Format::Sync) => ("AnySyncEphemeralRoomEvent", observe_as::<AnySyncEphemeralRoomEvent>(text, ty), None),
        (Kind::Ephemeral, _) => ("AnyEphemeralRoomEvent", observe_as::<AnyEphemeralRoomEvent>(text, ty), None),
        (Kind::GlobalAccountData, _) => ("AnyGlobalAccountDataEvent", observe_as::<AnyGlobalAccountDataEvent>(text, ty), None),
        (Kind::RoomAccountData, _) => ("AnyRoomAccountDataEvent", observe_as::<AnyRoomAccountDataEvent>(text, ty), None),
        (Kind::ToDevice, _) => ("AnyToDeviceEvent", observe_as::<AnyToDeviceEvent>(text, ty), None),
    }
}

/// what `Raw` says about `text`: (json().get(), get_field::<Value>(k) per key,
/// get_field::<&RawValue>(k) per key, deserialize().is_ok())
struct RawObs {
    text: String,
    fields: Vec<(String, Result<Option<Value>, String>, Result<Option<String>, String>)>,
    /// `Raw::deserialize_as::<serde_json::Value>()`
    as_value: Result<Value, String>,
}

fn observe_raw(text: &str, keys: &[String]) -> Result<RawObs, String> {
    let raw = Raw::<AnyTimelineEvent>::from_json_string(text.to_owned()).map_err(|e| e.to_string())?;
    let fields = keys
        .iter()
        .map(|k| {
            (
                k.clone(),
                raw.get_field::<Value>(k).map_err(|e| e.to_string()),
                raw.get_field::<&RawValue>(k).map(|o| o.map(|r| r.get().to_owned())).map_err(|e| e.to_string()),
            )
        })
        .collect();
    let as_value = raw.deserialize_as::<Value>().map_err(|e| e.to_string());
    Ok(RawObs { text: raw.json().get().to_owned(), fields, as_value })
}

type Viol = Vec<(String, String)>;

/// `missing field `via` at line 1 column 2` → `missing-field-via` (the error class is part of
/// the signature so that a recorded failure does not mask a different one of the same event)
fn err_class(e: &str) -> String {
    let e = e.split(" at line ").next().unwrap_or(e);
    let mut out = String::new();
    for ch in e.chars() {
        if ch.is_ascii_alphanumeric() || ch == '.' || ch == '_' {
            out.push(ch);
        } else if !out.ends_with('-') && !out.is_empty() {
            out.push('-');
        }
    }
    let out = out.trim_end_matches('-');
    out.chars().take(60).collect()
}

struct Ctx<'a> {
    c: &'a Case,
    out: Viol,
}

impl Ctx<'_> {
    fn sig(&self, oracle: &str) -> String {
        if oracle.starts_with("raw-") {
            return oracle.to_owned();
        }
        format!("{oracle}/{}/{}/{}", self.c.label, self.c.form, self.c.format.class(self.c.kind))
    }
    fn push(&mut self, oracle: &str, detail: String) {
        let d = format!(
            "[{} {} order={} unknown={}{}] {detail}",
            self.c.format.as_str(),
            self.c.form,
            self.c.order.as_str(),
            self.c.unknown.as_str(),
            if self.c.style == Style::Compact { String::new() } else { format!(" style={}", self.c.style.as_str()) }
        );
        self.out.push((self.sig(oracle), d));
    }
    fn push_sub(&mut self, oracle: &str, sub: &str, detail: String) {
        // `Raw` does not depend on the event type: its signatures carry no schema label
        let sig = if oracle.starts_with("raw-") { format!("{oracle}/{sub}") } else { format!("{}/{sub}", self.sig(oracle)) };
        let d = format!("[{} {} order={} unknown={}] {detail}", self.c.format.as_str(), self.c.form, self.c.order.as_str(), self.c.unknown.as_str());
        self.out.push((sig, d));
    }
}

/// the oracles on one content round trip
fn check_fix(cx: &mut Ctx<'_>, route: &str, f: &Fix, t: &mut Tally) {
    let content = cx.c.event.get("content").cloned().unwrap_or_else(|| json!({}));
    if f.event_type != shown_type(&cx.c.ty) {
        cx.push("content-event-type", format!("{route}: {}::event_type() = {:?}, JSON type {:?}", f.type_name, f.event_type, cx.c.ty));
    }
    let s1 = match &f.s1 {
        Ok(s) => s,
        Err(e) => {
            t.outcome("content-serialize", "error");
            cx.push("content-serialize", format!("{route}: serde_json::to_string(&{}) failed: {e}", f.type_name));
            return;
        }
    };
    t.outcome("content-serialize", "ok");
    // valid JSON without duplicate keys, checked on the TEXT
    let parsed = match json::parse(s1) {
        Ok(p) => p,
        Err(e) => {
            cx.push("content-invalid-json", format!("{route}: output of {} is not JSON ({e}): {s1}", f.type_name));
            return;
        }
    };
    t.outcome("content-dupkey", if parsed.duplicates.is_empty() { "none" } else { "duplicate" });
    for d in &parsed.duplicates {
        cx.push_sub("content-dupkey", d.trim_start_matches('/'), format!("{route}: {} serializes key {d} twice: {s1}", f.type_name));
    }
    for (name, via) in [("from_parts", &f.via_from_parts), ("deserialize_with_type", &f.via_raw_ext)] {
        match via {
            None => {}
            Some(Err(e)) => {
                t.outcome("content-fixpoint", "reparse-error");
                cx.push("content-reparse", format!("{route}: {name} on the own output of {} failed: {e}; output {s1}", f.type_name));
            }
            Some(Ok(s2)) if s2 != s1 => {
                t.outcome("content-fixpoint", "differs");
                cx.push("content-fixpoint", format!("{route}: {name}: first {s1} second {s2}"));
            }
            Some(Ok(_)) => t.outcome("content-fixpoint", "fixpoint"),
        }
    }
    // every modelled leaf of the input keeps its value
    let mut lost: Vec<String> = vec![];
    // value-variant cases put numbers / booleans at values that may be the field's default; ruma omits
    // such a key from the text. That is not a changed value if the typed value read back is the same.
    let default_may_be_omitted = cx.c.form.contains('#') && f.typed_unchanged == Some(true);
    for (path, leaf) in json::leaves(&content) {
        if path.is_empty() {
            continue; // content `{}` itself
        }
        let same = parsed.value.at(&path).map(|j| j.same_leaf(&leaf)).unwrap_or(false);
        if !same && default_may_be_omitted && parsed.value.at(&path).is_none() {
            t.outcome("content-leaf-default-omitted", "omitted, typed value unchanged");
            continue;
        }
        if !same {
            let key = path[0].clone();
            if !lost.contains(&key) {
                let got = parsed.value.at(&path).map(J::to_compact).unwrap_or_else(|| "<absent>".into());
                cx.push_sub(
                    "content-leaf",
                    &key,
                    format!("{route}: /{} was {leaf} in the input, {got} after the round trip through {}: {s1}", path.join("/"), f.type_name),
                );
                lost.push(key);
            }
        }
    }
    t.outcome("content-leaf", if lost.is_empty() { "all-kept" } else { "changed" });
    // informational (the property only speaks about values that WERE present): keys the output adds
    // with the value `null` — no schema here allows null, but nothing present is changed by it
    let mut added_null = false;
    if let (J::Obj(members), Value::Object(input)) = (&parsed.value, &content) {
        for (k, v) in members {
            if *v == J::Null && !input.contains_key(k) {
                added_null = true;
                t.outcome("content-added-null", &format!("{} adds {k}:null", f.type_name.rsplit("::").next().unwrap_or(f.type_name)));
            }
        }
    }
    if !added_null {
        t.outcome("content-added-null", "none");
    }
}

/// equality of two observations up to what `what` allows
fn compare_obs(cx: &mut Ctx<'_>, oracle: &str, a: &Obs, b: &Obs, compare_content: bool, other: &str) {
    let acc = |o: &Obs| (o.event_type.clone(), o.sender.clone(), o.event_id.clone(), o.origin_server_ts, o.state_key.clone(), o.room_id.clone(), o.redacted, o.debug_prefix.clone());
    if acc(a) != acc(b) {
        cx.push(oracle, format!("accessors / variant differ from {other}: {:?} vs {:?}", acc(a), acc(b)));
    }
    if compare_content {
        let s1 = |o: &Obs| match &o.content {
            ContentObs::Typed(f) => Some(f.s1.clone()),
            _ => None,
        };
        if s1(a) != s1(b) {
            cx.push(oracle, format!("serialized content differs from {other}: {:?} vs {:?}", s1(a), s1(b)));
        }
    }
}

/// Evaluate one case. `reference`: the observation of the reference printing of the same
/// event (see `reference_of`), computed here when not supplied.
fn eval(c: &Case, reference: Option<&Result<Obs, String>>, t: &mut Tally) -> (Viol, Result<Obs, String>) {
    let mut cx = Ctx { c, out: vec![] };
    let text = text_of(c);

    // ---- typed deserialization
    t.transitions += 1;
    let observed = match catch(|| observe(c, &text)) {
        Ok(o) => o,
        Err(p) => {
            cx.out.push((format!("panic/{}/{}", p.file(), c.label), format!("{}: {text}", p.text)));
            t.outcome("deserialize", "panic");
            return (cx.out, Err("panic".into()));
        }
    };
    let (enum_name, obs, wrapper) = observed;
    let obs = match obs {
        Err(e) => {
            t.outcome("deserialize", "error");
            cx.push_sub("deserialize", &err_class(&e), format!("serde_json::from_str::<{enum_name}> failed: {e}; input {text}"));
            check_raw(&mut cx, &text, t);
            return (cx.out, Err(e));
        }
        Ok(o) => o,
    };
    t.outcome("deserialize", "ok");
    t.transitions += obs.calls;

    // ---- variant
    let vname = match (&c.variant, c.known) {
        (Some(v), _) => v.clone(),
        (None, true) => variant_name(&c.ty),
        (None, false) => "_Custom".to_owned(),
    };
    let expected_prefix = if c.kind.is_timeline() && matches!(c.format, Format::Full | Format::Sync) {
        format!("{vname}({}(", if c.redacted { "Redacted" } else { "Original" })
    } else {
        format!("{vname}(")
    };
    t.outcome("variant", if c.known { "typed" } else { "custom" });
    if !obs.debug_prefix.starts_with(&expected_prefix) {
        cx.push("variant", format!("{enum_name}: expected variant {expected_prefix}…, Debug starts {:?}", obs.debug_prefix));
    }
    if let Some(r) = obs.redacted {
        t.outcome("redacted-flag", if r { "redacted" } else { "original" });
        if r != c.redacted {
            cx.push("variant", format!("{enum_name}::is_redacted() = {r}, unsigned.redacted_because present = {}", c.redacted));
        }
    }
    match (&obs.content, c.known) {
        (ContentObs::Unlisted, _) => machinery_error(&format!("no arm for the variant of {} ({})", c.label, obs.debug_prefix)),
        (ContentObs::Custom, true) => cx.push("variant", format!("{enum_name}: known type landed in _Custom")),
        (ContentObs::Typed(_), false) => cx.push("variant", format!("{enum_name}: unknown type got typed content")),
        _ => {}
    }

    if let Err(e) = &obs.raw_deserialize {
        cx.push_sub("raw-deserialize", enum_name, e.clone());
    }

    // ---- accessors equal the JSON
    let js = |k: &str| c.event.get(k).and_then(Value::as_str).map(str::to_owned);
    if obs.event_type != shown_type(&c.ty) {
        cx.push("accessor-event_type", format!("{enum_name}::event_type() = {:?}, JSON {:?}", obs.event_type, c.ty));
    }
    for (name, got, want) in [
        ("sender", &obs.sender, js("sender")),
        ("event_id", &obs.event_id, js("event_id")),
        ("room_id", &obs.room_id, js("room_id")),
        ("state_key", &obs.state_key, if c.format == Format::InitialNoKey { Some(String::new()) } else { js("state_key") }),
    ] {
        if got.is_some() && *got != want {
            cx.push(&format!("accessor-{name}"), format!("{enum_name}::{name}() = {got:?}, JSON {want:?}"));
        }
    }
    if let Some(ts) = obs.origin_server_ts {
        if Some(ts) != c.event.get("origin_server_ts").and_then(Value::as_u64) {
            cx.push("accessor-origin_server_ts", format!("{enum_name}::origin_server_ts() = {ts}, JSON {:?}", c.event.get("origin_server_ts")));
        }
    }

    // ---- content round trip
    match &obs.content {
        ContentObs::Typed(f) => check_fix(&mut cx, "variant content", f, t),
        _ => t.outcome("content-serialize", "custom-no-typed-content"),
    }
    if let Some(f) = &obs.enum_content {
        check_fix(&mut cx, "Any*EventContent", f, t);
        if let ContentObs::Typed(g) = &obs.content {
            if g.s1 != f.s1 {
                cx.push("content-enum-agree", format!("{} gives {:?}, {} gives {:?}", g.type_name, g.s1, f.type_name, f.s1));
            }
        }
    }

    // ---- the timeline wrapper agrees
    if let Some((wname, w)) = wrapper {
        t.transitions += 1;
        match w {
            Err(e) => {
                t.outcome("timeline-dispatch", "error");
                cx.push("timeline-dispatch", format!("{wname} fails where {enum_name} succeeds: {e}; input {text}"));
            }
            Ok(w) => {
                t.outcome("timeline-dispatch", if c.kind == Kind::State { "state" } else { "message-like" });
                let inner = if c.kind == Kind::State { "State(" } else { "MessageLike(" };
                let want: String = format!("{inner}{}", obs.debug_prefix).chars().take(90).collect();
                let got: String = w.debug_prefix.chars().take(90).collect();
                let mut w2 = w.clone();
                w2.debug_prefix = obs.debug_prefix.clone();
                w2.calls = obs.calls;
                if want != got || w2 != obs {
                    cx.push("timeline-dispatch", format!("{wname} disagrees with {enum_name}: {got:?} vs {want:?}; {:?} vs {:?}", w2.sender, obs.sender));
                }
            }
        }
    }

    // ---- independence from key order / unknown fields
    let own;
    let reference = match reference {
        Some(r) => Some(r),
        None => match reference_of(c) {
            Some(rc) => {
                own = eval(&rc, None, &mut Tally::new()).1;
                Some(&own)
            }
            None => None,
        },
    };
    if let Some(r) = reference {
        let (oracle, other, cmp_content) = if c.order != Order::Sorted {
            ("order-dependence", "the sorted compact printing", true)
        } else if c.style != Style::Compact {
            ("spelling-dependence", "the sorted compact printing", true)
        } else {
            ("unknown-field-dependence", "the event without the unknown field", !matches!(c.unknown, Unknown::Content | Unknown::All))
        };
        match r {
            Ok(r) => {
                t.outcome("independence", "same-event-other-printing");
                compare_obs(&mut cx, oracle, &obs, r, cmp_content, other);
            }
            Err(e) => cx.push(oracle, format!("{other} fails ({e}) while this printing succeeds")),
        }
    }

    check_raw(&mut cx, &text, t);
    (cx.out, Ok(obs))
}

/// the printing a case is compared with: other orders → sorted with the same unknown field;
/// sorted with an unknown field → sorted without
fn reference_of(c: &Case) -> Option<Case> {
    let mut r = c.clone();
    if c.order != Order::Sorted || c.style != Style::Compact {
        r.order = Order::Sorted;
        r.style = Style::Compact;
        Some(r)
    } else if c.unknown != Unknown::None {
        r.unknown = Unknown::None;
        Some(r)
    } else {
        None
    }
}

/// `Raw`: the text byte for byte, `get_field` against a full parse for every key and some
/// absent ones
fn check_raw(cx: &mut Ctx<'_>, text: &str, t: &mut Tally) {
    let full: Value = match serde_json::from_str(text) {
        Ok(v) => v,
        Err(e) => machinery_error(&format!("harness produced invalid JSON: {e}: {text}")),
    };
    let dupfree = json::parse(text).unwrap_or_else(|e| machinery_error(&format!("own reader rejects harness JSON: {e}")));
    let mut keys: Vec<String> = full.as_object().map(|m| m.keys().cloned().collect()).unwrap_or_default();
    keys.extend(["absent_key", "", "typ", "contents", "Type"].map(str::to_owned));
    t.transitions += 1 + 2 * keys.len() as u64;
    let r = match catch(|| observe_raw(text, &keys)) {
        Err(p) => {
            cx.out.push((format!("panic/{}/raw", p.file()), format!("{}: {text}", p.text)));
            return;
        }
        Ok(Err(e)) => {
            cx.push("raw-parse", format!("Raw::from_json_string failed: {e}: {text}"));
            return;
        }
        Ok(Ok(r)) => r,
    };
    if r.text != text {
        cx.push("raw-text", format!("Raw::json().get() = {:?}, input {text:?}", r.text));
    }
    if r.as_value.as_ref() != Ok(&full) {
        cx.push_sub("raw-deserialize", "Value", format!("Raw::deserialize_as::<Value>() = {:?}, full parse {full}", r.as_value));
    }
    for (k, as_value, as_raw) in &r.fields {
        let want = full.get(k);
        t.outcome("raw-get-field", if want.is_some() { "present" } else { "absent" });
        match as_value {
            Ok(got) if got.as_ref() == want => {}
            other => cx.push_sub("raw-get-field", "value", format!("get_field::<Value>({k:?}) = {other:?}, full parse {want:?}")),
        }
        // textual slice of the field (compact inputs print exactly like the reader's compact form)
        let want_text = dupfree.value.get(k).map(J::to_compact);
        match as_raw {
            Ok(got) if cx.c.style != Style::Compact => {
                if got.is_some() != want_text.is_some() {
                    cx.push_sub("raw-get-field", "raw", format!("get_field::<&RawValue>({k:?}) = {got:?}, expected presence {}", want_text.is_some()));
                }
            }
            Ok(got) if *got == want_text => {}
            other => cx.push_sub("raw-get-field", "raw", format!("get_field::<&RawValue>({k:?}) = {other:?}, text of the field {want_text:?}")),
        }
    }
}

/// duplicate top-level keys: `Raw` must still hand back the text, and `get_field` must agree
/// with a full `serde_json::Value` parse (which keeps the LAST occurrence)
fn eval_raw_duplicates(c: &Case, t: &mut Tally) -> Viol {
    let mut cx = Ctx { c, out: vec![] };
    let base = text_of(c);
    let inner = &base[1..base.len() - 1];
    let keys: Vec<String> = c.event.keys().cloned().collect();
    for k in &keys {
        let kq = serde_json::to_string(k).expect("key");
        for (pos, text) in [
            ("dup-last", format!("{{{inner},{kq}:\"dup-{k}\"}}")),
            ("dup-first", format!("{{{kq}:{{\"dup\":[1]}},{inner}}}")),
            ("dup-both", format!("{{{kq}:null,{inner},{kq}:17}}")),
        ] {
            t.states += 1;
            t.nontrivial += 1;
            t.transitions += 3;
            let full: Value = serde_json::from_str(&text).unwrap_or_else(|e| machinery_error(&format!("dup text invalid: {e}: {text}")));
            let want = full.get(k).cloned();
            let dup = json::parse(&text).unwrap_or_else(|e| machinery_error(&format!("own reader: {e}")));
            if dup.duplicates.is_empty() {
                machinery_error("duplicate text has no duplicate");
            }
            let want_text = dup.value.get(k).map(J::to_compact);
            match catch(|| observe_raw(&text, std::slice::from_ref(k))) {
                Err(p) => cx.out.push((format!("panic/{}/raw-dup", p.file()), format!("{}: {text}", p.text))),
                Ok(Err(e)) => cx.push_sub("raw-duplicate-key", pos, format!("Raw::from_json_string rejects duplicate keys: {e}: {text}")),
                Ok(Ok(r)) => {
                    t.outcome("raw-duplicate-key", pos);
                    if r.text != text {
                        cx.push_sub("raw-duplicate-key", pos, format!("json().get() differs from the input {text}"));
                    }
                    let (_, as_value, as_raw) = &r.fields[0];
                    if as_value.as_ref().ok().cloned().flatten() != want {
                        cx.push_sub("raw-duplicate-key", pos, format!("get_field::<Value>({k:?}) = {as_value:?}; a full serde_json::Value parse keeps the last occurrence: {want:?}; input {text}"));
                    }
                    if as_raw.as_ref().ok().cloned().flatten() != want_text {
                        cx.push_sub("raw-duplicate-key", pos, format!("get_field::<&RawValue>({k:?}) = {as_raw:?}, last occurrence {want_text:?}; input {text}"));
                    }
                }
            }
        }
    }
    cx.out
}

// ---------------------------------------------------------------------------------------
// enumeration

fn redacted_because(v: u8) -> Value {
    let mut ev = json!({
        "type": "m.room.redaction", "event_id": "$redaction:example.org", "sender": "@moderator:example.org",
        "origin_server_ts": TS + 1, "content": {"reason": "spam"},
    });
    if v >= 11 {
        ev["content"]["redacts"] = json!(EV2);
    } else {
        ev["redacts"] = json!(EV2);
    }
    ev
}

fn formats(kind: Kind, original: bool, state_key_empty: bool) -> Vec<Format> {
    match kind {
        Kind::State if original && state_key_empty => vec![Format::Full, Format::Sync, Format::Stripped, Format::Initial, Format::InitialNoKey],
        Kind::State if original => vec![Format::Full, Format::Sync, Format::Stripped, Format::Initial],
        Kind::State => vec![Format::Full, Format::Sync, Format::Stripped],
        Kind::MessageLike | Kind::Ephemeral => vec![Format::Full, Format::Sync],
        _ => vec![Format::Full],
    }
}

/// the event object of (schema, content, extras) in a format
fn build_event(s: &Schema, content: &Value, extras: &[(String, Value)], format: Format, redacted_v: Option<u8>) -> Map<String, Value> {
    let mut ev = Map::new();
    ev.insert("type".into(), json!(s.ty));
    ev.insert("content".into(), content.clone());
    let envelope = |ev: &mut Map<String, Value>| {
        ev.insert("event_id".into(), json!(if s.label.len() % 2 == 0 { EV2 } else { EV1 }));
        ev.insert("sender".into(), json!(ALICE));
        ev.insert("origin_server_ts".into(), json!(TS));
    };
    let unsigned_and_top = |ev: &mut Map<String, Value>| {
        let mut unsigned = Map::new();
        for (k, v) in extras {
            if k == "unsigned" {
                if let Value::Object(u) = v {
                    unsigned.extend(u.clone());
                }
            } else if redacted_v.is_none() {
                ev.insert(k.clone(), v.clone());
            }
        }
        if let Some(v) = redacted_v {
            unsigned.insert("redacted_because".into(), redacted_because(v));
        } else {
            for (k, v) in &s.top_required {
                ev.insert(k.clone(), v.clone());
            }
        }
        if !unsigned.is_empty() {
            ev.insert("unsigned".into(), Value::Object(unsigned));
        }
    };
    match (s.kind, format) {
        (Kind::State | Kind::MessageLike, Format::Full | Format::Sync) => {
            envelope(&mut ev);
            if format == Format::Full {
                ev.insert("room_id".into(), json!(ROOM));
            }
            if let Some(k) = &s.state_key {
                ev.insert("state_key".into(), json!(k));
            }
            unsigned_and_top(&mut ev);
        }
        (Kind::State, Format::Stripped) => {
            ev.insert("sender".into(), json!(ALICE));
            ev.insert("state_key".into(), json!(s.state_key.clone().unwrap_or_default()));
        }
        (Kind::State, Format::Initial) => {
            ev.insert("state_key".into(), json!(s.state_key.clone().unwrap_or_default()));
        }
        (Kind::State, Format::InitialNoKey) => {}
        (Kind::Ephemeral, Format::Full) => {
            ev.insert("room_id".into(), json!(ROOM));
        }
        (Kind::ToDevice, _) => {
            ev.insert("sender".into(), json!(ALICE));
        }
        _ => {}
    }
    ev
}

fn explore_schema(s: &Schema, report: &Report, t: &mut Tally, thorough: bool) {
    let n = s.opts.len();
    let mut seen: HashSet<(Format, String)> = HashSet::new();
    let full_mask = (1u32 << n) - 1;
    // simplest first: by number of optional groups switched on
    let mut subsets: Vec<u32> = (0..=full_mask).collect();
    subsets.sort_by_key(|m| (m.count_ones(), *m));
    for subset in subsets {
        if !thorough && subset.count_ones() > 4 && subset != full_mask {
            continue;
        }
        // forms: original, then the redacted ones
        let mut forms: Vec<(String, Option<u8>, Value, Vec<(String, Value)>)> = vec![];
        let (content, extras) = s.instantiate(subset, false);
        forms.push(("original".into(), None, content, extras));
        if s.kind.is_timeline() {
            let (content, extras) = s.instantiate(subset, true);
            for v in &s.redact_versions {
                let Value::Object(cm) = &content else { unreachable!() };
                let RefRedact::Must(red) = redact_content(*v, &s.ty, cm) else {
                    machinery_error(&format!("{}: reference redaction undefined", s.label));
                };
                forms.push((format!("redacted-v{v}"), Some(*v), Value::Object(red), extras.clone()));
            }
        }
        for (form, red_v, content, extras) in &forms {
            let original = red_v.is_none();
            for format in formats(s.kind, original, s.state_key.as_deref() == Some("")) {
                let event = build_event(s, content, extras, format, if matches!(format, Format::Full | Format::Sync) { *red_v } else { None });
                let base = Case {
                    label: s.label.clone(),
                    ty: s.ty.clone(),
                    kind: s.kind,
                    known: s.known,
                    content_is_map: s.content_is_map,
                    format,
                    form: form.clone(),
                    redacted: red_v.is_some() && matches!(format, Format::Full | Format::Sync),
                    event,
                    order: Order::Sorted,
                    unknown: Unknown::None,
                    style: Style::Compact,
                    variant: s.variant.clone(),
                };
                if !seen.insert((format, text_of(&base))) {
                    continue; // same event as an earlier (subset, form): not a new state
                }
                t.outcome("form", if original { "original" } else { "redacted" });
                t.outcome("format", format.as_str());
                let run = |case: &Case, reference: Option<&Result<Obs, String>>, t: &mut Tally| -> Result<Obs, String> {
                    t.states += 1;
                    t.nontrivial += 1;
                    let (viol, obs) = eval(case, reference, t);
                    for (sig, detail) in viol {
                        report.violation(&sig, || detail, || case_json(case));
                    }
                    obs
                };
                let mut plain: Option<Result<Obs, String>> = None;
                for &unknown in &Unknown::ALL {
                    if matches!(unknown, Unknown::Content | Unknown::All) && s.content_is_map {
                        t.unspecified += 1;
                        continue;
                    }
                    let mut c = base.clone();
                    c.unknown = unknown;
                    let r = run(&c, plain.as_ref(), t);
                    if t.states % 50_000 == 1 {
                        t.sample(|| json!({"label": c.label, "format": c.format.as_str(), "form": c.form, "unknown": c.unknown.as_str(), "text": text_of(&c)}));
                    }
                    let mut orders: Vec<Order> = vec![Order::Reverse, Order::TypeLast, Order::ContentLast];
                    if thorough || unknown == Unknown::None {
                        // every top-level key first once
                        orders.extend((0..event_with_unknown(&c).len() as u8).map(Order::KeyFirst));
                    }
                    // quick: star (orders x compact, styles x sorted); thorough: the full product
                    let styles: &[Style] = if thorough { &[Style::Compact, Style::Spaced, Style::Escaped] } else { &[Style::Compact] };
                    for o in &orders {
                        for st in styles {
                            let mut c2 = c.clone();
                            c2.order = *o;
                            c2.style = *st;
                            let _ = run(&c2, Some(&r), t);
                        }
                    }
                    if thorough || unknown == Unknown::None {
                        for style in [Style::Spaced, Style::Escaped] {
                            let mut c3 = c.clone();
                            c3.style = style;
                            let _ = run(&c3, Some(&r), t);
                        }
                    }
                    if unknown == Unknown::None {
                        // thorough: every permutation of the top-level keys of the smallest and the
                        // largest event of the schema (sync / one-format events: <= 7 keys)
                        if thorough && (subset == 0 || subset == full_mask) && c.event.len() <= 7 {
                            for p in 1..json::factorial(c.event.len()) as u32 {
                                let mut c4 = c.clone();
                                c4.order = Order::Perm(p);
                                let _ = run(&c4, Some(&r), t);
                            }
                        }
                        plain = Some(r);
                    }
                }
                // value variants: with every optional group present, each number / boolean leaf of the
                // content at 0, 1, 50, 100 resp. flipped (one leaf at a time) — defaults and skip
                // conditions are per-value behaviour that one arbitrary value per field never meets
                if subset == full_mask && format == formats(s.kind, original, s.state_key.as_deref() == Some(""))[0] {
                    for (path, alt) in leaf_variants(content) {
                        // the integer `version` of the VoIP events is an enumeration (0), not a quantity
                        if s.ty.starts_with("m.call.") && path == ["version"] {
                            continue;
                        }
                        let mut content2 = content.clone();
                        set_leaf(&mut content2, &path, alt.clone());
                        let event = build_event(s, &content2, extras, format, if matches!(format, Format::Full | Format::Sync) { *red_v } else { None });
                        let mut c = base.clone();
                        c.event = event;
                        c.form = format!("{form}#{}={alt}", path.join("."));
                        if !seen.insert((format, text_of(&c))) {
                            continue;
                        }
                        t.outcome("value-variant", if alt.is_boolean() { "bool" } else { "number" });
                        let _ = run(&c, None, t);
                    }
                }
                if thorough || subset == 0 || subset == full_mask {
                    for (sig, detail) in eval_raw_duplicates(&base, t) {
                        report.violation(&sig, || detail, || json!({"raw_duplicates": true, "case": case_json(&base)}));
                    }
                }
            }
        }
    }
}

/// (path, alternative value) for every number / boolean leaf below `v` (array indices as decimal segments)
fn leaf_variants(v: &Value) -> Vec<(Vec<String>, Value)> {
    fn walk(v: &Value, path: &mut Vec<String>, out: &mut Vec<(Vec<String>, Value)>) {
        match v {
            Value::Object(m) => {
                for (k, x) in m {
                    path.push(k.clone());
                    walk(x, path, out);
                    path.pop();
                }
            }
            Value::Array(a) => {
                for (i, x) in a.iter().enumerate() {
                    path.push(i.to_string());
                    walk(x, path, out);
                    path.pop();
                }
            }
            Value::Bool(b) => out.push((path.clone(), json!(!b))),
            Value::Number(n) if n.is_u64() => {
                for alt in [0u64, 1, 50, 100] {
                    if n.as_u64() != Some(alt) {
                        out.push((path.clone(), json!(alt)));
                    }
                }
            }
            _ => {}
        }
    }
    let mut out = vec![];
    walk(v, &mut vec![], &mut out);
    out
}

fn set_leaf(v: &mut Value, path: &[String], new: Value) {
    let mut cur = v;
    for seg in path {
        cur = match cur {
            Value::Object(m) => m.get_mut(seg).expect("path"),
            Value::Array(a) => a.get_mut(seg.parse::<usize>().expect("index")).expect("path"),
            _ => unreachable!(),
        };
    }
    *cur = new;
}

fn replay(v: &Value) -> Viol {
    if v.get("raw_duplicates").is_some() {
        return eval_raw_duplicates(&case_from_json(&v["case"]), &mut Tally::new());
    }
    eval(&case_from_json(v), None, &mut Tally::new()).0
}

/// the oracle's own instruments must be able to fail (machinery, not a verdict)
fn self_test() {
    let dup = json::parse(r#"{"a":1,"m.relates_to":{"x":1},"b":[{"k":1,"k":2}],"m.relates_to":{"x":2}}"#)
        .unwrap_or_else(|e| machinery_error(&format!("self-test: reader rejects valid JSON: {e}")));
    if dup.duplicates != ["/b/0/k", "/m.relates_to"] {
        machinery_error(&format!("self-test: duplicate detection gives {:?}", dup.duplicates));
    }
    if json::parse(r#"{"a":1}"#).map(|p| !p.duplicates.is_empty()).unwrap_or(true) {
        machinery_error("self-test: false duplicate");
    }
    let j = dup.value;
    let path = |p: &[&str]| p.iter().map(|s| (*s).to_owned()).collect::<Vec<_>>();
    if !j.at(&path(&["m.relates_to", "x"])).map(|l| l.same_leaf(&json!(2))).unwrap_or(false)
        || j.at(&path(&["a"])).map(|l| l.same_leaf(&json!(2))).unwrap_or(true)
        || j.at(&path(&["zz"])).is_some()
    {
        machinery_error("self-test: leaf comparison");
    }
    if variant_name("m.room.join_rules") != "RoomJoinRules" || variant_name("m.room_key_request") != "RoomKeyRequest" {
        machinery_error("self-test: variant naming rule");
    }
}

fn main() {
    let args = parse_args();
    if let Some(p) = &args.replay {
        replay_and_exit("C18", p, replay);
    }
    let thorough = args.tier.is_thorough();
    let report = Report::new("C18", "model_checking", &args);
    let schemas = catch(all_schemas).unwrap_or_else(|p| machinery_error(&format!("schema construction: {}", p.text)));
    {
        let mut labels = HashSet::new();
        for s in &schemas {
            if !labels.insert(s.label.clone()) {
                machinery_error(&format!("duplicate schema label {}", s.label));
            }
        }
    }
    report.set_rule(
        "product: event schemas written as data from the spec (one per event type / msgtype / relation / enum value; \
         plus 7 unknown types in each of the 6 kinds) x every subset of the <= 7 optional groups of the schema \
         (quick: subsets of <= 4 groups and the full set) x {original, redacted = unsigned.redacted_because + content \
         reduced by the App. A.1 table for room versions 1, 9, 11} x formats {full, sync, stripped, initial, initial \
         without state_key | full, sync | one} x unknown field {none, top level, in content, in unsigned, all three} x \
         key orders {sorted, reverse, discriminators last, content last, each top-level key first} x spellings \
         {compact, blanks around every token, last character of every string (keys, `type`, values) as a \\u escape} \
         (quick: orders and spellings as a star around the sorted compact text; thorough: full product, plus ALL \
         permutations of the <= 7 top-level keys for the smallest and the largest event of each schema and form) \
         + every top-level key duplicated first/last/both for Raw (quick: smallest and largest event) \
         + value variants: with all optional groups present, every number leaf of the content at 0, 1, 50, 100 and every boolean \
         flipped, one leaf at a time (a key omitted from the output is accepted there only if the typed value read back is unchanged). \
         state = one distinct event text; transition = one call of ruma (deserialize, accessor batch, serialize, \
         from_parts, deserialize_with_type, Raw::get_field); non-trivial = every state (an event equal to one of an \
         earlier (subset, form) is skipped, not counted)",
    );
    report.assume("schemas = Matrix spec v1.14 event schemas transcribed in mc/mc-events/src/schema.rs; one or two representative values per field, never the spec default of a field (a default may legitimately be dropped on output)");
    report.assume("redacted content = engine::spec::redaction (DESIGN App. A.1); stripped events carry the redacted content without unsigned");
    report.assume("unknown types have no typed content (ruma keeps only the type): the content fixpoint is not applicable to them, everything else is compared");
    report.assume("an unknown key inside a content that is a map keyed by identifiers (m.receipt, m.direct) is a malformed entry, not an unknown field: executed for the other placements only (counted as unspecified)");
    // families with at least two outcomes on a correct implementation (the failure outcomes of the
    // other families cannot be required); the duplicate reader and the leaf comparison are
    // self-tested below instead
    for fam in ["variant", "redacted-flag", "form", "format", "content-serialize", "timeline-dispatch", "raw-get-field", "raw-duplicate-key"] {
        report.require_outcomes(fam, 2);
    }
    self_test();

    par_shards(&report, schemas.len(), |i, t| {
        // a panic outside the per-call `catch` is a harness bug: report it as machinery failure
        if let Err(p) = catch(|| explore_schema(&schemas[i], &report, t, thorough)) {
            machinery_error(&format!("harness panic while exploring {}: {}", schemas[i].label, p.text));
        }
    });

    let mut types: Vec<&str> = schemas.iter().filter(|s| s.known).map(|s| s.ty.as_str()).collect();
    types.sort();
    types.dedup();
    report.set("schemas", json!(schemas.len()));
    report.set("known_event_types", json!(types));
    report.set("unknown_event_types", json!(mc_events::schema::UNKNOWN_TYPES));
    report.set(
        "bounds",
        json!({
            "optional_groups_max": 7, "subset_size_max": if thorough { 7 } else { 4 }, "redaction_versions": [1, 9, 11],
            "key_orders": if thorough { "4 + one per top-level key, x spellings; all permutations of <= 7 top-level keys for 2 events per schema and form" } else { "4 + one per top-level key" },
            "unknown_field_placements": 5, "spellings": ["compact", "spaced", "escaped"],
        }),
    );
    report.finish()
}

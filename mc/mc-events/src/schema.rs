//! Event schemas of the C18 check, written AS DATA from the Matrix specification (v1.14,
//! client-server API "Events" / module sections) — not derived from ruma's types. A field is
//! `required` here exactly when the spec's schema marks it required; everything else is an
//! optional group that the explorer switches on and off.

use serde_json::{json, Map, Value};

use crate::json::set_path;

pub const ALICE: &str = "@alice:example.org";
pub const BOB: &str = "@bob:example.org";
pub const ROOM: &str = "!roomA:example.org";
pub const ROOM2: &str = "!roomB:example.org";
/// room version 1/2 event id
pub const EV1: &str = "$ev1:example.org";
/// room version 4+ event id
pub const EV2: &str = "$Rqnc-F-dvnEYJTyHq_iKxU2bZ1CI92-kuZq3a5lr5Zg";
pub const MXC: &str = "mxc://example.org/AbCdEfGh";
pub const MXC2: &str = "mxc://example.org/ThumbNail";
/// unpadded base64 of "hello" (also valid url-safe base64)
pub const B64: &str = "aGVsbG8";
pub const TS: u64 = 1_700_000_000_123;

#[derive(Clone, Copy, Debug, PartialEq, Eq, PartialOrd, Ord)]
pub enum Kind {
    State,
    MessageLike,
    Ephemeral,
    GlobalAccountData,
    RoomAccountData,
    ToDevice,
}

impl Kind {
    pub fn as_str(self) -> &'static str {
        match self {
            Kind::State => "state",
            Kind::MessageLike => "message-like",
            Kind::Ephemeral => "ephemeral",
            Kind::GlobalAccountData => "global-account-data",
            Kind::RoomAccountData => "room-account-data",
            Kind::ToDevice => "to-device",
        }
    }
    pub fn is_timeline(self) -> bool {
        matches!(self, Kind::State | Kind::MessageLike)
    }
}

/// One switchable group of optional leaves; paths are relative to the event root
/// (`content/...`, `unsigned/...`), `/`-separated, numeric segments index arrays.
#[derive(Clone, Debug)]
pub struct Opt {
    pub name: String,
    pub sets: Vec<(String, Value)>,
    /// only in the original (unredacted) form — e.g. `unsigned.prev_content`
    pub original_only: bool,
}

#[derive(Clone, Debug)]
pub struct Schema {
    /// unique label used in signatures, e.g. `m.room.message/m.text/reply`
    pub label: String,
    pub ty: String,
    pub kind: Kind,
    pub state_key: Option<String>,
    /// the content with every field the spec marks required
    pub required: Value,
    /// required top-level fields besides the envelope (m.room.redaction `redacts`), removed
    /// by redaction
    pub top_required: Vec<(String, Value)>,
    pub opts: Vec<Opt>,
    /// room versions whose redaction table is applied for the redacted form
    pub redact_versions: Vec<u8>,
    /// content is a map keyed by identifiers: an "unknown content field" would be a
    /// malformed entry, not an unknown field (not compared)
    pub content_is_map: bool,
    /// false: the type is not defined by the spec ⇒ must land in the `_Custom` variant
    pub known: bool,
    /// name of the enum variant when the naming rule does not give it (types with a `.*` suffix)
    pub variant: Option<String>,
}

impl Schema {
    fn new(kind: Kind, ty: &str, variant: &str, required: Value) -> Schema {
        let mut label = ty.to_owned();
        if kind == Kind::ToDevice {
            label.push_str("/to-device");
        }
        if !variant.is_empty() {
            label.push('/');
            label.push_str(variant);
        }
        Schema {
            label,
            ty: ty.to_owned(),
            kind,
            state_key: (kind == Kind::State).then(String::new),
            required,
            top_required: vec![],
            opts: vec![],
            redact_versions: vec![1, 9, 11],
            content_is_map: false,
            known: true,
            variant: None,
        }
    }
    fn variant(mut self, v: &str) -> Self {
        self.variant = Some(v.to_owned());
        self
    }
    fn key(mut self, k: &str) -> Self {
        self.state_key = Some(k.to_owned());
        self
    }
    /// optional group of content fields; paths relative to `content`
    fn opt(mut self, name: &str, sets: &[(&str, Value)]) -> Self {
        self.opts.push(Opt {
            name: name.to_owned(),
            sets: sets.iter().map(|(p, v)| (format!("content/{p}"), v.clone())).collect(),
            original_only: false,
        });
        self
    }
    fn top_opt(mut self, name: &str, sets: &[(&str, Value)]) -> Self {
        self.opts.push(Opt {
            name: name.to_owned(),
            sets: sets.iter().map(|(p, v)| ((*p).to_owned(), v.clone())).collect(),
            original_only: false,
        });
        self
    }
    fn top(mut self, k: &str, v: Value) -> Self {
        self.top_required.push((k.to_owned(), v));
        self
    }
    fn versions(mut self, v: &[u8]) -> Self {
        self.redact_versions = v.to_vec();
        self
    }
    fn map_content(mut self) -> Self {
        self.content_is_map = true;
        self
    }
    fn unknown(mut self) -> Self {
        self.known = false;
        self.label = format!("unknown[{}]/{}", self.ty, self.kind.as_str());
        self
    }
    /// add the `unsigned` groups every timeline event may carry
    fn finish(mut self) -> Self {
        if self.kind.is_timeline() {
            let mut sets = vec![("unsigned/age".into(), json!(1234)), ("unsigned/transaction_id".into(), json!("txn-1"))];
            if self.known {
                // bundled aggregations (server-side aggregation of child events)
                let child = json!({
                    "type": "m.room.message", "event_id": EV1, "sender": BOB, "origin_server_ts": TS + 5,
                    "content": {"msgtype": "m.text", "body": "in thread"}
                });
                sets.push((
                    "unsigned/m.relations".into(),
                    json!({
                        "m.thread": {"latest_event": child, "count": 2, "current_user_participated": true},
                        "m.reference": {"chunk": [{"event_id": EV1}, {"event_id": EV2}]}
                    }),
                ));
                if self.ty == "m.room.message" {
                    sets.push((
                        "unsigned/m.relations/m.replace".into(),
                        json!({"type": self.ty, "event_id": EV1, "sender": ALICE, "origin_server_ts": TS + 9, "content": self.required}),
                    ));
                }
            }
            self.opts.push(Opt { name: "unsigned".into(), sets, original_only: false });
            if self.kind == Kind::State && self.known {
                self.opts.push(Opt {
                    name: "prev_content".into(),
                    sets: vec![("unsigned/prev_content".into(), self.required.clone())],
                    original_only: true,
                });
            }
        }
        assert!(self.opts.len() <= 7, "{}: more than 7 optional groups", self.label);
        self
    }

    /// The content for a subset of the optional groups (bit i = group i), plus the other
    /// event-level optional values (`unsigned/...`, top-level keys).
    pub fn instantiate(&self, subset: u32, redacted: bool) -> (Value, Vec<(String, Value)>) {
        let mut ev = json!({ "content": self.required.clone() });
        for (i, o) in self.opts.iter().enumerate() {
            if subset & (1 << i) == 0 || (redacted && o.original_only) {
                continue;
            }
            for (p, v) in &o.sets {
                let segs: Vec<&str> = p.split('/').collect();
                set_path(&mut ev, &segs, v.clone());
            }
        }
        let mut m = match ev {
            Value::Object(m) => m,
            _ => unreachable!(),
        };
        let content = m.remove("content").unwrap_or_else(|| json!({}));
        (content, m.into_iter().collect())
    }
}

fn obj(v: Value) -> Map<String, Value> {
    match v {
        Value::Object(m) => m,
        _ => panic!("object expected"),
    }
}

fn merge(a: Value, b: Value) -> Value {
    let mut m = obj(a);
    m.extend(obj(b));
    Value::Object(m)
}

fn thumb_info() -> Value {
    json!({"h": 32, "w": 48, "mimetype": "image/png", "size": 2048})
}

fn encrypted_file() -> Value {
    json!({
        "url": MXC,
        "key": {"kty": "oct", "key_ops": ["encrypt", "decrypt"], "alg": "A256CTR", "k": B64, "ext": true},
        "iv": B64,
        "hashes": {"sha256": B64},
        "v": "v2"
    })
}

fn reference() -> Value {
    json!({"rel_type": "m.reference", "event_id": EV2})
}

fn push_rule(id: &str, default: bool, enabled: bool, actions: Value) -> Value {
    json!({"rule_id": id, "default": default, "enabled": enabled, "actions": actions})
}

/// Relations an `m.room.message` / `m.sticker` may carry: (label, fields merged into the
/// content, extra optional groups)
#[allow(clippy::type_complexity)]
fn message_relations(full: bool, new_content: &Value) -> Vec<(&'static str, Value, Vec<(&'static str, Vec<(&'static str, Value)>)>)> {
    let mut v = vec![
        ("none", json!({}), vec![]),
        ("reply", json!({"m.relates_to": {"m.in_reply_to": {"event_id": EV1}}}), vec![]),
        (
            "replace",
            json!({"m.relates_to": {"rel_type": "m.replace", "event_id": EV2}, "m.new_content": new_content}),
            vec![],
        ),
    ];
    if full {
        v.push((
            "thread",
            json!({"m.relates_to": {"rel_type": "m.thread", "event_id": EV2}}),
            vec![(
                "thread-fallback",
                vec![
                    ("m.relates_to/m.in_reply_to", json!({"event_id": EV1})),
                    ("m.relates_to/is_falling_back", json!(true)),
                ],
            )],
        ));
        // a relation type the message content type has no variant for
        v.push(("reference", json!({"m.relates_to": reference()}), vec![]));
        v.push((
            "custom-rel",
            json!({"m.relates_to": {"rel_type": "org.example.rel", "event_id": EV2, "org.example.key": "v"}}),
            vec![],
        ));
    }
    v
}

pub fn all_schemas() -> Vec<Schema> {
    use Kind::*;
    let mut out: Vec<Schema> = vec![];
    let mut add = |s: Schema| out.push(s.finish());

    // ------------------------------------------------------------------ state events
    add(Schema::new(State, "m.room.create", "", json!({}))
        .opt("creator", &[("creator", json!(ALICE))])
        .opt("room_version", &[("room_version", json!("9"))])
        .opt("federate", &[("m.federate", json!(false))])
        .opt("predecessor", &[("predecessor", json!({"room_id": ROOM2, "event_id": EV2}))])
        .opt("type", &[("type", json!("m.space"))]));

    add(Schema::new(State, "m.room.member", "join", json!({"membership": "join"}))
        .key(BOB)
        .opt("displayname", &[("displayname", json!("Bob"))])
        .opt("avatar_url", &[("avatar_url", json!(MXC))])
        .opt("is_direct", &[("is_direct", json!(true))])
        .opt("reason", &[("reason", json!("because"))])
        .opt("authorised", &[("join_authorised_via_users_server", json!(ALICE))]));
    add(Schema::new(State, "m.room.member", "invite", json!({"membership": "invite"}))
        .key(BOB)
        .opt("displayname", &[("displayname", json!("Bob"))])
        .opt("is_direct", &[("is_direct", json!(true))])
        .opt(
            "third_party_invite",
            &[(
                "third_party_invite",
                json!({
                    "display_name": "bob@example.com",
                    "signed": {
                        "mxid": BOB,
                        "token": "abc123",
                        "signatures": {"magic.forest": {"ed25519:3": "fQpGIW1Snz+pwLZu6sTy2aHy/DYWWTspTJRPyNp0PKkymfIsNffysMl6ObMMFdIJhk6g6pwlIqZ54rxo8SLmAg"}}
                    }
                }),
            )],
        ));
    for m in ["leave", "ban", "knock"] {
        add(Schema::new(State, "m.room.member", m, json!({"membership": m}))
            .key(BOB)
            .opt("reason", &[("reason", json!("because"))]));
    }

    add(Schema::new(State, "m.room.power_levels", "", json!({}))
        .opt(
            "levels",
            &[("ban", json!(60)), ("kick", json!(61)), ("redact", json!(62)), ("events_default", json!(1)), ("state_default", json!(71))],
        )
        .opt("events", &[("events", json!({"m.room.name": 70, "m.room.message": 10, "org.example.custom": 5}))])
        .opt("users", &[("users", json!({ALICE: 100, BOB: 20})), ("users_default", json!(2))])
        .opt("invite", &[("invite", json!(30))])
        .opt("notifications", &[("notifications", json!({"room": 80}))]));

    // the same fields at the values the *other* fields default to (0 <-> 50): a default or a skip
    // condition copied from a neighbouring field shows up here and nowhere else
    add(Schema::new(State, "m.room.power_levels", "defaults-crossed", json!({}))
        .opt("levels", &[("ban", json!(0)), ("kick", json!(0)), ("redact", json!(0)), ("events_default", json!(50)), ("state_default", json!(0))])
        .opt("users", &[("users", json!({ALICE: 50, BOB: 0})), ("users_default", json!(50))])
        .opt("invite", &[("invite", json!(50))])
        .opt("notifications", &[("notifications", json!({"room": 0}))]));
    // (values equal to a field's *own* default are not generated: ruma omits such a key when it
    // serializes, the typed value read back is the same, and the property does not forbid that)

    for jr in ["public", "invite", "knock", "private"] {
        add(Schema::new(State, "m.room.join_rules", jr, json!({"join_rule": jr})));
    }
    add(Schema::new(State, "m.room.join_rules", "restricted", json!({"join_rule": "restricted"}))
        .opt("allow", &[("allow", json!([{"type": "m.room_membership", "room_id": ROOM2}]))]));
    add(Schema::new(State, "m.room.join_rules", "knock_restricted", json!({"join_rule": "knock_restricted"}))
        .opt(
            "allow",
            &[("allow", json!([{"type": "m.room_membership", "room_id": ROOM2}, {"type": "m.room_membership", "room_id": ROOM}]))],
        ));
    // a join rule value from a future spec version / an extension (ruma keeps a `_Custom` variant
    // for it, so it accepts the event)
    add(Schema::new(State, "m.room.join_rules", "custom-value", json!({"join_rule": "org.example.custom"})));

    add(Schema::new(State, "m.room.name", "", json!({"name": "The room"})));
    add(Schema::new(State, "m.room.topic", "", json!({"topic": "A topic"})));
    add(Schema::new(State, "m.room.avatar", "", json!({}))
        .opt("url", &[("url", json!(MXC))])
        .opt("info", &[("info/h", json!(398)), ("info/w", json!(394)), ("info/mimetype", json!("image/jpeg")), ("info/size", json!(31037))])
        .opt("thumbnail", &[("info/thumbnail_url", json!(MXC2)), ("info/thumbnail_info", thumb_info())]));
    add(Schema::new(State, "m.room.canonical_alias", "", json!({}))
        .opt("alias", &[("alias", json!("#main:example.org"))])
        .opt("alt_aliases", &[("alt_aliases", json!(["#alt1:example.org", "#alt2:other.org"]))]));
    add(Schema::new(State, "m.room.aliases", "", json!({"aliases": ["#a:example.org", "#b:example.org"]})).key("example.org"));
    for hv in ["invited", "joined", "shared", "world_readable"] {
        add(Schema::new(State, "m.room.history_visibility", hv, json!({"history_visibility": hv})));
    }
    for ga in ["can_join", "forbidden"] {
        add(Schema::new(State, "m.room.guest_access", ga, json!({"guest_access": ga})));
    }
    add(Schema::new(State, "m.room.encryption", "", json!({"algorithm": "m.megolm.v1.aes-sha2"}))
        .opt("rotation_period_ms", &[("rotation_period_ms", json!(604_800_000u64))])
        .opt("rotation_period_msgs", &[("rotation_period_msgs", json!(100))]));
    add(Schema::new(State, "m.room.pinned_events", "", json!({"pinned": [EV1, EV2]})));
    add(Schema::new(State, "m.room.server_acl", "", json!({}))
        .opt("allow", &[("allow", json!(["*"]))])
        .opt("deny", &[("deny", json!(["*.evil.com", "evil.com"]))])
        .opt("allow_ip_literals", &[("allow_ip_literals", json!(false))]));
    add(Schema::new(State, "m.room.tombstone", "", json!({"body": "This room has been replaced", "replacement_room": ROOM2})));
    add(Schema::new(
        State,
        "m.room.third_party_invite",
        "",
        json!({"display_name": "Alice Margatroid", "key_validity_url": "https://magic.forest/verifykey", "public_key": "abc123"}),
    )
    .key("pc98")
    .opt(
        "public_keys",
        &[("public_keys", json!([{"public_key": "def456"}, {"public_key": "abc123", "key_validity_url": "https://magic.forest/verifykey"}]))],
    ));
    // `via` is marked required since the clarification in spec v1.9 (a child is removed by sending an
    // event that is invalid under this schema, which consumers are told to ignore)
    add(Schema::new(State, "m.space.child", "", json!({"via": ["example.org", "other.example.org"]}))
        .key(ROOM2)
        .opt("order", &[("order", json!("lexicographically_compare_me"))])
        .opt("suggested", &[("suggested", json!(true))]));
    add(Schema::new(State, "m.space.parent", "", json!({"via": ["example.org", "other.example.org"]}))
        .key(ROOM2)
        .opt("canonical", &[("canonical", json!(true))]));
    for (t, entity) in [("m.policy.rule.user", "@alice*:example.org"), ("m.policy.rule.room", "#*:example.org"), ("m.policy.rule.server", "*.example.org")] {
        add(Schema::new(State, t, "", json!({"entity": entity, "recommendation": "m.ban", "reason": "undesirable behaviour"})).key("rule:1"));
    }

    // ------------------------------------------------------------------ m.room.message
    let formatted: (&str, Vec<(&str, Value)>) =
        ("formatted", vec![("format", json!("org.matrix.custom.html")), ("formatted_body", json!("<b>This is an example</b>"))]);
    let mentions: (&str, Vec<(&str, Value)>) = ("mentions", vec![("m.mentions", json!({"user_ids": [ALICE, BOB], "room": true}))]);
    let info_image: (&str, Vec<(&str, Value)>) =
        ("info", vec![("info/h", json!(398)), ("info/w", json!(394)), ("info/mimetype", json!("image/jpeg")), ("info/size", json!(31037))]);
    let info_thumb: (&str, Vec<(&str, Value)>) = ("thumbnail", vec![("info/thumbnail_url", json!(MXC2)), ("info/thumbnail_info", thumb_info())]);
    let filename: (&str, Vec<(&str, Value)>) = ("filename", vec![("filename", json!("file.bin"))]);

    // (msgtype label, required content, optional groups, all relations?)
    #[allow(clippy::type_complexity)]
    let msgtypes: Vec<(&str, Value, Vec<(&str, Vec<(&str, Value)>)>, bool)> = vec![
        ("m.text", json!({"msgtype": "m.text", "body": "This is an example"}), vec![formatted.clone()], true),
        ("m.emote", json!({"msgtype": "m.emote", "body": "thinks"}), vec![formatted.clone()], false),
        ("m.notice", json!({"msgtype": "m.notice", "body": "a notice"}), vec![formatted.clone()], false),
        (
            "m.image",
            json!({"msgtype": "m.image", "body": "filename.jpg", "url": MXC}),
            vec![formatted.clone(), filename.clone(), info_image.clone(), info_thumb.clone()],
            false,
        ),
        (
            "m.file",
            json!({"msgtype": "m.file", "body": "something-important.doc", "url": MXC}),
            vec![
                filename.clone(),
                ("info", vec![("info/mimetype", json!("application/msword")), ("info/size", json!(46144))]),
                info_thumb.clone(),
            ],
            false,
        ),
        (
            "m.file-encrypted",
            json!({"msgtype": "m.file", "body": "secret.doc", "file": encrypted_file()}),
            vec![
                filename.clone(),
                ("info", vec![("info/mimetype", json!("application/msword")), ("info/size", json!(46144))]),
                ("thumbnail", vec![("info/thumbnail_file", encrypted_file()), ("info/thumbnail_info", thumb_info())]),
            ],
            false,
        ),
        (
            "m.audio",
            json!({"msgtype": "m.audio", "body": "Bee Gees - Stayin' Alive", "url": MXC}),
            vec![filename.clone(), ("info", vec![("info/duration", json!(2140786)), ("info/mimetype", json!("audio/mpeg")), ("info/size", json!(1563685))])],
            false,
        ),
        (
            "m.video",
            json!({"msgtype": "m.video", "body": "Gangnam Style", "url": MXC}),
            vec![
                formatted.clone(),
                ("info", vec![("info/duration", json!(2140786)), ("info/h", json!(320)), ("info/w", json!(480)), ("info/mimetype", json!("video/mp4")), ("info/size", json!(1563685))]),
                info_thumb.clone(),
            ],
            false,
        ),
        (
            "m.location",
            json!({"msgtype": "m.location", "body": "Big Ben, London, UK", "geo_uri": "geo:51.5008,0.1247"}),
            vec![info_thumb.clone()],
            false,
        ),
        (
            "m.server_notice",
            json!({"msgtype": "m.server_notice", "body": "Human-readable message", "server_notice_type": "m.server_notice.usage_limit_reached"}),
            vec![("admin_contact", vec![("admin_contact", json!("mailto:server.admin@example.org"))]), ("limit_type", vec![("limit_type", json!("monthly_active_user"))])],
            false,
        ),
        (
            "m.key.verification.request",
            json!({"msgtype": "m.key.verification.request", "body": "Alice is requesting to verify", "from_device": "AliceDevice2", "methods": ["m.sas.v1"], "to": BOB}),
            vec![formatted.clone()],
            false,
        ),
        // a msgtype not defined by the spec (clients "should" fall back to body)
        (
            "custom-msgtype",
            json!({"msgtype": "org.example.custom", "body": "custom fallback", "org.example.data": {"a": 1, "b": [true, null]}}),
            vec![],
            true,
        ),
    ];
    for (mlabel, required, groups, full) in &msgtypes {
        for (rlabel, rel_fields, rel_groups) in message_relations(*full, required) {
            let mut s = Schema::new(MessageLike, "m.room.message", &format!("{mlabel}/{rlabel}"), merge(required.clone(), rel_fields));
            for (n, sets) in groups {
                s = s.opt(n, sets);
            }
            for (n, sets) in &rel_groups {
                s = s.opt(n, sets);
            }
            s = s.opt(mentions.0, &mentions.1);
            add(s);
        }
    }

    // ------------------------------------------------------------------ other message-like events
    // since v1.3 `sender_key` / `device_id` are deprecated and no longer required for megolm
    let megolm = json!({"algorithm": "m.megolm.v1.aes-sha2", "ciphertext": "AwgAEnACgAkLmt6qF84IK++J7UDH2Za1YVchHyprqTqsg", "session_id": "IkwqWxT2zy3DI1E/zM2Wq+CE8tr3eEpsxsVGjGrMPdw"});
    for (rl, rel) in [
        ("none", json!({})),
        ("reference", json!({"m.relates_to": reference()})),
        ("thread", json!({"m.relates_to": {"rel_type": "m.thread", "event_id": EV2, "m.in_reply_to": {"event_id": EV1}, "is_falling_back": true}})),
        ("annotation", json!({"m.relates_to": {"rel_type": "m.annotation", "event_id": EV2, "key": "👍"}})),
        ("replace", json!({"m.relates_to": {"rel_type": "m.replace", "event_id": EV2}})),
        ("reply", json!({"m.relates_to": {"m.in_reply_to": {"event_id": EV1}}})),
    ] {
        add(Schema::new(MessageLike, "m.room.encrypted", &format!("megolm/{rl}"), merge(megolm.clone(), rel))
            .opt("legacy-keys", &[("sender_key", json!("SessionKey+Curve25519")), ("device_id", json!("RJYKSTBOIE"))]));
    }
    let olm = json!({
        "algorithm": "m.olm.v1.curve25519-aes-sha2",
        "sender_key": "Szl29ksW/L8yZGWAX+8dY1XyFi+i5wm+DRhTGkbMiwU",
        "ciphertext": {"7qZcfyBjcMiZVsCeC9BJ8FHqNNJ5dVGR1AV7R7DEbzM": {"type": 0, "body": "AwogGJJzMhf/S3GQFXAOrCZ3iKyGU5ZScVtjI0KypTYrW"}}
    });
    add(Schema::new(MessageLike, "m.room.encrypted", "olm", olm.clone()));

    // room versions 1-10: `redacts` at the top level
    add(Schema::new(MessageLike, "m.room.redaction", "v1-shape", json!({}))
        .top("redacts", json!(EV1))
        .opt("reason", &[("reason", json!("Spamming"))])
        .versions(&[1, 9]));
    // room version 11: `redacts` in the content (servers may copy it to the top level for
    // older clients)
    add(Schema::new(MessageLike, "m.room.redaction", "v11-shape", json!({"redacts": EV2}))
        .opt("reason", &[("reason", json!("Spamming"))])
        .top_opt("compat-redacts", &[("redacts", json!(EV2))])
        .versions(&[11]));

    add(Schema::new(MessageLike, "m.reaction", "", json!({"m.relates_to": {"rel_type": "m.annotation", "event_id": EV2, "key": "👍"}})));

    for (rl, rel) in [("none", json!({})), ("reply", json!({"m.relates_to": {"m.in_reply_to": {"event_id": EV1}}}))] {
        add(Schema::new(MessageLike, "m.sticker", rl, merge(json!({"body": "Landing", "info": {}, "url": MXC}), rel))
            .opt(info_image.0, &info_image.1)
            .opt(info_thumb.0, &info_thumb.1));
    }

    let sdp = "v=0\r\no=- 6584580628695956864 2 IN IP4 127.0.0.1\r\n";
    let stream_meta: (&str, Vec<(&str, Value)>) = (
        "sdp_stream_metadata",
        vec![("sdp_stream_metadata", json!({"271828182845": {"purpose": "m.usermedia", "audio_muted": true, "video_muted": true}, "314159265358": {"purpose": "m.screenshare"}}))],
    );
    add(Schema::new(MessageLike, "m.call.invite", "v0", json!({"call_id": "12345", "lifetime": 60000, "offer": {"type": "offer", "sdp": sdp}, "version": 0})));
    add(Schema::new(MessageLike, "m.call.invite", "v1", json!({"call_id": "12345", "party_id": "67890", "lifetime": 60000, "offer": {"type": "offer", "sdp": sdp}, "version": "1"}))
        .opt("invitee", &[("invitee", json!(BOB))])
        .opt(stream_meta.0, &stream_meta.1));
    add(Schema::new(MessageLike, "m.call.answer", "v0", json!({"call_id": "12345", "answer": {"type": "answer", "sdp": sdp}, "version": 0})));
    add(Schema::new(MessageLike, "m.call.answer", "v1", json!({"call_id": "12345", "party_id": "67890", "answer": {"type": "answer", "sdp": sdp}, "version": "1"}))
        .opt(stream_meta.0, &stream_meta.1));
    add(Schema::new(
        MessageLike,
        "m.call.candidates",
        "v0",
        json!({"call_id": "12345", "version": 0, "candidates": [{"candidate": "candidate:863018703 1 udp 2122260223 10.9.64.156 43670 typ host generation 0"}, {"candidate": ""}]}),
    )
    .opt("sdpMid", &[("candidates/0/sdpMid", json!("audio"))])
    .opt("sdpMLineIndex", &[("candidates/0/sdpMLineIndex", json!(1))]));
    add(Schema::new(
        MessageLike,
        "m.call.candidates",
        "v1",
        json!({"call_id": "12345", "party_id": "67890", "version": "1", "candidates": [{"candidate": "candidate:863018703 1 udp 2122260223 10.9.64.156 43670 typ host generation 0"}]}),
    )
    .opt("sdpMid", &[("candidates/0/sdpMid", json!("audio"))])
    .opt("sdpMLineIndex", &[("candidates/0/sdpMLineIndex", json!(1))]));
    add(Schema::new(MessageLike, "m.call.hangup", "v0", json!({"call_id": "12345", "version": 0})).opt("reason", &[("reason", json!("invite_timeout"))]));
    add(Schema::new(MessageLike, "m.call.hangup", "v1", json!({"call_id": "12345", "party_id": "67890", "version": "1"})).opt("reason", &[("reason", json!("ice_failed"))]));

    add(Schema::new(MessageLike, "m.call.negotiate", "", json!({"call_id": "12345", "party_id": "67890", "version": "1", "lifetime": 10000, "description": {"type": "offer", "sdp": sdp}}))
        .opt(stream_meta.0, &stream_meta.1));
    add(Schema::new(MessageLike, "m.call.reject", "", json!({"call_id": "12345", "party_id": "67890", "version": "1"})));
    add(Schema::new(MessageLike, "m.call.select_answer", "", json!({"call_id": "12345", "party_id": "67890", "selected_party_id": "111213", "version": "1"})));
    add(Schema::new(
        MessageLike,
        "m.call.sdp_stream_metadata_changed",
        "",
        json!({"call_id": "12345", "party_id": "67890", "version": "1", "sdp_stream_metadata": {"2311546231": {"purpose": "m.usermedia", "audio_muted": true, "video_muted": true}}}),
    ));

    // the same event under its declared alias type (pre-stabilisation spelling): the typed variant all the same
    add(Schema::new(
        MessageLike,
        "org.matrix.call.sdp_stream_metadata_changed",
        "",
        json!({"call_id": "12345", "party_id": "67890", "version": "1", "sdp_stream_metadata": {"2311546231": {"purpose": "m.usermedia", "audio_muted": true, "video_muted": true}}}),
    )
    .variant("CallSdpStreamMetadataChanged"));

    // in-room key verification: no transaction_id, `m.relates_to` (m.reference) required
    let rel = json!({"m.relates_to": reference()});
    add(Schema::new(MessageLike, "m.key.verification.ready", "", merge(json!({"from_device": "BobDevice1", "methods": ["m.sas.v1", "m.qr_code.show.v1", "m.reciprocate.v1"]}), rel.clone())));
    add(Schema::new(
        MessageLike,
        "m.key.verification.start",
        "sas",
        merge(
            json!({
                "from_device": "BobDevice1", "method": "m.sas.v1",
                "key_agreement_protocols": ["curve25519-hkdf-sha256"], "hashes": ["sha256"],
                "message_authentication_codes": ["hkdf-hmac-sha256.v2"], "short_authentication_string": ["decimal", "emoji"]
            }),
            rel.clone(),
        ),
    ));
    add(Schema::new(MessageLike, "m.key.verification.start", "reciprocate", merge(json!({"from_device": "BobDevice1", "method": "m.reciprocate.v1", "secret": B64}), rel.clone())));
    add(Schema::new(
        MessageLike,
        "m.key.verification.accept",
        "",
        merge(
            json!({
                "method": "m.sas.v1", "key_agreement_protocol": "curve25519-hkdf-sha256", "hash": "sha256",
                "message_authentication_code": "hkdf-hmac-sha256.v2", "short_authentication_string": ["decimal", "emoji"],
                "commitment": B64
            }),
            rel.clone(),
        ),
    ));
    add(Schema::new(MessageLike, "m.key.verification.key", "", merge(json!({"key": B64}), rel.clone())));
    add(Schema::new(MessageLike, "m.key.verification.mac", "", merge(json!({"keys": B64, "mac": {"ed25519:ABCDEFG": B64}}), rel.clone())));
    add(Schema::new(MessageLike, "m.key.verification.cancel", "", merge(json!({"code": "m.user", "reason": "User rejected the key verification request"}), rel.clone())));
    add(Schema::new(MessageLike, "m.key.verification.done", "", rel.clone()));

    // ------------------------------------------------------------------ ephemeral
    add(Schema::new(Ephemeral, "m.typing", "", json!({"user_ids": [ALICE, BOB]})));
    add(Schema::new(Ephemeral, "m.typing", "nobody", json!({"user_ids": []})));
    add(Schema::new(Ephemeral, "m.receipt", "", json!({EV2: {"m.read": {ALICE: {}}}}))
        .map_content()
        .opt("ts", &[(&format!("{EV2}/m.read/{ALICE}/ts"), json!(1436451550453u64))])
        .opt("thread_id", &[(&format!("{EV2}/m.read/{ALICE}/thread_id"), json!("main"))])
        .opt("private", &[(&format!("{EV2}/m.read.private/{BOB}"), json!({"ts": 1436451550454u64, "thread_id": EV1}))])
        .opt("second-event", &[(&format!("{EV1}/m.read/{BOB}"), json!({"ts": 1436451550455u64}))]));

    // ------------------------------------------------------------------ account data
    add(Schema::new(GlobalAccountData, "m.direct", "", json!({})).map_content().opt("alice", &[(ALICE, json!([ROOM, ROOM2]))]).opt("bob", &[(BOB, json!([ROOM2]))]));
    add(Schema::new(GlobalAccountData, "m.ignored_user_list", "", json!({"ignored_users": {}})).opt("bob", &[(&format!("ignored_users/{BOB}"), json!({}))]));
    add(Schema::new(GlobalAccountData, "m.identity_server", "", json!({})).opt("base_url", &[("base_url", json!("https://example.org"))]));
    add(Schema::new(GlobalAccountData, "m.secret_storage.default_key", "", json!({"key": "abcdefg"})));
    add(Schema::new(GlobalAccountData, "m.secret_storage.key.abcdefg", "", json!({"algorithm": "m.secret_storage.v1.aes-hmac-sha2"}))
        .variant("SecretStorageKey")
        .opt("name", &[("name", json!("m.default"))])
        .opt("iv-mac", &[("iv", json!(B64)), ("mac", json!(B64))])
        .opt("passphrase", &[("passphrase", json!({"algorithm": "m.pbkdf2", "salt": "MmMsAlty", "iterations": 100000, "bits": 512}))]));
    // a key ID with dots in it: the fragment is everything after the declared prefix
    add(Schema::new(GlobalAccountData, "m.secret_storage.key.org.example.backup.1", "", json!({"algorithm": "m.secret_storage.v1.aes-hmac-sha2"}))
        .variant("SecretStorageKey")
        .opt("name", &[("name", json!("m.default"))]));
    add(Schema::new(GlobalAccountData, "m.push_rules", "", json!({"global": {}}))
        .opt(
            "override",
            &[(
                "global/override",
                json!([
                    merge(push_rule(".m.rule.master", true, false, json!([])), json!({"conditions": []})),
                    merge(
                        push_rule(".m.rule.suppress_notices", true, true, json!([])),
                        json!({"conditions": [{"kind": "event_match", "key": "content.msgtype", "pattern": "m.notice"}]})
                    ),
                ]),
            )],
        )
        .opt(
            "content",
            &[(
                "global/content",
                json!([merge(
                    push_rule(".m.rule.contains_user_name", true, true, json!(["notify", {"set_tweak": "sound", "value": "default"}, {"set_tweak": "highlight"}])),
                    json!({"pattern": "alice"})
                )]),
            )],
        )
        .opt("room", &[("global/room", json!([push_rule(ROOM, false, true, json!([]))]))])
        .opt("sender", &[("global/sender", json!([push_rule(BOB, false, true, json!(["notify"]))]))])
        .opt(
            "underride",
            &[(
                "global/underride",
                json!([merge(
                    push_rule(".m.rule.message", true, true, json!(["notify", {"set_tweak": "highlight", "value": false}])),
                    json!({"conditions": [
                        {"kind": "event_match", "key": "type", "pattern": "m.room.message"},
                        {"kind": "room_member_count", "is": "2"},
                        {"kind": "sender_notification_permission", "key": "room"},
                        {"kind": "contains_display_name"}
                    ]})
                )]),
            )],
        ));
    add(Schema::new(RoomAccountData, "m.fully_read", "", json!({"event_id": EV2})));
    add(Schema::new(RoomAccountData, "m.marked_unread", "", json!({"unread": true})));
    add(Schema::new(RoomAccountData, "m.tag", "", json!({"tags": {}}))
        .opt("user-tag", &[("tags/u.work", json!({}))])
        .opt("user-tag-order", &[("tags/u.work/order", json!(0.5))])
        .opt("favourite", &[("tags/m.favourite", json!({"order": 0.25}))])
        .opt("lowpriority", &[("tags/m.lowpriority", json!({}))]));

    // ------------------------------------------------------------------ to-device
    add(Schema::new(
        ToDevice,
        "m.room_key",
        "",
        json!({"algorithm": "m.megolm.v1.aes-sha2", "room_id": ROOM, "session_id": "X3lUlvLELLYxeTx4yOVu6UDpasGEVO0Jbu+QFnm0cKQ", "session_key": "AgAAAADxKHa9uFxcXzwYoNueL5Xqi69IkD4sni8LlfJL7qNBEY"}),
    ));
    // `sender_key` in `body` is deprecated and no longer required since v1.3
    add(Schema::new(
        ToDevice,
        "m.room_key_request",
        "request",
        json!({
            "action": "request", "request_id": "1495474790150.19", "requesting_device_id": "RJYKSTBOIE",
            "body": {"algorithm": "m.megolm.v1.aes-sha2", "room_id": ROOM, "session_id": "X3lUlvLELLYxeTx4yOVu6UDpasGEVO0Jbu+QFnm0cKQ"}
        }),
    )
    .opt("sender_key", &[("body/sender_key", json!("RF3s+E7RkTQTGF2d8Deol0FkQvgII2aJDf3/Jp5AKRk"))]));
    add(Schema::new(ToDevice, "m.room_key_request", "cancel", json!({"action": "request_cancellation", "request_id": "1495474790150.19", "requesting_device_id": "RJYKSTBOIE"})));
    add(Schema::new(
        ToDevice,
        "m.forwarded_room_key",
        "",
        json!({
            "algorithm": "m.megolm.v1.aes-sha2", "room_id": ROOM, "session_id": "X3lUlvLELLYxeTx4yOVu6UDpasGEVO0Jbu+QFnm0cKQ",
            "session_key": "AgAAAADxKHa9uFxcXzwYoNueL5Xqi69IkD4sni8Llf", "sender_key": "RF3s+E7RkTQTGF2d8Deol0FkQvgII2aJDf3/Jp5AKRk",
            "sender_claimed_ed25519_key": "aj40p+aw64yPIdsxoog8jhPu9i7l7NcFRecuOQblE3Y",
            "forwarding_curve25519_key_chain": ["hPQNcabIABgGnx3/ACv/jmMmiQHoeFfuLB17tzWp6Hw"]
        }),
    ));
    add(Schema::new(ToDevice, "m.dummy", "", json!({})));
    add(Schema::new(ToDevice, "m.room.encrypted", "olm", olm));
    add(Schema::new(
        ToDevice,
        "m.key.verification.request",
        "",
        json!({"from_device": "AliceDevice2", "methods": ["m.sas.v1"], "timestamp": 1559598944869u64, "transaction_id": "S0meUniqueAndOpaqueString"}),
    ));
    add(Schema::new(ToDevice, "m.key.verification.ready", "", json!({"from_device": "BobDevice1", "methods": ["m.sas.v1"], "transaction_id": "S0meUniqueAndOpaqueString"})));
    add(Schema::new(
        ToDevice,
        "m.key.verification.start",
        "sas",
        json!({
            "from_device": "BobDevice1", "method": "m.sas.v1", "transaction_id": "S0meUniqueAndOpaqueString",
            "key_agreement_protocols": ["curve25519"], "hashes": ["sha256"],
            "message_authentication_codes": ["hkdf-hmac-sha256.v2", "hkdf-hmac-sha256"], "short_authentication_string": ["decimal", "emoji"]
        }),
    ));
    add(Schema::new(
        ToDevice,
        "m.key.verification.accept",
        "",
        json!({
            "method": "m.sas.v1", "transaction_id": "S0meUniqueAndOpaqueString", "key_agreement_protocol": "curve25519", "hash": "sha256",
            "message_authentication_code": "hkdf-hmac-sha256.v2", "short_authentication_string": ["decimal", "emoji"], "commitment": B64
        }),
    ));
    add(Schema::new(ToDevice, "m.key.verification.key", "", json!({"key": B64, "transaction_id": "S0meUniqueAndOpaqueString"})));
    add(Schema::new(ToDevice, "m.key.verification.mac", "", json!({"keys": B64, "mac": {"ed25519:ABCDEFG": B64}, "transaction_id": "S0meUniqueAndOpaqueString"})));
    add(Schema::new(ToDevice, "m.key.verification.cancel", "", json!({"code": "m.timeout", "reason": "timed out", "transaction_id": "S0meUniqueAndOpaqueString"})));
    add(Schema::new(ToDevice, "m.key.verification.done", "", json!({"transaction_id": "S0meUniqueAndOpaqueString"})));
    add(Schema::new(ToDevice, "m.secret.request", "request", json!({"action": "request", "name": "org.example.some.secret", "request_id": "randomly_generated_id_9573", "requesting_device_id": "ABCDEFG"})));
    add(Schema::new(ToDevice, "m.secret.request", "cancel", json!({"action": "request_cancellation", "request_id": "randomly_generated_id_9573", "requesting_device_id": "ABCDEFG"})));
    add(Schema::new(ToDevice, "m.secret.send", "", json!({"request_id": "randomly_generated_id_9573", "secret": "ThisIsASecretDon'tTellAnyone"})));

    // ------------------------------------------------------------------ unknown event types, every kind
    for kind in [State, MessageLike, Ephemeral, GlobalAccountData, RoomAccountData, ToDevice] {
        for (i, ty) in UNKNOWN_TYPES.iter().enumerate() {
            let content = if i % 2 == 0 { json!({"body": "x", "org.example.n": {"a": [1, 2]}}) } else { json!({}) };
            let mut s = Schema::new(kind, ty, kind.as_str(), content).unknown();
            if kind == State {
                s = s.key(if i % 2 == 0 { "" } else { "some key" });
            }
            add(s.opt("extra", &[("org.example.extra", json!(true))]));
        }
    }
    out
}

/// types the spec does not define: extension namespaces, near misses of a defined type
/// (prefix, longer, other case) and the empty string
pub const UNKNOWN_TYPES: [&str; 11] = [
    "org.example.custom",
    "x.y",
    "m.room.messag",
    "m.room.message.extra",
    "M.ROOM.MESSAGE",
    "m.unknown.future_type",
    "",
    // near misses of the only type with a wildcard suffix (`m.secret_storage.key.*`): the prefix
    // without its dot, one character more, one character less
    "m.secret_storage.key",
    "m.secret_storage.keys",
    "m.secret_storage.key_backup",
    "m.secret_storage.ke",
];

//! JSON text helpers of the C18 check: a writer with explicit key orders (the check must not
//! depend on how `serde_json::Map` happens to order keys), a small recursive-descent reader
//! that keeps duplicate keys (`serde_json::Value` would silently dedupe them) and leaf
//! flattening / lookup for the "no present value changes" oracle.

use serde_json::Value;

/// Key order used when printing an event.
#[derive(Clone, Copy, Debug, PartialEq, Eq)]
pub enum Order {
    /// ascending byte order at every level
    Sorted,
    /// descending byte order at every level
    Reverse,
    /// ascending, but the discriminating keys (`type`, `msgtype`, `rel_type`, `algorithm`,
    /// `method`, `join_rule`, `membership`) come last at every level and `unsigned` just
    /// before them (so dispatch information is seen after everything else)
    TypeLast,
    /// `type` and `unsigned` first, `content` last (top level); nested levels ascending
    ContentLast,
    /// ascending, but the n-th (in ascending order) top-level key comes first
    KeyFirst(u8),
    /// the n-th permutation (lexicographic numbering) of the ascending top-level keys;
    /// nested levels ascending
    Perm(u32),
}

/// How the tokens are spelled.
#[derive(Clone, Copy, Debug, PartialEq, Eq)]
pub enum Style {
    Compact,
    /// blanks around every token (none before the first / after the last)
    Spaced,
    /// the last character of every string (keys and values) written as a `\uXXXX` escape
    Escaped,
}

impl Style {
    pub fn as_str(self) -> &'static str {
        match self {
            Style::Compact => "compact",
            Style::Spaced => "spaced",
            Style::Escaped => "escaped",
        }
    }
    pub fn parse(s: &str) -> Style {
        match s {
            "spaced" => Style::Spaced,
            "escaped" => Style::Escaped,
            _ => Style::Compact,
        }
    }
}

impl Order {
    pub fn as_str(self) -> String {
        match self {
            Order::Sorted => "sorted".into(),
            Order::Reverse => "reverse".into(),
            Order::TypeLast => "type-last".into(),
            Order::ContentLast => "content-last".into(),
            Order::KeyFirst(n) => format!("key-first-{n}"),
            Order::Perm(n) => format!("perm-{n}"),
        }
    }
    pub fn parse(s: &str) -> Order {
        match s {
            "reverse" => Order::Reverse,
            "type-last" => Order::TypeLast,
            "content-last" => Order::ContentLast,
            _ => {
                if let Some(n) = s.strip_prefix("key-first-").and_then(|n| n.parse().ok()) {
                    Order::KeyFirst(n)
                } else if let Some(n) = s.strip_prefix("perm-").and_then(|n| n.parse().ok()) {
                    Order::Perm(n)
                } else {
                    Order::Sorted
                }
            }
        }
    }
}

const TAG_KEYS: [&str; 7] =
    ["membership", "join_rule", "method", "algorithm", "rel_type", "msgtype", "type"];

fn rank_type_last(k: &str) -> usize {
    if let Some(i) = TAG_KEYS.iter().position(|t| *t == k) {
        2 + i
    } else if k == "unsigned" {
        1
    } else {
        0
    }
}

fn ordered_keys<'a>(m: &'a serde_json::Map<String, Value>, order: Order, depth: usize) -> Vec<&'a String> {
    let mut keys: Vec<&String> = m.keys().collect();
    keys.sort();
    match order {
        Order::Sorted => {}
        Order::Reverse => keys.reverse(),
        Order::TypeLast => keys.sort_by_key(|k| rank_type_last(k)),
        Order::ContentLast => {
            if depth == 0 {
                keys.sort_by_key(|k| match k.as_str() {
                    "type" => 0,
                    "unsigned" => 1,
                    "content" => 3,
                    _ => 2,
                });
            }
        }
        Order::KeyFirst(n) => {
            if depth == 0 && (n as usize) < keys.len() {
                let k = keys.remove(n as usize);
                keys.insert(0, k);
            }
        }
        Order::Perm(n) => {
            if depth == 0 {
                // factoradic decoding of the n-th permutation
                let mut pool = std::mem::take(&mut keys);
                let mut n = n as usize % factorial(pool.len());
                for i in (1..=pool.len()).rev() {
                    let f = factorial(i - 1);
                    keys.push(pool.remove(n / f));
                    n %= f;
                }
            }
        }
    }
    keys
}

pub fn factorial(n: usize) -> usize {
    (1..=n).product::<usize>().max(1)
}

/// Print `v` in the given key order and token style.
pub fn write(v: &Value, order: Order, style: Style) -> String {
    let mut out = String::new();
    write_into(v, order, style, 0, &mut out);
    out
}

fn write_string(s: &str, style: Style, out: &mut String) {
    if style != Style::Escaped || s.is_empty() {
        out.push_str(&serde_json::to_string(s).expect("string"));
        return;
    }
    let last = s.chars().next_back().expect("non-empty");
    let head = &s[..s.len() - last.len_utf8()];
    let quoted = serde_json::to_string(head).expect("string");
    out.push_str(&quoted[..quoted.len() - 1]);
    let mut units = [0u16; 2];
    for u in last.encode_utf16(&mut units) {
        out.push_str(&format!("\\u{u:04x}"));
    }
    out.push('"');
}

fn write_into(v: &Value, order: Order, style: Style, depth: usize, out: &mut String) {
    let spaced = style == Style::Spaced;
    match v {
        Value::Object(m) => {
            out.push('{');
            let keys = ordered_keys(m, order, depth);
            for (i, k) in keys.iter().enumerate() {
                if i > 0 {
                    out.push(',');
                }
                if spaced {
                    out.push(' ');
                }
                write_string(k.as_str(), style, out);
                if spaced {
                    out.push_str(" : ");
                } else {
                    out.push(':');
                }
                write_into(&m[k.as_str()], order, style, depth + 1, out);
            }
            if spaced {
                out.push(' ');
            }
            out.push('}');
        }
        Value::Array(a) => {
            out.push('[');
            for (i, x) in a.iter().enumerate() {
                if i > 0 {
                    out.push(',');
                    if spaced {
                        out.push(' ');
                    }
                }
                write_into(x, order, style, depth + 1, out);
            }
            out.push(']');
        }
        Value::String(st) => write_string(st, style, out),
        other => out.push_str(&serde_json::to_string(other).expect("scalar")),
    }
}

// ---------------------------------------------------------------------------------------
// duplicate-preserving reader

#[derive(Clone, Debug, PartialEq)]
pub enum J {
    Null,
    Bool(bool),
    /// number, as written
    Num(String),
    Str(String),
    Arr(Vec<J>),
    /// members in textual order, duplicates kept
    Obj(Vec<(String, J)>),
}

pub struct Parsed {
    pub value: J,
    /// paths (`/a/b`) of keys that occur more than once in their object
    pub duplicates: Vec<String>,
}

struct P<'a> {
    s: &'a [u8],
    i: usize,
    dups: Vec<String>,
}

/// Parse JSON text strictly (RFC 8259 grammar, nothing after the value), keeping duplicates.
pub fn parse(text: &str) -> Result<Parsed, String> {
    let mut p = P { s: text.as_bytes(), i: 0, dups: vec![] };
    p.ws();
    let v = p.value(&mut String::new())?;
    p.ws();
    if p.i != p.s.len() {
        return Err(format!("trailing characters at byte {}", p.i));
    }
    Ok(Parsed { value: v, duplicates: p.dups })
}

impl P<'_> {
    fn ws(&mut self) {
        while self.i < self.s.len() && matches!(self.s[self.i], b' ' | b'\t' | b'\n' | b'\r') {
            self.i += 1;
        }
    }
    fn err<T>(&self, what: &str) -> Result<T, String> {
        Err(format!("{what} at byte {}", self.i))
    }
    fn lit(&mut self, word: &str, v: J) -> Result<J, String> {
        if self.s[self.i..].starts_with(word.as_bytes()) {
            self.i += word.len();
            Ok(v)
        } else {
            self.err("bad literal")
        }
    }
    fn value(&mut self, path: &mut String) -> Result<J, String> {
        if self.i >= self.s.len() {
            return self.err("unexpected end");
        }
        match self.s[self.i] {
            b'n' => self.lit("null", J::Null),
            b't' => self.lit("true", J::Bool(true)),
            b'f' => self.lit("false", J::Bool(false)),
            b'"' => Ok(J::Str(self.string()?)),
            b'[' => {
                self.i += 1;
                let mut items = vec![];
                self.ws();
                if self.i < self.s.len() && self.s[self.i] == b']' {
                    self.i += 1;
                    return Ok(J::Arr(items));
                }
                loop {
                    self.ws();
                    let l = path.len();
                    path.push_str(&format!("/{}", items.len()));
                    let v = self.value(path)?;
                    path.truncate(l);
                    items.push(v);
                    self.ws();
                    match self.s.get(self.i) {
                        Some(b',') => self.i += 1,
                        Some(b']') => {
                            self.i += 1;
                            return Ok(J::Arr(items));
                        }
                        _ => return self.err("expected , or ]"),
                    }
                }
            }
            b'{' => {
                self.i += 1;
                let mut members: Vec<(String, J)> = vec![];
                self.ws();
                if self.i < self.s.len() && self.s[self.i] == b'}' {
                    self.i += 1;
                    return Ok(J::Obj(members));
                }
                loop {
                    self.ws();
                    if self.s.get(self.i) != Some(&b'"') {
                        return self.err("expected key");
                    }
                    let k = self.string()?;
                    self.ws();
                    if self.s.get(self.i) != Some(&b':') {
                        return self.err("expected :");
                    }
                    self.i += 1;
                    self.ws();
                    let l = path.len();
                    path.push('/');
                    path.push_str(&k);
                    if members.iter().any(|(mk, _)| *mk == k) && !self.dups.contains(path) {
                        self.dups.push(path.clone());
                    }
                    let v = self.value(path)?;
                    path.truncate(l);
                    members.push((k, v));
                    self.ws();
                    match self.s.get(self.i) {
                        Some(b',') => self.i += 1,
                        Some(b'}') => {
                            self.i += 1;
                            return Ok(J::Obj(members));
                        }
                        _ => return self.err("expected , or }"),
                    }
                }
            }
            b'-' | b'0'..=b'9' => {
                let start = self.i;
                if self.s[self.i] == b'-' {
                    self.i += 1;
                }
                let int_start = self.i;
                while self.i < self.s.len() && self.s[self.i].is_ascii_digit() {
                    self.i += 1;
                }
                if self.i == int_start {
                    return self.err("digits expected");
                }
                if self.s[int_start] == b'0' && self.i - int_start > 1 {
                    return self.err("leading zero");
                }
                if self.s.get(self.i) == Some(&b'.') {
                    self.i += 1;
                    let f = self.i;
                    while self.i < self.s.len() && self.s[self.i].is_ascii_digit() {
                        self.i += 1;
                    }
                    if self.i == f {
                        return self.err("fraction digits expected");
                    }
                }
                if matches!(self.s.get(self.i), Some(b'e' | b'E')) {
                    self.i += 1;
                    if matches!(self.s.get(self.i), Some(b'+' | b'-')) {
                        self.i += 1;
                    }
                    let e = self.i;
                    while self.i < self.s.len() && self.s[self.i].is_ascii_digit() {
                        self.i += 1;
                    }
                    if self.i == e {
                        return self.err("exponent digits expected");
                    }
                }
                Ok(J::Num(String::from_utf8_lossy(&self.s[start..self.i]).into_owned()))
            }
            _ => self.err("unexpected character"),
        }
    }
    fn string(&mut self) -> Result<String, String> {
        // self.s[self.i] == '"'
        self.i += 1;
        let mut out: Vec<u8> = vec![];
        loop {
            let Some(&c) = self.s.get(self.i) else { return self.err("unterminated string") };
            match c {
                b'"' => {
                    self.i += 1;
                    return String::from_utf8(out).map_err(|e| e.to_string());
                }
                b'\\' => {
                    self.i += 1;
                    let Some(&e) = self.s.get(self.i) else { return self.err("bad escape") };
                    self.i += 1;
                    match e {
                        b'"' => out.push(b'"'),
                        b'\\' => out.push(b'\\'),
                        b'/' => out.push(b'/'),
                        b'b' => out.push(8),
                        b'f' => out.push(12),
                        b'n' => out.push(b'\n'),
                        b'r' => out.push(b'\r'),
                        b't' => out.push(b'\t'),
                        b'u' => {
                            let cp = self.hex4()?;
                            let ch = if (0xD800..0xDC00).contains(&cp) {
                                if self.s.get(self.i) == Some(&b'\\') && self.s.get(self.i + 1) == Some(&b'u') {
                                    self.i += 2;
                                    let lo = self.hex4()?;
                                    if !(0xDC00..0xE000).contains(&lo) {
                                        return self.err("bad low surrogate");
                                    }
                                    char::from_u32(0x10000 + ((cp - 0xD800) << 10) + (lo - 0xDC00))
                                } else {
                                    return self.err("lone surrogate");
                                }
                            } else {
                                char::from_u32(cp)
                            };
                            let Some(ch) = ch else { return self.err("bad code point") };
                            let mut b = [0u8; 4];
                            out.extend_from_slice(ch.encode_utf8(&mut b).as_bytes());
                        }
                        _ => return self.err("bad escape"),
                    }
                }
                0..=0x1f => return self.err("control character in string"),
                _ => {
                    out.push(c);
                    self.i += 1;
                }
            }
        }
    }
    fn hex4(&mut self) -> Result<u32, String> {
        if self.i + 4 > self.s.len() {
            return self.err("short \\u escape");
        }
        let h = std::str::from_utf8(&self.s[self.i..self.i + 4]).map_err(|e| e.to_string())?;
        let v = u32::from_str_radix(h, 16).map_err(|e| e.to_string())?;
        self.i += 4;
        Ok(v)
    }
}

impl J {
    /// member `k` of an object; with duplicates the LAST one (what a full
    /// `serde_json::Value` parse keeps)
    pub fn get(&self, k: &str) -> Option<&J> {
        match self {
            J::Obj(m) => m.iter().rev().find(|(mk, _)| mk == k).map(|(_, v)| v),
            _ => None,
        }
    }
    pub fn at(&self, path: &[String]) -> Option<&J> {
        let mut cur = self;
        for seg in path {
            cur = match cur {
                J::Obj(_) => cur.get(seg)?,
                J::Arr(a) => a.get(seg.parse::<usize>().ok()?)?,
                _ => return None,
            };
        }
        Some(cur)
    }
    /// same scalar / same empty container as the serde value `v`?
    pub fn same_leaf(&self, v: &Value) -> bool {
        match (self, v) {
            (J::Null, Value::Null) => true,
            (J::Bool(a), Value::Bool(b)) => a == b,
            (J::Str(a), Value::String(b)) => a == b,
            (J::Num(a), Value::Number(b)) => match (a.parse::<f64>(), b.as_f64()) {
                (Ok(x), Some(y)) => x == y,
                _ => false,
            },
            (J::Arr(a), Value::Array(b)) => a.is_empty() && b.is_empty(),
            (J::Obj(a), Value::Object(b)) => a.is_empty() && b.is_empty(),
            _ => false,
        }
    }
    pub fn to_compact(&self) -> String {
        match self {
            J::Null => "null".into(),
            J::Bool(b) => b.to_string(),
            J::Num(n) => n.clone(),
            J::Str(s) => serde_json::to_string(s).expect("string"),
            J::Arr(a) => format!("[{}]", a.iter().map(J::to_compact).collect::<Vec<_>>().join(",")),
            J::Obj(m) => format!(
                "{{{}}}",
                m.iter()
                    .map(|(k, v)| format!("{}:{}", serde_json::to_string(k).expect("string"), v.to_compact()))
                    .collect::<Vec<_>>()
                    .join(",")
            ),
        }
    }
}

/// All leaves of `v` (scalars and empty containers) with their paths.
pub fn leaves(v: &Value) -> Vec<(Vec<String>, Value)> {
    fn rec(v: &Value, path: &mut Vec<String>, out: &mut Vec<(Vec<String>, Value)>) {
        match v {
            Value::Object(m) if !m.is_empty() => {
                for (k, x) in m {
                    path.push(k.clone());
                    rec(x, path, out);
                    path.pop();
                }
            }
            Value::Array(a) if !a.is_empty() => {
                for (i, x) in a.iter().enumerate() {
                    path.push(i.to_string());
                    rec(x, path, out);
                    path.pop();
                }
            }
            leaf => out.push((path.clone(), leaf.clone())),
        }
    }
    let mut out = vec![];
    rec(v, &mut vec![], &mut out);
    out
}

/// Set `root[path] = value`, creating intermediate objects; numeric segments index arrays
/// that already exist.
pub fn set_path(root: &mut Value, path: &[&str], value: Value) {
    let mut cur = root;
    for (i, seg) in path.iter().enumerate() {
        let last = i + 1 == path.len();
        if cur.is_array() {
            let idx: usize = seg.parse().expect("array index in schema path");
            let arr = cur.as_array_mut().expect("array");
            assert!(idx < arr.len(), "schema path indexes past the array");
            if last {
                arr[idx] = value;
                return;
            }
            cur = &mut arr[idx];
        } else {
            if !cur.is_object() {
                *cur = Value::Object(Default::default());
            }
            let m = cur.as_object_mut().expect("object");
            if last {
                m.insert((*seg).to_owned(), value);
                return;
            }
            cur = m.entry((*seg).to_owned()).or_insert_with(|| Value::Object(Default::default()));
        }
    }
}

#[cfg(test)]
mod tests {
    use super::*;
    use serde_json::json;

    #[test]
    fn dup_detection() {
        let p = parse(r#"{"a":1,"b":{"c":1,"c":2},"a":[{"x":1,"x":1}]}"#).unwrap();
        assert_eq!(p.duplicates, vec!["/b/c", "/a", "/a/0/x"]);
        assert_eq!(p.value.get("a").unwrap().to_compact(), r#"[{"x":1,"x":1}]"#);
        assert!(parse(r#"{"a":1,}"#).is_err());
        assert!(parse(r#"{"a":01}"#).is_err());
        assert!(parse(r#"{"a":1} x"#).is_err());
    }

    #[test]
    fn orders() {
        let v = json!({"type":"t","content":{"msgtype":"m","body":"b"},"unsigned":{},"a":1});
        assert_eq!(write(&v, Order::Sorted, Style::Compact), r#"{"a":1,"content":{"body":"b","msgtype":"m"},"type":"t","unsigned":{}}"#);
        assert_eq!(write(&v, Order::Reverse, Style::Compact), r#"{"unsigned":{},"type":"t","content":{"msgtype":"m","body":"b"},"a":1}"#);
        assert_eq!(write(&v, Order::TypeLast, Style::Compact), r#"{"a":1,"content":{"body":"b","msgtype":"m"},"unsigned":{},"type":"t"}"#);
        assert_eq!(write(&v, Order::ContentLast, Style::Compact), r#"{"type":"t","unsigned":{},"a":1,"content":{"body":"b","msgtype":"m"}}"#);
        assert_eq!(write(&v, Order::Perm(0), Style::Compact), write(&v, Order::Sorted, Style::Compact));
        assert_eq!(write(&json!({"a":1,"b":2,"c":3}), Order::Perm(5), Style::Compact), r#"{"c":3,"b":2,"a":1}"#);
        assert_eq!(write(&json!({"a":1,"b":2,"c":3}), Order::Perm(3), Style::Compact), r#"{"b":2,"c":3,"a":1}"#);
        let sp = write(&v, Order::Sorted, Style::Spaced);
        assert_eq!(serde_json::from_str::<Value>(&sp).unwrap(), v);
        assert_eq!(write(&v, Order::KeyFirst(2), Style::Compact), r#"{"type":"t","a":1,"content":{"body":"b","msgtype":"m"},"unsigned":{}}"#);
        let esc = write(&json!({"ab":"c\u{1F44D}","":""}), Order::Sorted, Style::Escaped);
        assert_eq!(esc, r#"{"":"","a\u0062":"c\ud83d\udc4d"}"#);
        assert_eq!(serde_json::from_str::<Value>(&esc).unwrap(), json!({"ab":"c\u{1F44D}","":""}));
    }
}

//! Observation of ruma's typed event enums through their public API only: accessors,
//! `Debug`, matching on the (public, `#[doc(hidden)]` for `_Custom`) variants, and the content
//! round trip `serde_json::to_string` → `EventContentFromType::from_parts` /
//! `Raw::deserialize_with_type` → `serde_json::to_string`.

use std::fmt::{self, Write as _};

use ruma_common::serde::Raw;
use ruma_events::{
    room::redaction::{RoomRedactionEvent, SyncRoomRedactionEvent},
    AnyEphemeralRoomEvent, AnyEphemeralRoomEventContent, AnyGlobalAccountDataEvent,
    AnyGlobalAccountDataEventContent, AnyInitialStateEvent, AnyMessageLikeEvent,
    AnyMessageLikeEventContent, AnyRoomAccountDataEvent, AnyRoomAccountDataEventContent,
    AnyStateEvent, AnyStateEventContent, AnyStrippedStateEvent, AnySyncEphemeralRoomEvent,
    AnySyncMessageLikeEvent, AnySyncStateEvent, AnySyncTimelineEvent, AnyTimelineEvent,
    AnyToDeviceEvent, AnyToDeviceEventContent, EventContentFromType,
    MessageLikeEvent, RawExt, StateEvent, SyncMessageLikeEvent, SyncStateEvent,
};
use serde::de::DeserializeOwned;

/// The content round trip of one typed content value.
#[derive(Clone, Debug, PartialEq)]
pub struct Fix {
    /// Rust type the content was observed as
    pub type_name: &'static str,
    /// `content.event_type().to_string()`
    pub event_type: String,
    /// first serialization
    pub s1: Result<String, String>,
    /// serialization of `from_parts(type, s1)`
    pub via_from_parts: Option<Result<String, String>>,
    /// serialization of `Raw::from_json_string(s1).deserialize_with_type(event_type())`
    pub via_raw_ext: Option<Result<String, String>>,
    /// number of ruma calls made
    pub calls: u64,
    /// `{:?}` of the typed value and of the value read back from its own serialization: equal
    /// when the round trip changed nothing at the typed level (a key whose value is the default
    /// may legitimately be omitted from the text)
    pub typed_unchanged: Option<bool>,
}

pub fn fix<C>(ty: &str, c: &C) -> Fix
where
    C: EventContentFromType + fmt::Debug,
    C::EventType: fmt::Display,
{
    let mut calls = 2;
    let event_type = c.event_type().to_string();
    let s1 = serde_json::to_string(c).map_err(|e| e.to_string());
    let (mut via_from_parts, mut via_raw_ext) = (None, None);
    let mut typed_unchanged = None;
    if let Ok(text) = &s1 {
        match Raw::<C>::from_json_string(text.clone()) {
            Err(e) => via_from_parts = Some(Err(format!("own output is not JSON: {e}"))),
            Ok(raw) => {
                calls += 4;
                via_from_parts = Some(
                    C::from_parts(ty, raw.json())
                        .map_err(|e| format!("reparse: {e}"))
                        .and_then(|c2| {
                            typed_unchanged = Some(format!("{c:?}") == format!("{c2:?}"));
                            serde_json::to_string(&c2).map_err(|e| format!("reserialize: {e}"))
                        }),
                );
                via_raw_ext = Some(
                    raw.deserialize_with_type(c.event_type())
                        .map_err(|e| format!("reparse: {e}"))
                        .and_then(|c2| serde_json::to_string(&c2).map_err(|e| format!("reserialize: {e}"))),
                );
            }
        }
    }
    Fix { type_name: std::any::type_name::<C>(), event_type, s1, via_from_parts, via_raw_ext, calls, typed_unchanged }
}

#[derive(Clone, Debug, PartialEq)]
pub enum ContentObs {
    /// unknown event type: the `_Custom` variant, no typed content to serialize
    Custom,
    Typed(Fix),
    /// a variant this harness has no arm for (machinery problem, never a verdict)
    Unlisted,
}

#[derive(Clone, Debug, PartialEq)]
pub struct Obs {
    pub event_type: String,
    pub sender: Option<String>,
    pub event_id: Option<String>,
    pub origin_server_ts: Option<u64>,
    pub state_key: Option<String>,
    pub room_id: Option<String>,
    pub redacted: Option<bool>,
    /// first bytes of `{:?}` (variant names)
    pub debug_prefix: String,
    /// round trip through the concrete content type of the variant
    pub content: ContentObs,
    /// round trip through the `Any*EventContent` enum, where the API hands one out
    pub enum_content: Option<Fix>,
    /// `Raw::<E>::from_json_string(text).deserialize()` agrees with `serde_json::from_str::<E>`
    pub raw_deserialize: Result<(), String>,
    pub calls: u64,
}

struct Prefix {
    buf: String,
    cap: usize,
}

impl fmt::Write for Prefix {
    fn write_str(&mut self, s: &str) -> fmt::Result {
        for ch in s.chars() {
            if self.buf.len() >= self.cap {
                return Err(fmt::Error);
            }
            self.buf.push(ch);
        }
        Ok(())
    }
}

pub fn debug_prefix<T: fmt::Debug>(t: &T) -> String {
    let mut p = Prefix { buf: String::new(), cap: 96 };
    let _ = write!(p, "{t:?}");
    p.buf
}

pub trait Observe: DeserializeOwned + fmt::Debug {
    const NAME: &'static str;
    fn observe(&self, ty: &str) -> Obs;
}

fn ts(t: ruma_common::MilliSecondsSinceUnixEpoch) -> u64 {
    u64::from(t.get())
}

fn calls_of(c: &ContentObs, e: &Option<Fix>) -> u64 {
    let a = if let ContentObs::Typed(f) = c { f.calls } else { 0 };
    a + e.as_ref().map(|f| f.calls).unwrap_or(0) + 8
}

macro_rules! with_state_variants {
    ($cb:ident, $($args:tt)*) => {
        $cb!($($args)*;
            PolicyRuleRoom PolicyRuleServer PolicyRuleUser RoomAliases RoomAvatar RoomCanonicalAlias
            RoomCreate RoomEncryption RoomGuestAccess RoomHistoryVisibility RoomJoinRules RoomMember
            RoomName RoomPinnedEvents RoomPowerLevels RoomServerAcl RoomThirdPartyInvite RoomTombstone
            RoomTopic SpaceChild SpaceParent);
    };
}

macro_rules! with_message_like_variants {
    ($cb:ident, $($args:tt)*) => {
        $cb!($($args)*;
            CallAnswer CallInvite CallHangup CallCandidates CallNegotiate CallReject
            CallSdpStreamMetadataChanged CallSelectAnswer KeyVerificationReady KeyVerificationStart
            KeyVerificationCancel KeyVerificationAccept KeyVerificationKey KeyVerificationMac
            KeyVerificationDone Reaction RoomEncrypted RoomMessage Sticker);
    };
}

macro_rules! impl_timeline {
    ($any:ident, $wrap:ident, $content_enum:ident, $room:expr, $state_key:expr, [$($rwrap:ident)?]; $($v:ident)*) => {
        impl Observe for $any {
            const NAME: &'static str = stringify!($any);
            fn observe(&self, ty: &str) -> Obs {
                let content = match self {
                    $(
                        $any::$v($wrap::Original(e)) => ContentObs::Typed(fix(ty, &e.content)),
                        $any::$v($wrap::Redacted(e)) => ContentObs::Typed(fix(ty, &e.content)),
                    )*
                    $(
                        $any::RoomRedaction($rwrap::Original(e)) => ContentObs::Typed(fix(ty, &e.content)),
                        $any::RoomRedaction($rwrap::Redacted(e)) => ContentObs::Typed(fix(ty, &e.content)),
                    )?
                    $any::_Custom(_) => ContentObs::Custom,
                    #[allow(unreachable_patterns)]
                    _ => ContentObs::Unlisted,
                };
                let enum_content = match self.original_content() {
                    None | Some($content_enum::_Custom { .. }) => None,
                    Some(c) => Some(fix(ty, &c)),
                };
                let calls = calls_of(&content, &enum_content);
                #[allow(clippy::redundant_closure_call)]
                Obs {
                    event_type: self.event_type().to_string(),
                    sender: Some(self.sender().to_string()),
                    event_id: Some(self.event_id().to_string()),
                    origin_server_ts: Some(ts(self.origin_server_ts())),
                    state_key: ($state_key)(self),
                    room_id: ($room)(self),
                    redacted: Some(self.is_redacted()),
                    debug_prefix: debug_prefix(self),
                    content,
                    enum_content,
                    raw_deserialize: Ok(()),
                    calls,
                }
            }
        }
    };
}

with_state_variants!(
    impl_timeline,
    AnyStateEvent,
    StateEvent,
    AnyStateEventContent,
    |s: &AnyStateEvent| Some(s.room_id().to_string()),
    |s: &AnyStateEvent| Some(s.state_key().to_owned()),
    []
);
with_state_variants!(
    impl_timeline,
    AnySyncStateEvent,
    SyncStateEvent,
    AnyStateEventContent,
    |_s: &AnySyncStateEvent| None,
    |s: &AnySyncStateEvent| Some(s.state_key().to_owned()),
    []
);
with_message_like_variants!(
    impl_timeline,
    AnyMessageLikeEvent,
    MessageLikeEvent,
    AnyMessageLikeEventContent,
    |s: &AnyMessageLikeEvent| Some(s.room_id().to_string()),
    |_s: &AnyMessageLikeEvent| None,
    [RoomRedactionEvent]
);
with_message_like_variants!(
    impl_timeline,
    AnySyncMessageLikeEvent,
    SyncMessageLikeEvent,
    AnyMessageLikeEventContent,
    |_s: &AnySyncMessageLikeEvent| None,
    |_s: &AnySyncMessageLikeEvent| None,
    [SyncRoomRedactionEvent]
);

macro_rules! impl_stripped {
    (; $($v:ident)*) => {
        impl Observe for AnyStrippedStateEvent {
            const NAME: &'static str = "AnyStrippedStateEvent";
            fn observe(&self, ty: &str) -> Obs {
                let content = match self {
                    $( AnyStrippedStateEvent::$v(e) => ContentObs::Typed(fix(ty, &e.content)), )*
                    AnyStrippedStateEvent::_Custom(_) => ContentObs::Custom,
                    #[allow(unreachable_patterns)]
                    _ => ContentObs::Unlisted,
                };
                let calls = calls_of(&content, &None);
                Obs {
                    event_type: self.event_type().to_string(),
                    sender: Some(self.sender().to_string()),
                    event_id: None,
                    origin_server_ts: None,
                    state_key: Some(self.state_key().to_owned()),
                    room_id: None,
                    redacted: None,
                    debug_prefix: debug_prefix(self),
                    content,
                    enum_content: None,
                    raw_deserialize: Ok(()),
                    calls,
                }
            }
        }
    };
}
with_state_variants!(impl_stripped,);

/// kinds whose API hands out the content only through the `Any*EventContent` enum
macro_rules! impl_simple {
    ($any:ident, $content_enum:ident, $sender:expr, $room:expr, $state_key:expr) => {
        impl Observe for $any {
            const NAME: &'static str = stringify!($any);
            fn observe(&self, ty: &str) -> Obs {
                let content = match self.content() {
                    $content_enum::_Custom { .. } => ContentObs::Custom,
                    c => ContentObs::Typed(fix(ty, &c)),
                };
                let calls = calls_of(&content, &None);
                #[allow(clippy::redundant_closure_call)]
                Obs {
                    event_type: self.event_type().to_string(),
                    sender: ($sender)(self),
                    event_id: None,
                    origin_server_ts: None,
                    state_key: ($state_key)(self),
                    room_id: ($room)(self),
                    redacted: None,
                    debug_prefix: debug_prefix(self),
                    content,
                    enum_content: None,
                    raw_deserialize: Ok(()),
                    calls,
                }
            }
        }
    };
}

impl_simple!(
    AnyInitialStateEvent,
    AnyStateEventContent,
    |_s: &AnyInitialStateEvent| None,
    |_s: &AnyInitialStateEvent| None,
    |s: &AnyInitialStateEvent| Some(s.state_key().to_owned())
);
impl_simple!(
    AnyEphemeralRoomEvent,
    AnyEphemeralRoomEventContent,
    |_s: &AnyEphemeralRoomEvent| None,
    |s: &AnyEphemeralRoomEvent| Some(s.room_id().to_string()),
    |_s: &AnyEphemeralRoomEvent| None
);
impl_simple!(
    AnySyncEphemeralRoomEvent,
    AnyEphemeralRoomEventContent,
    |_s: &AnySyncEphemeralRoomEvent| None,
    |_s: &AnySyncEphemeralRoomEvent| None,
    |_s: &AnySyncEphemeralRoomEvent| None
);
impl_simple!(
    AnyGlobalAccountDataEvent,
    AnyGlobalAccountDataEventContent,
    |_s: &AnyGlobalAccountDataEvent| None,
    |_s: &AnyGlobalAccountDataEvent| None,
    |_s: &AnyGlobalAccountDataEvent| None
);
impl_simple!(
    AnyRoomAccountDataEvent,
    AnyRoomAccountDataEventContent,
    |_s: &AnyRoomAccountDataEvent| None,
    |_s: &AnyRoomAccountDataEvent| None,
    |_s: &AnyRoomAccountDataEvent| None
);
impl_simple!(
    AnyToDeviceEvent,
    AnyToDeviceEventContent,
    |s: &AnyToDeviceEvent| Some(s.sender().to_string()),
    |_s: &AnyToDeviceEvent| None,
    |_s: &AnyToDeviceEvent| None
);

macro_rules! impl_wrapper {
    ($any:ident, $room:expr) => {
        impl Observe for $any {
            const NAME: &'static str = stringify!($any);
            fn observe(&self, ty: &str) -> Obs {
                let mut o = match self {
                    $any::State(e) => e.observe(ty),
                    $any::MessageLike(e) => e.observe(ty),
                };
                // the wrapper's own accessors
                o.event_type = self.event_type().to_string();
                o.sender = Some(self.sender().to_string());
                o.event_id = Some(self.event_id().to_string());
                o.origin_server_ts = Some(ts(self.origin_server_ts()));
                #[allow(clippy::redundant_closure_call)]
                {
                    o.room_id = ($room)(self);
                }
                o.debug_prefix = debug_prefix(self);
                o.calls += 6;
                o
            }
        }
    };
}
impl_wrapper!(AnyTimelineEvent, |s: &AnyTimelineEvent| Some(s.room_id().to_string()));
impl_wrapper!(AnySyncTimelineEvent, |_s: &AnySyncTimelineEvent| None);

/// Deserialize `text` as `E` (directly and through `Raw<E>`) and observe it. `Err`: the
/// deserialization error text.
pub fn observe_as<E: Observe>(text: &str, ty: &str) -> Result<Obs, String> {
    let direct = serde_json::from_str::<E>(text).map_err(|e| e.to_string());
    let via_raw = Raw::<E>::from_json_string(text.to_owned()).and_then(|r| r.deserialize()).map_err(|e| e.to_string());
    match (direct, via_raw) {
        (Ok(a), Ok(b)) => {
            let mut obs = a.observe(ty);
            let pb = debug_prefix(&b);
            if pb != obs.debug_prefix {
                obs.raw_deserialize = Err(format!("Raw::deserialize gives {pb:?}, from_str {:?}", obs.debug_prefix));
            }
            obs.calls += 2;
            Ok(obs)
        }
        (Ok(a), Err(e)) => {
            let mut obs = a.observe(ty);
            obs.raw_deserialize = Err(format!("Raw::deserialize fails where from_str succeeds: {e}"));
            Ok(obs)
        }
        (Err(e), Ok(_)) => Err(format!("{e} (while Raw::deserialize succeeds)")),
        (Err(e), Err(_)) => Err(e),
    }
}
